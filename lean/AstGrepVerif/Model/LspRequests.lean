/-
Model of the language server's REQUEST layer over a session (slice "lsp_requests" of C06 / C08 / C09).

Mirrors `crates/lsp/src/lib.rs` and `crates/lsp/src/utils.rs` (ast-grep 0.37.0 + the fix commits of /repo):
  * `on_code_action` (368-375): `context.only` is `Some(kinds)` and some requested kind selects the
        fix-all action's kind `source.fixAll.ast-grep` by the LSP kind hierarchy
        (`selects_fix_all(k)`: `FIX_ALL_AST_GREP == k`, or `FIX_ALL_AST_GREP.strip_prefix(k)` leaves a
        rest that starts with `.` — so `source`, `source.fixAll`, `source.fixAll.ast-grep`; not the
        empty kind, not `source.fixAllx`) ⇒ `fix_all_code_action`, otherwise `quickfix_code_action`.
        The RELEASED routing (0.37.0, before FIX_lsp_only_kinds): `kinds.contains(&SOURCE_FIX_ALL)`,
        plain equality with the string `source.fixAll` — kept as `onCodeActionPinned`;
  * `fix_all_code_action` (368-385): `compute_all_fixes(..).ok()?`; ONE action, title "Fix by ast-grep",
        kind `source.fixAll.ast-grep`, `is_preferred: None`;
  * `quickfix_code_action` (387-406): no client diagnostics ⇒ `None`; otherwise the diagnostics whose
        `source` is present and contains "ast-grep", each through `diagnostic_to_code_action`
        (`filter_map`), in the client's order; the request's `range` is never looked at; the document
        map is never looked at (the uri of the request only becomes the key of `changes`);
  * `diagnostic_to_code_action` (utils.rs 67-92): `data` present and decodes as `RewriteData
        { fixed, range? }`, `code` is a string ⇒ a `quickfix` action, preferred, title
        "Fix `{id}` with ast-grep", one `TextEdit { range: replaced_range, new_text: fixed }`;
  * `RewriteData::replaced_range` (50-52): `self.range.unwrap_or(diagnostic_range)`;
  * `compute_all_fixes` (317-357): `map.get(uri)` (else `UnsupportedFileType`), the diagnostics of
        the STORED text (`get_diagnostics`; `None` ⇒ `NoActionableFix`), stable sort by
        `(range.start, Reverse(range.end))`, `filter_map` with `last` (= `Frontends.lspFixAll .fixed`),
        no edit ⇒ `NoActionableFix`;
  * `on_execute_command` (414-437): the command string equals `ast-grep.applyAllFixes` ⇒
        `on_apply_all_fix`, anything else ⇒ log "Unrecognized command"; the response is always `null`;
  * `on_apply_all_fix` / `_impl` (439-474): `arguments.first()?` (no argument: nothing happens, not
        even an error log); the first argument decodes as a `TextDocumentItem` (uri, languageId,
        version, text all required; else `JSONDecodeError`); only its `uri` is used — the `version`
        and `text` of the argument are ignored, the stored document is what is fixed;
        `client.apply_edit(WorkspaceEdit { changes: {uri: edits} })`, the client's answer is dropped;
  * `report_error` (476-500): one log line per error class (observable by the client).
The document map and `should_skip_file_outside_workspace` are `Model/Lsp` (`onOpen`, `cfg.outside`).

The analysis of a text — `get_diagnostics(uri, stored)` as far as fixes are concerned, i.e.
`Frontends.lspDiags?` over the matches of the rules `for_path` of the uri — is the parameter
`analyse : Uri → Text → List LspDiag` (per uri: the rule set of a document depends on its path).
A uri without rules has the empty analysis (`get_diagnostics = None` and "no edit" both end in
`NoActionableFix`).  Handlers run one after the other (`concurrency_level(1)`, see `Model/Lsp`).
No handler has a panic site; `step` is total.
-/
import AstGrepVerif.Model.Lsp
import AstGrepVerif.Model.Frontends

namespace AGV.LspReq

open AGV AGV.Lsp

/-! ### wire data -/

/-- one segment of a `CodeActionKind` (`quickfix`, `source.fixAll.ast-grep`, … split at `.`) -/
inductive Seg where
  | quickfix | source | fixAll | astGrep | refactor
  | other (n : Nat)
  deriving DecidableEq, Repr

/-- a `CodeActionKind`: its segments; `[]` is the empty kind `""` -/
abbrev Kind := List Seg

/-- `CodeActionKind::SOURCE_FIX_ALL` = `"source.fixAll"` -/
def kSourceFixAll : Kind := [.source, .fixAll]
/-- `CodeActionKind::QUICKFIX` -/
def kQuickfix : Kind := [.quickfix]
/-- `FIX_ALL_AST_GREP` = `"source.fixAll.ast-grep"` -/
def kFixAllAstGrep : Kind := [.source, .fixAll, .astGrep]

abbrev LRange := LPos × LPos

/-- `Diagnostic.code` -/
inductive CodeField where
  | none
  | num (n : Int)
  | str (id : Bytes)
  deriving DecidableEq, Repr

/-- `Diagnostic.data` as `RewriteData::from_value` sees it -/
inductive DataField where
  | none                                                   -- absent / `null`
  | bad                                                    -- present, not a `RewriteData`
  | rewrite (fixed : Bytes) (range : Option LRange)        -- `{fixed, range?}`
  deriving DecidableEq, Repr

/-- a diagnostic as the client sends it back in `CodeActionContext.diagnostics` -/
structure ClientDiag where
  start : LPos
  stop : LPos
  source : Option Bytes
  code : CodeField
  data : DataField
  deriving DecidableEq, Repr

structure TEdit where
  start : LPos
  stop : LPos
  newText : Bytes
  deriving DecidableEq, Repr

inductive ActionKind where
  | quickfix            -- `CodeActionKind::QUICKFIX`
  | fixAll              -- `source.fixAll.ast-grep`
  deriving DecidableEq, Repr

/-- a returned `CodeAction`: `edit.changes = {uri: edits}`; `ruleId = some id` stands for the
title "Fix `{id}` with ast-grep", `none` for "Fix by ast-grep" -/
structure Action where
  kind : ActionKind
  ruleId : Option Bytes
  uri : Uri
  edits : List TEdit
  preferred : Bool      -- `is_preferred == Some(true)`
  deriving DecidableEq, Repr

/-- one element of `ExecuteCommandParams.arguments` as `serde_json::from_value::<TextDocumentItem>` sees it -/
inductive Arg where
  | bad
  | doc (u : Uri) (v : Version) (t : Text)
  deriving DecidableEq, Repr

/-- `LspError`, and what else `on_execute_command` can end in -/
inductive CmdOutcome where
  | unrecognized                       -- log "Unrecognized command: …"
  | noArgs                             -- `arguments.first()?`: silently nothing
  | jsonError                          -- log "JSON deserialization error: …"
  | unsupported                        -- log "Unsupported file type" (uri not in the map)
  | noFix                              -- log "No actionable fix"
  | applied (u : Uri) (edits : List TEdit)   -- `workspace/applyEdit` sent to the client
  deriving DecidableEq, Repr

inductive FixErr where
  | unsupported | noFix
  deriving DecidableEq, Repr

/-- a message of a session -/
inductive SOp where
  | doc (op : Lsp.Op)
  /-- `textDocument/codeAction` -/
  | codeAction (u : Uri) (range : LRange) (only : Option (List Kind)) (diags : List ClientDiag)
  /-- `workspace/executeCommand`; `applyAll` = the command is the string `ast-grep.applyAllFixes` -/
  | executeCommand (applyAll : Bool) (args : List Arg)
  deriving DecidableEq, Repr

/-- what the client sees -/
inductive Out where
  | publish (p : Publish)
  | actions (r : Option (List Action))       -- the response to `textDocument/codeAction`
  | command (c : CmdOutcome)                 -- the effects of `workspace/executeCommand` (response: always `null`)
  deriving DecidableEq, Repr

abbrev Analyse := Uri → Text → List LspDiag

/-! ### `utils.rs` -/

/-- `"ast-grep"` -/
def astGrepName : Bytes := [0x61, 0x73, 0x74, 0x2d, 0x67, 0x72, 0x65, 0x70]

def isPrefixB : Bytes → Bytes → Bool
  | [], _ => true
  | _ :: _, [] => false
  | a :: as, b :: bs => a == b && isPrefixB as bs

/-- `str::contains` -/
def containsB (pat : Bytes) : Bytes → Bool
  | [] => pat.isEmpty
  | b :: bs => isPrefixB pat (b :: bs) || containsB pat bs

/-- the filter of `quickfix_code_action` -/
def fromAstGrep (d : ClientDiag) : Bool :=
  match d.source with
  | some s => containsB astGrepName s
  | none => false

/-- `RewriteData::replaced_range(diagnostic.range)` -/
def replacedRange (range : Option LRange) (diag : LRange) : LRange := range.getD diag

/-- `diagnostic_to_code_action` -/
def diagnosticToCodeAction (u : Uri) (d : ClientDiag) : Option Action :=
  match d.data with
  | .none => none
  | .bad => none
  | .rewrite fixed range =>
    let r := replacedRange range (d.start, d.stop)
    match d.code with
    | .str id => some ⟨.quickfix, some id, u, [⟨r.1, r.2, fixed⟩], true⟩
    | _ => none

/-- `convert_match_to_diagnostic` as far as the request layer reads it back: the diagnostic the
server publishes for an analysed match of rule `id` (`RewriteData::from_node_match` omits `range`
when the fixer replaces exactly the node) -/
def wireOf (id : Bytes) (d : LspDiag) : ClientDiag :=
  { start := d.start, stop := d.stop, source := some astGrepName, code := .str id,
    data := match d.fixed with
      | none => .none
      | some f => .rewrite f (if (d.editStart, d.editStop) = (d.start, d.stop) then none
                              else some (d.editStart, d.editStop)) }

/-! ### `lib.rs` -/

def editOfDiag (d : LspDiag) : Option TEdit := d.fixed.map fun f => ⟨d.editStart, d.editStop, f⟩

/-- `compute_all_fixes(uri)` on the document map `s` -/
def computeAllFixes (an : Analyse) (s : State) (u : Uri) : Except FixErr (List TEdit) :=
  match lookup s u with
  | none => .error .unsupported
  | some (_, t) =>
    let edits := (lspFixAll Variant.fixed (an u t)).filterMap editOfDiag
    if edits.isEmpty then .error .noFix else .ok edits

def fixAllAction (u : Uri) (edits : List TEdit) : Action := ⟨.fixAll, none, u, edits, false⟩

/-- `fix_all_code_action` -/
def fixAllCodeAction (an : Analyse) (s : State) (u : Uri) : Option (List Action) :=
  match computeAllFixes an s u with
  | .ok edits => some [fixAllAction u edits]
  | .error _ => none

/-- `quickfix_code_action` -/
def quickfixCodeAction (u : Uri) (diags : List ClientDiag) : Option (List Action) :=
  if diags.isEmpty then none
  else some ((diags.filter fromAstGrep).filterMap (diagnosticToCodeAction u))

/-- `on_code_action` of the released code (0.37.0, before FIX_lsp_only_kinds):
`kinds.contains(&CodeActionKind::SOURCE_FIX_ALL)` -/
def onCodeActionPinned (an : Analyse) (s : State) (u : Uri) (only : Option (List Kind))
    (diags : List ClientDiag) : Option (List Action) :=
  match only with
  | some kinds => if kinds.contains kSourceFixAll then fixAllCodeAction an s u else quickfixCodeAction u diags
  | none => quickfixCodeAction u diags

/-- `selects_fix_all(requested)`: `FIX_ALL_AST_GREP == requested ||
FIX_ALL_AST_GREP.strip_prefix(requested).is_some_and(|rest| rest.starts_with('.'))`.  On segments:
the rest starts with `.` exactly when `requested` is not empty (the rest would be the whole kind),
ends at a segment border of the kind and leaves at least one segment -/
def selectsFixAll (k : Kind) : Bool :=
  kFixAllAstGrep == k ||
    (!k.isEmpty && k.isPrefixOf kFixAllAstGrep && decide (k.length < kFixAllAstGrep.length))

/-- `on_code_action` -/
def onCodeAction (an : Analyse) (s : State) (u : Uri) (only : Option (List Kind))
    (diags : List ClientDiag) : Option (List Action) :=
  match only with
  | some kinds => if kinds.any selectsFixAll then fixAllCodeAction an s u else quickfixCodeAction u diags
  | none => quickfixCodeAction u diags

/-- `on_apply_all_fix` -/
def onApplyAllFix (an : Analyse) (s : State) (args : List Arg) : CmdOutcome :=
  match args with
  | [] => .noArgs
  | .bad :: _ => .jsonError
  | .doc u _ _ :: _ =>
    match computeAllFixes an s u with
    | .ok edits => .applied u edits
    | .error .unsupported => .unsupported
    | .error .noFix => .noFix

/-- `on_execute_command` -/
def onExecuteCommand (an : Analyse) (s : State) (applyAll : Bool) (args : List Arg) : CmdOutcome :=
  if applyAll then onApplyAllFix an s args else .unrecognized

/-- one message, handled completely -/
def step (cfg : Config) (an : Analyse) (s : State) : SOp → State × List Out
  | .doc op => ((Lsp.step cfg s op).1, (Lsp.step cfg s op).2.map .publish)
  | .codeAction u _ only diags => (s, [.actions (onCodeAction an s u only diags)])
  | .executeCommand applyAll args => (s, [.command (onExecuteCommand an s applyAll args)])

structure Run where
  state : State
  outs : List Out             -- everything the client saw, oldest first
  deriving Repr, DecidableEq

def runFrom (cfg : Config) (an : Analyse) : State → List Out → List SOp → Run
  | s, acc, [] => ⟨s, acc⟩
  | s, acc, op :: ops => runFrom cfg an (step cfg an s op).1 (acc ++ (step cfg an s op).2) ops

def run (cfg : Config) (an : Analyse) (h : List SOp) : Run := runFrom cfg an [] [] h

/-- the notifications of a session -/
def docOps : List SOp → List Lsp.Op
  | [] => []
  | .doc op :: r => op :: docOps r
  | _ :: r => docOps r

def pubsOf : List Out → List Publish
  | [] => []
  | .publish p :: r => p :: pubsOf r
  | _ :: r => pubsOf r

end AGV.LspReq
