/-
Model of the CLI's "apply the fixes" path (`--update-all`, i.e. accept-all).

Mirrors (ast-grep 0.37.0)
* `crates/cli/src/print/interactive_print.rs`
    `process_diffs_interactive` (251-291) in accept-all mode, `apply_rewrite` (311-324),
    `InteractivePrinter::rewrite_action` (51-62), `process_diffs` (86-94),
    `after_print` (120-125: "Applied N changes" iff N > 0),
* `crates/cli/src/scan.rs:199-222`, `run.rs:226-240`, `utils/mod.rs:120-180`:
    one payload **per document** (host language + every injected language) of a file, each
    carrying `old_source` = the text of the whole file as read when the file was scanned.

Text is `List UInt8` (`Content for String`).  Rust's `&str[a..b]` panics when `a > b`, `b > len`
or an end-point is not on a char boundary: that is the explicit outcome `.error .strSlice`.
-/
import AstGrepVerif.Model.Indent

namespace AGV

/-- a proposed fix as the CLI sees it: `Diff { range: start..stop, replacement }` -/
structure Diff where
  start : Nat
  stop : Nat
  rep : Bytes
deriving DecidableEq, Repr

inductive PanicSite where
  | strSlice      -- `&str[a..b]` out of range / not on a char boundary / a > b
  | byteSlice     -- `&[u8][a..b]` out of range / a > b
  | subOverflow   -- `usize - usize` below zero (debug build / overflow-checks)
deriving DecidableEq, Repr

abbrev Res (α : Type) := Except PanicSite α

deriving instance DecidableEq for Except

/-- UTF-8 continuation byte `10xxxxxx` -/
def isContByte (b : UInt8) : Bool := 0x80 ≤ b.toNat && b.toNat < 0xC0

/-- `str::is_char_boundary` (index 0 and `len` are boundaries; otherwise the byte at the index is
not a continuation byte; indices beyond `len` are not boundaries) -/
def isCharBoundary (s : Bytes) (i : Nat) : Bool :=
  if i = 0 then true
  else match s[i]? with
    | none => i == s.length
    | some b => !isContByte b

/-- `&s[a..b]` on a `str` -/
def strSlice (s : Bytes) (a b : Nat) : Res Bytes :=
  if a ≤ b ∧ isCharBoundary s a = true ∧ isCharBoundary s b = true then
    .ok ((s.drop a).take (b - a))
  else .error .strSlice

/-- `&s[a..]` on a `str` -/
def strSliceFrom (s : Bytes) (a : Nat) : Res Bytes :=
  if isCharBoundary s a = true then .ok (s.drop a) else .error .strSlice

/-- the loop of `process_diffs_interactive` with `accept_all = true`:
`end` starts at 0; a diff with `range.start < end` is skipped, otherwise it is confirmed and
`end = range.end` (the code assigns, it does not take a maximum). -/
def processDiffsGo : Nat → List Diff → List Diff
  | _, [] => []
  | end_, d :: ds =>
    if d.start < end_ then processDiffsGo end_ ds
    else d :: processDiffsGo d.stop ds

def processDiffs (ds : List Diff) : List Diff := processDiffsGo 0 ds

/-- the loop of `apply_rewrite`, `start` = the cursor into `old_content` -/
def applyRewriteGo (old : Bytes) : Nat → List Diff → Res Bytes
  | start, [] => strSliceFrom old start
  | start, d :: ds => do
    let pre ← strSlice old start d.start
    let rest ← applyRewriteGo old d.stop ds
    pure (pre ++ d.rep ++ rest)

def applyRewrite (old : Bytes) (confirmed : List Diff) : Res Bytes :=
  applyRewriteGo old 0 confirmed

/-! ### the printer: one payload per document -/

/-- what the worker sends to the printer for one document of one file (`Diffs`);
`Highlights`/`Nothing` payloads change nothing and are `diffs = []` here. -/
structure Payload where
  path : Nat            -- file identity
  oldSource : Bytes     -- snapshot of the whole file taken at scan time
  diffs : List Diff
deriving DecidableEq, Repr

abbrev FS := List (Nat × Bytes)

def fsRead (fs : FS) (p : Nat) : Option Bytes := fs.lookup p

/-- `std::fs::write(path, content)`: replaces the whole content -/
def fsWrite : FS → Nat → Bytes → FS
  | [], p, c => [(p, c)]
  | (q, d) :: fs, p, c => if q = p then (q, c) :: fs else (q, d) :: fsWrite fs p c

structure UState where
  fs : FS
  committed : Nat        -- `committed_cnt`
  writes : List Nat      -- log: paths opened for writing, in order
deriving DecidableEq, Repr

/-- `InteractivePrinter::process` for a `Diffs` payload with accept-all:
`process_diffs_interactive` (counting), then `rewrite_action` (no write when nothing confirmed) -/
def processPayload (st : UState) (p : Payload) : Res UState :=
  let confirmed := processDiffs p.diffs
  let st := { st with committed := st.committed + confirmed.length }
  if confirmed.isEmpty then .ok st
  else do
    let newContent ← applyRewrite p.oldSource confirmed
    pure { st with fs := fsWrite st.fs p.path newContent, writes := st.writes ++ [p.path] }

/-- `consume_items`: the printer thread processes the payloads in arrival order -/
def updateAllFrom : UState → List Payload → Res UState
  | st, [] => .ok st
  | st, p :: ps => do
    let st' ← processPayload st p
    updateAllFrom st' ps

def updateAll (fs : FS) (ps : List Payload) : Res UState :=
  updateAllFrom { fs := fs, committed := 0, writes := [] } ps

/-- `after_print`: the line "Applied N changes" is printed iff N > 0 -/
def appliedLine (st : UState) : Option Nat := if st.committed > 0 then some st.committed else none

/-- the payloads the workers produce for one file: one per document, all with the same snapshot
(`docs` = the proposed diffs of the host document and of each injected document, in order) -/
def payloadsOfFile (path : Nat) (content : Bytes) (docs : List (List Diff)) : List Payload :=
  docs.map fun ds => { path := path, oldSource := content, diffs := ds }

end AGV
