/-
The load pipeline of a rule document as an outcome function (C11): `load : SDoc → ok | err | panic`.

Mirrors (pinned commit + FIX_C11_1..7, FIX_C12_1..3; `Fixes.none` gives the pinned behaviour):
  * `crates/config/src/rule/deserialize_env.rs:70-143`  `TopologicalSort::{get_order, visit}`,
                                                        `visit_dependent_rule_ids`
  * `crates/config/src/rule/deserialize_env.rs:156-172` `DeserializeEnv::with_utils`
  * `crates/config/src/rule/mod.rs:228-238`             `Rule::check_cyclic`
  * `crates/config/src/rule/mod.rs:370-485`             `deserialize_rule` and its three helpers
  * `crates/config/src/rule/relational_rule.rs`         `Inside/Has/Precedes/Follows::try_new`
  * `crates/config/src/rule/nth_child.rs:42-221`        `parse_an_b` (via `Model/Notation`),
                                                        `NthChildSimple::try_parse`, `NthChild::try_new`
  * `crates/config/src/rule/range.rs:45-57`             `RangeMatcher::try_new`
  * `crates/config/src/rule/referent_rule.rs:86-118`    `insert_local`, `insert_rewriter`
  * `crates/config/src/transform/mod.rs:32-49`          `Transform::deserialize`
  * `crates/config/src/transform/transformation.rs:122-170`  `parse_meta_var`, `parse`, `used_vars`
  * `crates/config/src/fixer.rs:46-114`                 `Expansion::parse`, `Fixer::parse`
  * `crates/config/src/rule_core.rs:64-153`             `SerializableRuleCore::get_matcher_with_hint`
  * `crates/config/src/rule_core.rs:193-225`            `RuleCore::captured_vars`, `RuleCore::defined_vars`
  * `crates/config/src/rule_config.rs:118-182`          `get_matcher`, `register_rewriters`, `try_from`
  * `crates/config/src/check_var.rs:163-200`            `check_rewriters_in_transform`
  * `potential_kinds` of every rule form (`rule/mod.rs:306-331`, `ops.rs`, `nth_child.rs`,
    `referent_rule.rs:213-227`)

NOTE for the reconciliation with `Model/Topo.lean` (built in parallel for C13): the topological
sort below (`TopoState`, `visit`, `visitList`, `getOrder`) is self-contained on purpose.

The local registry (`RuleRegistration.local`) is ONE map shared by the rule and all its rewriters
(`DeserializeEnv::clone` clones an `Arc`): the model threads it through.
-/
import AstGrepVerif.Model.CheckVar

namespace AGV.Loader

open AGV

/-! ### topological sort -/

/-- the dependency map handed to the sorter: key ↦ ids it visits, in visiting order -/
abbrev Graph := List (Name × List Name)

structure TopoState where
  order : List Name := []
  /-- `seen`: `false` = being visited, `true` = completed -/
  seen : List (Name × Bool) := []
deriving Repr

inductive TopoErr where
  | cyclic (key : Name)
  | fuel                       -- model artefact; `getOrder` never returns it (`getOrder_ne_fuel`)
deriving DecidableEq, Repr

/-- `for d in deps { visit(d)? }` with the recursive call abstracted -/
def visitList (visit : Name → TopoState → Except TopoErr TopoState) :
    List Name → TopoState → Except TopoErr TopoState
  | [], st => .ok st
  | d :: ds, st =>
    match visit d st with
    | .error e => .error e
    | .ok st' => visitList visit ds st'

/-- `TopologicalSort::visit(key)` -/
def visit (g : Graph) : Nat → Name → TopoState → Except TopoErr TopoState
  | 0, _, _ => .error .fuel
  | fuel + 1, key, st =>
    match alookup key st.seen with
    | some true => .ok st
    | some false => .error (.cyclic key)
    | none =>
      match alookup key g with
      | none => .ok st                              -- "key can be found elsewhere"
      | some deps =>
        match visitList (visit g fuel) deps { st with seen := ainsert key false st.seen } with
        | .error e => .error e
        | .ok st' => .ok { order := st'.order ++ [key], seen := ainsert key true st'.seen }

/-- `TopologicalSort::get_order(maps)`; recursion depth is bounded by the number of keys -/
def getOrder (g : Graph) : Except TopoErr (List Name) :=
  match visitList (visit g (g.length + 1)) (g.map (·.1)) {} with
  | .error e => .error e
  | .ok st => .ok st.order

mutual
/-- the ids `visit_dependent_rule_ids` hands to the sorter: `matches`, then `all`, `any`, `not`,
then (FIX_C11_6) `nthChild.ofRule` — nothing below a relational rule -/
def depIds (fx : Fixes) : SRule → List Name
  | .mk ps => depIdsMatches ps ++ depIdsAll fx ps ++ depIdsAny fx ps ++ depIdsNot fx ps ++
      (if fx.ofRuleCycle then depIdsNth fx ps else [])
def depIdsMatches : List SPart → List Name
  | [] => []
  | .matches id :: ps => id :: depIdsMatches ps
  | _ :: ps => depIdsMatches ps
def depIdsAll (fx : Fixes) : List SPart → List Name
  | [] => []
  | .all rs :: ps => depIdsList fx rs ++ depIdsAll fx ps
  | _ :: ps => depIdsAll fx ps
def depIdsAny (fx : Fixes) : List SPart → List Name
  | [] => []
  | .any rs :: ps => depIdsList fx rs ++ depIdsAny fx ps
  | _ :: ps => depIdsAny fx ps
def depIdsNot (fx : Fixes) : List SPart → List Name
  | [] => []
  | .not r :: ps => depIds fx r ++ depIdsNot fx ps
  | _ :: ps => depIdsNot fx ps
def depIdsNth (fx : Fixes) : List SPart → List Name
  | [] => []
  | .nthChild _ (some r) _ :: ps => depIds fx r ++ depIdsNth fx ps
  | _ :: ps => depIdsNth fx ps
def depIdsList (fx : Fixes) : List SRule → List Name
  | [] => []
  | r :: rs => depIds fx r ++ depIdsList fx rs
end

mutual
/-- `Rule::check_cyclic(id)` -/
def checkCyclic (fx : Fixes) (id : Name) : SRule → Bool
  | .mk ps => checkCyclicParts fx id ps     -- one matcher, or the `Rule::All` of the parts
def checkCyclicParts (fx : Fixes) (id : Name) : List SPart → Bool
  | [] => false
  | p :: ps => checkCyclicPart fx id p || checkCyclicParts fx id ps
def checkCyclicPart (fx : Fixes) (id : Name) : SPart → Bool
  | .all rs => checkCyclicList fx id rs
  | .any rs => checkCyclicList fx id rs
  | .not r => checkCyclic fx id r
  | .matches m => m == id
  | .nthChild _ (some r) _ => fx.ofRuleCycle && checkCyclic fx id r
  | _ => false
def checkCyclicList (fx : Fixes) (id : Name) : List SRule → Bool
  | [] => false
  | r :: rs => checkCyclic fx id r || checkCyclicList fx id rs
end

/-! ### `deserialize_rule` (what can go wrong) -/

/-- `NthChildSimple::try_parse` -/
def parsePos (fx : Fixes) : NthPos → Res RSE Unit
  | .numeric n =>
    -- pinned: `*n as i32` wraps silently; fixed: `i32::try_from`
    if fx.anbChecked && decide ((n : Int) > i32Max) then .err .nthInvalidSyntax else .ok ()
  | .functional s =>
    match parseAnB s with
    | .ok _ => .ok ()
    | .error (.illegalCharacter _) => .err .nthIllegalCharacter
    | .error .invalidSyntax => .err .nthInvalidSyntax
    | .error .overflow => if fx.anbChecked then .err .nthInvalidSyntax else .panic .anbOverflow

def checkField : SField → Res RSE Unit
  | .unknown => .err .invalidField
  | _ => .ok ()

mutual
/-- `deserialize_rule(serialized, env)`: `ok` or the first error in the code's order -/
def deserRule (fx : Fixes) : SRule → Res RSE Unit
  | .mk ps =>
    match deserParts fx ps with
    | .err e => .err e
    | .panic s => .panic s
    | .ok () =>
      match ps with
      | [] => .err .missPositiveMatcher
      | [_] => .ok ()                                -- `rules.pop().expect("should not be empty")`
      | _ => .ok ()                                  -- `All::new(rules)`
def deserParts (fx : Fixes) : List SPart → Res RSE Unit
  | [] => .ok ()
  | p :: ps =>
    match deserPart fx p with
    | .err e => .err e
    | .panic s => .panic s
    | .ok () => deserParts fx ps
def deserPart (fx : Fixes) : SPart → Res RSE Unit
  | .pattern ok _ _ => if ok then .ok () else .err .invalidPattern
  | .kind ok _ => if ok then .ok () else .err .invalidKind
  | .regex ok => if ok then .ok () else .err .wrongRegex
  | .nthChild pos ofRule _ =>
    match parsePos fx pos with
    | .err e => .err e
    | .panic s => .panic s
    | .ok () =>
      match ofRule with
      | none => .ok ()
      | some r =>
        match deserRule fx r with
        | .err e => .err (.nthInvalidRule e)
        | .panic s => .panic s
        | .ok () => .ok ()
  | .range sl sc el ec =>
    if sl > el || (sl == el && sc > ec) then .err .invalidRange else .ok ()
  | .all rs => deserList fx rs
  | .any rs => deserList fx rs
  | .not r => deserRule fx r
  | .matches _ => .ok ()                             -- `ReferentRule::try_new` cannot fail
  | .inside r stop field =>
    match deserStop fx stop with
    | .err e => .err e
    | .panic s => .panic s
    | .ok () =>
      match checkField field with
      | .err e => .err e
      | .panic s => .panic s
      | .ok () => deserRule fx r
  | .has r stop field =>
    match deserStop fx stop with
    | .err e => .err e
    | .panic s => .panic s
    | .ok () =>
      match deserRule fx r with
      | .err e => .err e
      | .panic s => .panic s
      | .ok () => checkField field
  | .precedes r stop field =>
    match field with
    | .absent =>
      (match deserStop fx stop with
       | .err e => .err e
       | .panic s => .panic s
       | .ok () => deserRule fx r)
    | _ => .err .fieldNotSupported
  | .follows r stop field =>
    match field with
    | .absent =>
      (match deserStop fx stop with
       | .err e => .err e
       | .panic s => .panic s
       | .ok () => deserRule fx r)
    | _ => .err .fieldNotSupported
def deserList (fx : Fixes) : List SRule → Res RSE Unit
  | [] => .ok ()
  | r :: rs =>
    match deserRule fx r with
    | .err e => .err e
    | .panic s => .panic s
    | .ok () => deserList fx rs
def deserStop (fx : Fixes) : SStop → Res RSE Unit
  | .neighbor => .ok ()
  | .end_ => .ok ()
  | .rule r => deserRule fx r
end

/-! ### `potential_kinds` -/

def kindsInter (a b : List Nat) : List Nat := a.filter b.contains
def kindsUnion (a b : List Nat) : List Nat := a ++ b.filter (fun k => !a.contains k)

/-- `All::compute_kinds` -/
def allKinds (parts : List (Option (List Nat))) : Option (List Nat) :=
  parts.foldl (fun acc p =>
    match p with
    | none => acc
    | some n => match acc with
      | some s => some (kindsInter s n)
      | none => some n) none

/-- `Any::compute_kinds` -/
def anyKinds (parts : List (Option (List Nat))) : Option (List Nat) :=
  parts.foldl (fun acc p =>
    match acc, p with
    | some s, some n => some (kindsUnion s n)
    | _, _ => none) (some [])

/-- a registered local utility: its rule, and its potential kinds when it was registered -/
structure LocalUtil where
  id : Name
  rule : SRule
  kinds : Option (List Nat)

abbrev Registry := List LocalUtil

def Registry.find (reg : Registry) (id : Name) : Option LocalUtil := reg.find? (·.id == id)
def Registry.has (reg : Registry) (id : Name) : Bool := (reg.find id).isSome

def findGlobal (globals : List GlobalUtil) (id : Name) : Option GlobalUtil := globals.find? (·.id == id)

/-- `ReferentRule::potential_kinds`: local first, then global, `None` when unknown.
(The kinds of a local utility are the ones computed when it was registered: exact as long as
every `matches` below an `nthChild.ofRule` of a utility refers to an earlier utility — see H19.) -/
def refKinds (reg : Registry) (globals : List GlobalUtil) (id : Name) : Option (List Nat) :=
  match reg.find id with
  | some u => u.kinds
  | none =>
    match findGlobal globals id with
    | some g => g.kinds
    | none => none

mutual
/-- `potential_kinds()` of the rule a `SerializableRule` deserialises to -/
def potKinds (reg : Registry) (globals : List GlobalUtil) : SRule → Option (List Nat)
  | .mk ps => allKinds (potKindsParts reg globals ps)   -- one matcher `m`: `allKinds [m] = m`
def potKindsParts (reg : Registry) (globals : List GlobalUtil) : List SPart → List (Option (List Nat))
  | [] => []
  | p :: ps => potKindsPart reg globals p :: potKindsParts reg globals ps
def potKindsPart (reg : Registry) (globals : List GlobalUtil) : SPart → Option (List Nat)
  | .pattern _ _ kinds => kinds
  | .kind _ id => some [id]
  | .regex _ => none
  | .nthChild _ ofRule _ =>
    match ofRule with
    | some r => potKinds reg globals r
    | none => none
  | .range _ _ _ _ => none
  | .all rs => allKinds (potKindsList reg globals rs)
  | .any rs => anyKinds (potKindsList reg globals rs)
  | .not _ => none
  | .matches id => refKinds reg globals id
  | .inside _ _ _ => none
  | .has _ _ _ => none
  | .precedes _ _ _ => none
  | .follows _ _ _ => none
def potKindsList (reg : Registry) (globals : List GlobalUtil) : List SRule → List (Option (List Nat))
  | [] => []
  | r :: rs => potKinds reg globals r :: potKindsList reg globals rs
end

/-! ### `with_utils` -/

/-- the loop `for id in order { deserialize_rule; insert_local }` -/
def registerUtils (fx : Fixes) (globals : List GlobalUtil) (utils : List (Name × SRule)) :
    List Name → Registry → Res RSE Registry
  | [], reg => .ok reg
  | id :: ids, reg =>
    match alookup id utils with
    | none => .panic .orderMustExist                 -- `utils.get(id).expect("must exist")`
    | some rule =>
      match deserRule fx rule with
      | .err e => .err e
      | .panic s => .panic s
      | .ok () =>
        if reg.has id then .err .duplicateRule
        else if checkCyclic fx id rule then .err .cyclicRule
        else registerUtils fx globals utils ids (reg ++ [⟨id, rule, potKinds reg globals rule⟩])

/-- `DeserializeEnv::with_utils` -/
def withUtils (fx : Fixes) (globals : List GlobalUtil) (utils : List (Name × SRule)) (reg : Registry) :
    Res RSE Registry :=
  match getOrder (utils.map fun kv => (kv.1, depIds fx kv.2)) with
  | .error (.cyclic _) => .err .cyclicRule
  | .error .fuel => .panic .topoFuel                 -- unreachable (`getOrder_ne_fuel`)
  | .ok order => registerUtils fx globals utils order reg

/-! ### `Transform::deserialize` -/

/-- the dependency map of the transformations: key ↦ `[used_vars()]`; `none` = `used_vars` panics -/
def transformGraph (fx : Fixes) : List (Name × STrans) → Option Graph
  | [] => some []
  | (k, t) :: rest =>
    match usedVars fx t.source, transformGraph fx rest with
    | some v, some g => some ((k, [v]) :: g)
    | _, _ => none

/-- `Transformation::parse` -/
def parseTrans (fx : Fixes) (expando : Char) (t : STrans) : Except TE Unit :=
  match langExtract expando t.source with
  | none => .error .malformedVar
  | some _ =>
    match t with
    | .replace _ regexOk => if fx.regexAtLoad && !regexOk then .error .invalidRegex else .ok ()
    | _ => .ok ()

def parseTransList (fx : Fixes) (expando : Char) (tr : List (Name × STrans)) :
    List Name → Res TE Unit
  | [] => .ok ()
  | k :: ks =>
    match alookup k tr with
    | none => .panic .orderMustExist                 -- `map[key]`
    | some t =>
      match parseTrans fx expando t with
      | .error e => .err e
      | .ok () => parseTransList fx expando tr ks

/-- `Transform::deserialize(map, env)`.  In the pinned code `used_vars` runs inside the sort,
before `parse` has looked at the source: a malformed source panics there (H3).  The sort visits
keys lazily, so the panic is reached only if no cycle is reported first; the model decides the
panic up front, which agrees with the code whenever the sort does not fail — and a document
with a slicing panic *and* a cycle is reported as panic (the worse outcome; order-dependent in
the code). -/
def transformDeserialize (fx : Fixes) (expando : Char) (tr : List (Name × STrans)) : Res TE Unit :=
  match transformGraph fx tr with
  | none => .panic .usedVarsSlice
  | some g =>
    match getOrder g with
    | .error (.cyclic _) => .err .cyclic
    | .error .fuel => .panic .topoFuel               -- unreachable
    | .ok order => parseTransList fx expando tr order

/-! ### the fixer -/

def parseExpansion (fx : Fixes) : Option SExpansion → Res RSE Unit
  | none => .ok ()
  | some e =>
    match deserStop fx e.stop with
    | .err x => .err x
    | .panic s => .panic s
    | .ok () => deserRule fx e.rule

/-- `Fixer::parse`: the expansions of the object form (the template itself cannot fail) -/
def parseFixer (fx : Fixes) : SFix → Res RSE Unit
  | .str _ => .ok ()
  | .config _ es ee =>
    match parseExpansion fx es with
    | .err x => .err x
    | .panic s => .panic s
    | .ok () => parseExpansion fx ee

/-! ### `get_matcher_with_hint` -/

/-- what the rest of the pipeline needs to know about a loaded `RuleCore` -/
structure CoreInfo where
  /-- `RuleCore::defined_vars()` -/
  definedVars : List Name
  /-- `RuleCore::captured_vars()`: the variables a match binds to NODES — `defined_vars()` without
  the keys of `transform` (a transformed text is no node: a rewriter's fix does not see it) -/
  capturedVars : List Name
  /-- rewriter ids used by its `rewrite` transformations -/
  usedRewriters : List Name
  /-- the fix template as parsed (for C12) -/
  template : Option Template

def isKnown (reg : Registry) (globals : List GlobalUtil) (id : Name) : Bool :=
  reg.has id || (findGlobal globals id).isSome

def localUtilVars (reg : Registry) : List Name := definedVarsList (reg.map (·.rule))

/-- the loop of `get_constraints` -/
def deserConstraints (fx : Fixes) : List (Name × SRule) → Res RSE Unit
  | [] => .ok ()
  | (_, r) :: rest =>
    match deserRule fx r with
    | .err e => .err e
    | .panic s => .panic s
    | .ok () => deserConstraints fx rest

/-- the keys of the `transform` section -/
def transformKeys (core : SCore) : List Name :=
  match core.transform with
  | none => []
  | some tr => tr.map (·.1)

/-- the fix template as `Fixer::parse` builds it -/
def coreTemplate (fx : Fixes) (core : SCore) : Option Template :=
  core.fix.map fun f => fixerTemplate fx f (transformKeys core)

/-- `expandStart` / `expandEnd` of the object-form fix -/
def fixExpansions (core : SCore) : List SExpansion :=
  match core.fix with
  | some (.config _ es ee) => es.toList ++ ee.toList
  | _ => []

/-- what `check_rule_with_hint` is called with; `reg` = the local registry after `with_utils` -/
def checkInputOf (fx : Fixes) (globals : List GlobalUtil) (reg : Registry) (core : SCore) : CheckInput :=
  { rule := core.rule, localUtils := reg.map (·.rule),
    known := isKnown reg globals, constraints := core.constraints,
    transform := core.transform, fixVars := (coreTemplate fx core).map templateUsedVars,
    expansions := fixExpansions core }

def coreInfoOf (fx : Fixes) (reg : Registry) (core : SCore) : CoreInfo :=
  { definedVars := definedVars core.rule ++ localUtilVars reg ++
      definedVarsList (core.constraints.map (·.2)) ++ transformKeys core,
    capturedVars := definedVars core.rule ++ localUtilVars reg ++
      definedVarsList (core.constraints.map (·.2)),
    usedRewriters := match core.transform with
      | none => []
      | some tr => (tr.map (·.2)).flatMap STrans.usedRewriters,
    template := coreTemplate fx core }

/-- `get_deserialize_env` -/
def deserializeEnv (fx : Fixes) (globals : List GlobalUtil) (reg : Registry) (core : SCore) : Res RSE Registry :=
  match core.utils with
  | none => .ok reg
  | some utils => withUtils fx globals utils reg

/-- the `transform` part of `get_matcher_from_env` -/
def deserTransform (fx : Fixes) (expando : Char) (core : SCore) : Res TE Unit :=
  match core.transform with
  | none => .ok ()
  | some tr => transformDeserialize fx expando tr

/-- `get_fixer` -/
def deserFixer (fx : Fixes) (core : SCore) : Res RSE Unit :=
  match core.fix with
  | none => .ok ()
  | some f => parseFixer fx f

/-- `SerializableRuleCore::get_matcher_with_hint(env, hint)`; `reg` = the shared local registry
before the call, returned extended by this core's utilities -/
def getMatcher (fx : Fixes) (expando : Char) (globals : List GlobalUtil) (reg : Registry)
    (core : SCore) (hint : CheckHint) : Res CoreErr (Registry × CoreInfo) :=
  match deserializeEnv fx globals reg core with
  | .err e => .err (.utils e)
  | .panic s => .panic s
  | .ok reg =>
    -- get_matcher_from_env
    match deserRule fx core.rule with
    | .err e => .err (.rule e)
    | .panic s => .panic s
    | .ok () =>
      match deserConstraints fx core.constraints with
      | .err e => .err (.constraints e)
      | .panic s => .panic s
      | .ok () =>
        match deserTransform fx expando core with
        | .err e => .err (.transform e)
        | .panic s => .panic s
        | .ok () =>
          match deserFixer fx core with
          | .err e => .err (.fixer e)
          | .panic s => .panic s
          | .ok () =>
            match checkRuleWithHint fx (checkInputOf fx globals reg core) hint with
            | .err e => .err e
            | .panic s => .panic s
            | .ok () => .ok (reg, coreInfoOf fx reg core)

/-! ### rewriters and the rule config -/

structure Loaded where
  registry : Registry
  core : CoreInfo
  rewriters : List (Name × CoreInfo)
  kinds : List Nat

/-- the loop of `register_rewriters` -/
def registerRewriters (fx : Fixes) (expando : Char) (globals : List GlobalUtil) (upper : List Name) :
    List SRewriter → Registry → List (Name × CoreInfo) → Res LoadErr (Registry × List (Name × CoreInfo))
  | [], reg, done => .ok (reg, done)
  | rw :: rest, reg, done =>
    match rw.core.fix with
    | none => .err (.noFixInRewriter rw.id)
    | some _ =>
      match getMatcher fx expando globals reg rw.core (.rewriter upper) with
      | .err e => .err (.rewriter e rw.id)
      | .panic s => .panic s
      | .ok (reg', info) =>
        -- `insert_rewriter`: `GlobalRules::insert` = duplicate test, then `check_cyclic(id)`
        if (done.map (·.1)).contains rw.id then
          (if fx.rewriterErr then .err (.rewriter (.rule .duplicateRule) rw.id)
           else .panic .insertRewriterExpect)
        else if checkCyclic fx rw.id rw.core.rule then
          (if fx.rewriterErr then .err (.rewriter (.rule .cyclicRule) rw.id)
           else .panic .insertRewriterExpect)
        else registerRewriters fx expando globals upper rest reg' (done ++ [(rw.id, info)])

/-- `check_one_rewriter_in_rule` -/
def firstUndefinedRewriter (defined : List Name) (used : List Name) : Option Name :=
  used.find? fun r => !defined.contains r

/-- `check_rewriters_in_transform`: the rule, then every rewriter -/
def checkRewritersInTransform (core : CoreInfo) (rewriters : List (Name × CoreInfo)) : Option Name :=
  let ids := rewriters.map (·.1)
  match firstUndefinedRewriter ids core.usedRewriters with
  | some r => some r
  | none => (rewriters.findSome? fun rw => firstUndefinedRewriter ids rw.2.usedRewriters)

/-- the variables of the enclosing rule a rewriter's fix may use (`let vars = rule.captured_vars()`
in `register_rewriters`).  Pinned: `rule.defined_vars()`, which also holds the keys of the rule's
`transform` section — but a rewriter's fix looks variables up among the captured nodes only, so
such a `$T` was accepted and replaced by nothing. -/
def rewriterUpper (fx : Fixes) (info : CoreInfo) : List Name :=
  if fx.rewriterCaptured then info.capturedVars else info.definedVars

/-- `register_rewriters` + `check_rewriters_in_transform` -/
def loadRewriters (fx : Fixes) (doc : SDoc) (reg : Registry) (info : CoreInfo) :
    Res LoadErr (Registry × List (Name × CoreInfo)) :=
  match doc.rewriters with
  | none =>
    -- pinned: `let Some(ser) = &self.rewriters else { return Ok(()) }`
    if fx.rewriterCheckAlways then
      (match checkRewritersInTransform info [] with
       | some r => .err (.undefinedRewriter r)
       | none => .ok (reg, []))
    else .ok (reg, [])
  | some rws =>
    match registerRewriters fx doc.expando doc.globals (rewriterUpper fx info) rws reg [] with
    | .err e => .err e
    | .panic s => .panic s
    | .ok (reg', done) =>
      match checkRewritersInTransform info done with
      | some r => .err (.undefinedRewriter r)
      | none => .ok (reg', done)

/-- `RuleConfig::try_from(inner, globals)` -/
def loadWith (fx : Fixes) (doc : SDoc) : Res LoadErr Loaded :=
  match getMatcher fx doc.expando doc.globals [] doc.core .normal with
  | .err e => .err (.core e)
  | .panic s => .panic s
  | .ok (reg, info) =>
    match loadRewriters fx doc reg info with
    | .err e => .err e
    | .panic s => .panic s
    | .ok (reg', done) =>
      match potKinds reg' doc.globals doc.core.rule with
      | none => .err .missingPotentialKinds
      | some ks => .ok { registry := reg', core := info, rewriters := done, kinds := ks }

/-- the loader under verification (all repairs applied) -/
def load (doc : SDoc) : Res LoadErr Loaded := loadWith Fixes.all doc

/-- the loader of the pinned commit -/
def loadPreFix (doc : SDoc) : Res LoadErr Loaded := loadWith Fixes.none doc

end AGV.Loader
