/-
Model of how an edit's range is derived from a match.

Mirrors (ast-grep 0.37.0)
* `crates/core/src/matcher/node_match.rs:40-65` `replace_by`, `make_edit`,
* `crates/core/src/replacer.rs:22-29` default `Replacer::get_replaced_range`,
* `crates/config/src/fixer.rs:139-184` `Fixer::get_replaced_range`, `expand_start`, `expand_end`,
* `crates/config/src/rule/stop_by.rs:123-160` `StopBy::find`, `inclusive_until`.

The tree is abstract: the matched node is its byte range, the siblings seen by an expansion
are the list `node.prev_all()` / `node.next_all()` (nearest first), each with its range, the
verdict of the expansion's rule on it and the verdict of the `stopBy` rule on it.
(The finder returns the sibling itself when the rule matches: every `Rule` variant returns the
candidate node.)
-/
import AstGrepVerif.Model.Rewrite

namespace AGV

structure Rng where
  start : Nat
  stop : Nat
deriving DecidableEq, Repr

/-- default `get_replaced_range`: `matchLen = matcher.get_match_len(node)` -/
def defaultReplacedRange (node : Rng) (matchLen : Option Nat) : Rng :=
  match matchLen with
  | some len => ⟨node.start, node.start + len⟩
  | none => node

structure Sib where
  range : Rng
  matched : Bool     -- the expansion's rule matches this sibling
  stops : Bool       -- the `stopBy` rule matches this sibling
deriving DecidableEq, Repr

/-- the `stopBy` of an expansion (`StopBy::{Neighbor, End, Rule}`; the rule's verdicts are in `Sib.stops`) -/
inductive ExpandStop where
  | neighbor | end_ | rule
deriving DecidableEq, Repr

/-- `iter.take_while(inclusive_until(stop))` -/
def inclusiveUntil : List Sib → List Sib
  | [] => []
  | s :: ss => if s.stops then [s] else s :: inclusiveUntil ss

/-- `StopBy::find(once, multi, finder)` over the sibling list -/
def expansionFind (sb : ExpandStop) (sibs : List Sib) : Option Sib :=
  match sb with
  | .neighbor =>
    match sibs with
    | [] => none
    | s :: _ => if s.matched then some s else none
  | .end_ => sibs.find? (·.matched)
  | .rule => (inclusiveUntil sibs).find? (·.matched)

/-- `expand_start(expansion, nm)`; `prevs = node.prev_all()` -/
def expandStart (exp : Option ExpandStop) (node : Rng) (prevs : List Sib) : Nat :=
  match exp with
  | none => node.start
  | some sb =>
    match expansionFind sb prevs with
    | some s => s.range.start
    | none => node.start

/-- `expand_end(expansion, nm)`; `nexts = node.next_all()` -/
def expandEnd (exp : Option ExpandStop) (node : Rng) (nexts : List Sib) : Nat :=
  match exp with
  | none => node.stop
  | some sb =>
    match expansionFind sb nexts with
    | some s => s.range.stop
    | none => node.stop

/-- `Fixer::get_replaced_range` -/
def fixerReplacedRange (es ee : Option ExpandStop) (node : Rng) (matchLen : Option Nat)
    (prevs nexts : List Sib) : Rng :=
  if es.isNone && ee.isNone then defaultReplacedRange node matchLen
  else ⟨expandStart es node prevs, expandEnd ee node nexts⟩

/-- `make_edit`: `Edit { position: range.start, deleted_length: range.len(), inserted_text }`
(`Range::len()` is 0 for an inverted range) -/
def editOfRange (r : Rng) (inserted : Bytes) : REdit :=
  { position := r.start, deleted := r.stop - r.start, inserted := inserted }

/-- `replace_by`: always the node's own range -/
def replaceBy (node : Rng) (inserted : Bytes) : REdit := editOfRange node inserted

/-- `Diff::generate`: `range = edit.position .. edit.position + edit.deleted_length` -/
def diffOfEdit (e : REdit) : Diff := { start := e.position, stop := e.position + e.deleted, rep := e.inserted }

end AGV
