/-
Syntax trees as the matcher sees them.

A `Tree` is what the harness dumps from a tree-sitter tree through ast-grep's `Node` API
(`crates/core/src/node.rs:185-249`): the parser is a *parameter* of the model, never modelled.
Node identity (`node_id`) is the `id` field: the harness numbers the nodes of one document in
pre-order, so `id` equality is node equality inside one document.
-/
import AstGrepVerif.Model.Indent

namespace AGV

/-- `TS_BUILTIN_SYM_ERROR` -/
def ERROR_KIND : Nat := 65535

structure Info where
  kind : Nat            -- `kind_id()`
  named : Bool          -- `is_named()`
  comment : Bool        -- `kind().contains("comment")`
  missing : Bool        -- `get_ts_node().is_missing()`
  start : Nat           -- `range().start`
  stop : Nat            -- `range().end`
  field : Option Nat    -- field id under which this node hangs in its parent (cursor `field_id()`)
  id : Nat              -- `node_id()`: pre-order number inside the document
deriving DecidableEq, Repr, Inhabited

inductive Tree where
  | node (info : Info) (children : List Tree)
deriving Repr, Inhabited

namespace Tree

def info : Tree → Info | .node i _ => i
def children : Tree → List Tree | .node _ cs => cs
def kind (t : Tree) : Nat := t.info.kind
def named (t : Tree) : Bool := t.info.named
def start (t : Tree) : Nat := t.info.start
def stop (t : Tree) : Nat := t.info.stop
def id (t : Tree) : Nat := t.info.id

/-- `is_leaf()`: `child_count() == 0` -/
def isLeaf (t : Tree) : Bool := t.children.isEmpty

/-- `is_named_leaf()`: `named_child_count() == 0` -/
def isNamedLeaf (t : Tree) : Bool := !(t.children.any fun c => c.named)

/-- `text()`: the source slice of the node's byte range -/
def text (src : Bytes) (t : Tree) : Bytes := (src.drop t.start).take (t.stop - t.start)

mutual
def size : Tree → Nat
  | .node _ cs => 1 + sizeList cs
def sizeList : List Tree → Nat
  | [] => 0
  | t :: ts => t.size + sizeList ts
end

mutual
/-- pre-order list of all nodes of the subtree -/
def preorder : Tree → List Tree
  | .node i cs => .node i cs :: preorderList cs
def preorderList : List Tree → List Tree
  | [] => []
  | t :: ts => t.preorder ++ preorderList ts
end

end Tree

mutual
/-- `does_node_match_exactly(goal, candidate)` (`crates/core/src/match_tree/mod.rs:126-147`);
both nodes belong to the document `src`. -/
def exactMatch (src : Bytes) : Tree → Tree → Bool
  | .node gi gcs, .node ci ccs =>
    if gi.id == ci.id then true
    else if Tree.isNamedLeaf (.node gi gcs) || Tree.isNamedLeaf (.node ci ccs) then
      Tree.text src (.node gi gcs) == Tree.text src (.node ci ccs)
    else if gi.kind != ci.kind then false
    else exactMatchList src gcs ccs
/-- the length test and `zip(..).all(..)` -/
def exactMatchList (src : Bytes) : List Tree → List Tree → Bool
  | [], [] => true
  | g :: gs, c :: cs => exactMatch src g c && exactMatchList src gs cs
  | _, _ => false
end

end AGV
