/-
Model of embedded-language extraction ("injections").

Transcribes, branch by branch:
* `Html::extract_injections`, `find_lang`, `node_to_range`       crates/language/src/html.rs:24-75
* `extract_injections` (merge + sort), `extract_custom_inject`    crates/cli/src/lang/injection.rs:126-168
* `register_injetable` (default language of a rule), `injectable_languages`
                                                                  crates/cli/src/lang/injection.rs:86-124
* `Root::get_injections`                                          crates/core/src/node.rs:125-144
* `ts_parser_set_included_ranges` (the acceptance test only)      tree-sitter lib/src/lexer.c
* `filter_file_rule` (sg scan, repaired loop + pinned one), `filter_file_pattern` (sg run)
                                                                  crates/cli/src/utils/mod.rs:120-186

Parameters, never modelled: the host parse (a dumped `Tree`), the matcher of a `languageInjections`
rule (`InjRule.find`: the matches of `root.find_all(rule)` in order, each with the node bound to
`$CONTENT` and the text bound to `$LANG`), the injected parse (`parseRanges`), the name -> language
table (`known` = `SgLang::from_str`), the per-document search.

Hash maps are association lists; the list order is the order of first insertion, the iteration
order of the real `HashMap` is a parameter of the consumers (any permutation).
-/
import AstGrepVerif.Model.Tree

namespace AGV
namespace Injection

/-- a language name as written in the page / the configuration -/
abbrev Name := Bytes

/-- `TSRange`: `start_byte`, `end_byte`; the two points are functions of the offsets
(`start_pos()` / `end_pos()`, C16/C19) and play no role in the acceptance test -/
structure Range where
  start : Nat
  stop : Nat
deriving DecidableEq, Repr, Inhabited

/-- `node_to_range(node)` (both copies: html.rs:68, injection.rs:170) -/
def nodeRange (t : Tree) : Range := { start := t.start, stop := t.stop }

/-- kind ids the HTML grammar gives to the six kind names the code mentions
(`KindMatcher::new(name, lang)`, `c.kind() == "raw_text"`) -/
structure HtmlKinds where
  script : Nat
  style : Nat
  rawText : Nat
  attr : Nat
  attrName : Nat
  attrValue : Nat
deriving Repr, DecidableEq

def litLang : Bytes := [108, 97, 110, 103]      -- "lang"
def litJs : Name := [106, 115]                  -- "js"
def litCss : Name := [99, 115, 115]             -- "css"

/-- `node.find_all(KindMatcher(k))`: reentrant pre-order visit, the node itself included
(C19 `pre_reentrant_filter`) -/
def findAllKind (k : Nat) (t : Tree) : List Tree := t.preorder.filter fun n => n.kind == k

/-- `node.find(&KindMatcher(k))`: the first of them -/
def findKind (k : Nat) (t : Tree) : Option Tree := t.preorder.find? fun n => n.kind == k

/-- the closure of `find_lang`: `None` = this attribute does not decide, try the next one -/
def attrLang (K : HtmlKinds) (src : Bytes) (attr : Tree) : Option Name :=
  match findKind K.attrName attr with
  | none => none
  | some name =>
    if Tree.text src name != litLang then none
    else match findKind K.attrValue attr with
      | none => none
      | some v => some (Tree.text src v)

/-- `find_lang(node)`: `node.find_all(attribute).find_map(..)`. Quotes never reach the result:
the grammar puts them outside the `attribute_value` node (`quoted_attribute_value`); an empty
quoted value has no `attribute_value` child and the search goes on with the next attribute. -/
def findLang (K : HtmlKinds) (src : Bytes) (node : Tree) : Option Name :=
  (findAllKind K.attr node).findSome? (attrLang K src)

/-- `script.children().find(|c| c.kind() == "raw_text")` -/
def content (K : HtmlKinds) (node : Tree) : Option Tree :=
  node.children.find? fun c => c.kind == K.rawText

/-- `HashMap<String, Vec<TSRange>>`, keys in order of first insertion -/
abbrev RMap := List (Name × List Range)

/-- `map.entry(k).or_insert_with(Vec::new).push(r)` -/
def push : RMap → Name → Range → RMap
  | [], k, r => [(k, [r])]
  | (k', rs) :: rest, k, r =>
    if k' = k then (k', rs ++ [r]) :: rest else (k', rs) :: push rest k r

/-- `map.get(k)` -/
def get (m : RMap) (k : Name) : Option (List Range) := (m.find? fun e => e.1 = k).map (·.2)

/-- every (key, range) pair of the map, keys in list order, ranges in vector order -/
def pairs (m : RMap) : List (Name × Range) := m.flatMap fun e => e.2.map fun r => (e.1, r)

/-- one round of the two loops of `Html::extract_injections` -/
def htmlStep (K : HtmlKinds) (src : Bytes) (dflt : Name) (m : RMap) (el : Tree) : RMap :=
  let injected := (findLang K src el).getD dflt
  match content K el with
  | some c => push m injected (nodeRange c)
  | none => m

/-- `Html::extract_injections(root)`: all `script_element`s (default `js`), then all
`style_element`s (default `css`), each group in document order. NOT sorted. -/
def htmlExtract (K : HtmlKinds) (src : Bytes) (root : Tree) : RMap :=
  let m := (findAllKind K.script root).foldl (htmlStep K src litJs) []
  (findAllKind K.style root).foldl (htmlStep K src litCss) m

/-- `injected:` of a `languageInjections` entry (`serde(untagged)`: string or list) -/
inductive Injected where
  | static (name : Name)
  | dynamic (names : List Name)
deriving Repr

/-- `default_lang` of `register_injetable` -/
def Injected.default : Injected → Option Name
  | .static s => some s
  | .dynamic _ => none

/-- the names a rule adds to `Injection.injectable` -/
def Injected.names : Injected → List Name
  | .static s => [s]
  | .dynamic v => v

/-- what `extract_custom_inject` reads from one match of an injection rule -/
structure RuleMatch where
  content : Option Tree     -- `env.get_match("CONTENT")`
  lang : Option Name        -- `env.get_match("LANG").map(|n| n.text().to_string())`
deriving Repr

/-- one registered `languageInjections` entry of the host language; `find root` stands for
`root.find_all(rule)` (document order of the matches) -/
structure InjRule where
  find : Tree → List RuleMatch
  injected : Injected

/-- the body of the inner loop of `extract_custom_inject` -/
def customStep (dflt : Option Name) (m : RMap) (x : RuleMatch) : RMap :=
  match x.content with
  | none => m
  | some region =>
    match x.lang.or dflt with
    | none => m
    | some lang => push m lang (nodeRange region)

/-- `extract_custom_inject(injections, root, &mut ret)` for the rules of the host language, in
registration order (`Injection.rules` is a `Vec`: configuration order) -/
def customExtract (rules : List InjRule) (root : Tree) (m : RMap) : RMap :=
  rules.foldl (fun m rule => (rule.find root).foldl (customStep rule.injected.default) m) m

/-- `ranges.sort_by_key(|r| r.start_byte())`: stable. `insertR` puts `x` behind every element
whose key is not larger. -/
def insertR (x : Range) : List Range → List Range
  | [] => [x]
  | y :: ys => if x.start < y.start then x :: y :: ys else y :: insertR x ys

def sortR (l : List Range) : List Range := l.foldl (fun acc x => insertR x acc) []

/-- the CLI's `extract_injections(root)` (fix d4ca3e4: every vector sorted by start byte).
`builtin` = what the host language itself extracts (`htmlExtract` for HTML, `[]` otherwise). -/
def extractInjections (builtin : RMap) (rules : List InjRule) (root : Tree) : RMap :=
  (customExtract rules root builtin).map fun e => (e.1, sortR e.2)

/-- the released code (before d4ca3e4): no sort -/
def extractInjectionsUnsorted (builtin : RMap) (rules : List InjRule) (root : Tree) : RMap :=
  customExtract rules root builtin

/-- the loop of `ts_lexer_set_included_ranges`: every range starts at or after the end of the
previous one and does not end before it starts -/
def acceptedFrom (prev : Nat) : List Range → Bool
  | [] => true
  | r :: rs => decide (prev ≤ r.start) && decide (r.start ≤ r.stop) && acceptedFrom r.stop rs

/-- `parser.set_included_ranges(&ranges).is_ok()` (an empty slice would mean "whole file";
the map never holds an empty vector) -/
def rangesAccepted (rs : List Range) : Bool := acceptedFrom 0 rs

/-- one document produced by `get_injections` -/
structure InjDoc (L : Type) where
  name : Name              -- the key of the region map it was made from
  lang : L                 -- `get_lang(name)`
  ranges : List Range      -- the parser's included ranges
  tree : Tree              -- `parseRanges lang src ranges`

/-- the `filter_map` closure of `Root::get_injections` -/
def injectOne {L : Type} (known : Name → Option L) (parseRanges : L → Bytes → List Range → Tree)
    (src : Bytes) (e : Name × List Range) : Option (InjDoc L) :=
  match known e.1 with
  | none => none                                   -- `get_lang(&lang)?`
  | some l =>
    if rangesAccepted e.2 then                     -- `set_included_ranges(&ranges).ok()?`
      some { name := e.1, lang := l, ranges := e.2, tree := parseRanges l src e.2 }
    else none

/-- `Root::get_injections(get_lang)`; `m` is the region map in the iteration order of the
`HashMap` (any permutation of `extractInjections ..`) -/
def getInjections {L : Type} (known : Name → Option L)
    (parseRanges : L → Bytes → List Range → Tree) (src : Bytes) (m : RMap) : List (InjDoc L) :=
  m.filterMap (injectOne known parseRanges src)

/-- `injectable_languages(host)`: the registered names of the host (built-in names merged in by
`merge_default_injecatable`) if `languageInjections` mentions the host, the built-in list
otherwise. `registered` is in the iteration order of the `HashSet`. -/
def injectableLanguages (registered : Option (List Name)) (builtin : Option (List Name)) :
    Option (List Name) :=
  match registered with
  | some ns => some ns
  | none => builtin

/-- the loop of `filter_file_rule` (fix: "scan a language once"): `seen` is the vector of the
languages handled so far; a language met again is skipped (`continue`), otherwise it is pushed and
all injected documents of that language are appended (fix 433f30f), in the order of `docs` -/
def scanLoop {L : Type} [DecidableEq L] (docs : List (InjDoc L)) : List L → List L → List (InjDoc L)
  | [], _ => []
  | l :: ls, seen =>
    if l ∈ seen then scanLoop docs ls seen
    else (docs.filter fun d => d.lang = l) ++ scanLoop docs ls (seen ++ [l])

/-- the documents `filter_file_rule` hands to `sg scan` for one file after the host document: for
every injectable language (`injectable_sg_langs`: the names that `from_str` accepts, in list
order; several names can mean one language, the first occurrence counts) all injected documents
of that language -/
def scanDocs {L : Type} [DecidableEq L] (known : Name → Option L) (injectable : Option (List Name))
    (docs : List (InjDoc L)) : List (InjDoc L) :=
  match injectable with
  | none => []
  | some names => scanLoop docs (names.filterMap known) []

/-- pinned: the loop before the repair (released behaviour and HEAD de3941d): no `seen`, a
language that is injectable under two names has its documents appended twice -/
def scanDocsPinned {L : Type} [DecidableEq L] (known : Name → Option L)
    (injectable : Option (List Name)) (docs : List (InjDoc L)) : List (InjDoc L) :=
  match injectable with
  | none => []
  | some names => (names.filterMap known).flatMap fun l => docs.filter fun d => d.lang = l

/-- the documents `filter_file_pattern` hands to `sg run`: every injected document whose language
has a sub matcher, in the order of `docs` (the host document goes first when it has a matcher) -/
def runDocs {L : Type} [DecidableEq L] (subLangs : List L) (docs : List (InjDoc L)) :
    List (InjDoc L) :=
  docs.filter fun d => subLangs.contains d.lang

/-- findings of one file as `ScanWithConfig::produce_item` emits them: the host document's, then
those of every injected document, document by document -/
def fileFindings {L F : Type} (searchHost : List F) (search : InjDoc L → List F)
    (docs : List (InjDoc L)) : List F :=
  searchHost ++ docs.flatMap search

end Injection
end AGV
