/-
Model of the multiple-producer / single-consumer file worker of the CLI.

Mirrors
  * `run_worker`            crates/cli/src/utils/worker.rs:109-146
  * `Items` (mpsc receiver) crates/cli/src/utils/worker.rs:68-88
  * `read_file`, `file_too_large`  crates/cli/src/utils/mod.rs:96-107,180-187
  * `consume_items` of `RunWithInferredLang` / `RunWithSpecificLang` (run.rs:188-199,
    274-291) and of `ScanWithConfig` (scan.rs:147-162), the `error_count` atomic
    (scan.rs:194-224)
  * `FileTrace::add_scanned/add_skipped` (utils/inspect.rs:91-98)

What is *not* modelled but assumed (trusted base): the `ignore` walker hands every eligible
file to exactly one of its threads (the *partition*), `std::sync::mpsc` is FIFO per sender
and neither loses nor duplicates messages, atomics are linearizable, and the consumer's
writes to stdout do not fail (otherwise `process` returns early and `WalkState::Quit` stops
the producers; not modelled).  A *panic* in a producer is not a skip (see C11).
-/
import AstGrepVerif.Model.JsonFrameMin

namespace AGV.Worker

open AGV.JsonFrameMin

/-! ## Skipping a file: `read_file` -/

/-- why `produce_item` returned `Err` (→ `stats.add_skipped()`, walk continues) -/
inductive Skip
  | cannotRead      -- `read_to_string` failed: permission denied, invalid UTF-8, …
  | tooLarge        -- "File is too large"
  | empty           -- "File is empty"
  deriving DecidableEq, Repr

def MAX_FILE_SIZE : Nat := 3000000
def MAX_LINE_COUNT : Nat := 200000

/-- what `std::fs::read_to_string(path)` sees; for text only the two numbers the code looks
at: `file_content.len()` (bytes) and `file_content.lines().count()` -/
inductive Content
  | unreadable                       -- open/read error (EACCES, …)
  | invalidUtf8                      -- `read_to_string` → `InvalidData`
  | text (len : Nat) (lines : Nat)
  deriving DecidableEq, Repr

/-- `file_too_large`: size **and** line count (the `&&` is intentional in the code) -/
def fileTooLarge (len lines : Nat) : Bool :=
  decide (len > MAX_FILE_SIZE) && decide (lines > MAX_LINE_COUNT)

/-- `read_file` (the content itself is not part of the model) -/
def readFile : Content → Except Skip Unit
  | .unreadable => .error .cannotRead
  | .invalidUtf8 => .error .cannotRead
  | .text len lines =>
    if fileTooLarge len lines then .error .tooLarge
    else if len = 0 then .error .empty
    else .ok ()

/-! ## Items -/

/-- One `P::Processed` sent through the channel: for the JSON printer a byte buffer that is
the `print_docs` of the item's records.  `errors` = number of matches of this item that
belong to a `severity: error` rule (what `produce_item` adds to its local `error_count`;
always 0 for `run`). -/
structure Item where
  docs : List Record
  errors : Nat
  deriving Repr, DecidableEq

def Item.buffer (s : Style) (it : Item) : Buffer := printDocs s it.docs

/-- `produce_item` for one path: a pure function of the file (and of the fixed rules /
pattern / printer style). -/
abbrev Produce (F : Type) := F → Except Skip (List Item)

/-- the buffers a walker thread sends for one file (nothing when the file is skipped) -/
def fileItems {F : Type} (produce : Produce F) (f : F) : List Item :=
  match produce f with
  | .ok items => items
  | .error _ => []

/-- what the file adds to the shared `error_count` (`fetch_add` happens only on `Ok`) -/
def fileErrors {F : Type} (produce : Produce F) (f : F) : Nat :=
  ((fileItems produce f).map (·.errors)).sum

def isSkipped {F : Type} (produce : Produce F) (f : F) : Bool :=
  match produce f with
  | .ok _ => false
  | .error _ => true

/-- the records the file contributes -/
def fileRecords {F : Type} (produce : Produce F) (f : F) : List Record :=
  (fileItems produce f).flatMap (·.docs)

/-! ## Schedules -/

/-- `Interleave ls out`: `out` is obtained by repeatedly taking the head of one of the lists
`ls` (per-list order is preserved: FIFO per sender; any merge order between lists). -/
inductive Interleave {α : Type} : List (List α) → List α → Prop
  | done (ls : List (List α)) : (∀ l ∈ ls, l = []) → Interleave ls []
  | step (pre : List (List α)) (x : α) (l : List α) (post : List (List α)) (out : List α) :
      Interleave (pre ++ l :: post) out → Interleave (pre ++ (x :: l) :: post) (x :: out)

/-- executable check (sound: `isInterleave_sound`; used for concrete schedules): is `out` an
interleaving of `ls`?  Search with backtracking over which list supplies the next element
(fuel = `out.length`). -/
def isInterleaveAux {α : Type} [DecidableEq α] : Nat → List (List α) → List α → Bool
  | _, ls, [] => ls.all (·.isEmpty)
  | 0, _, _ :: _ => false
  | fuel + 1, ls, x :: out =>
    (List.range ls.length).any fun i =>
      match ls[i]? with
      | some (y :: l) => decide (y = x) && isInterleaveAux fuel (ls.set i l) out
      | _ => false

def isInterleave {α : Type} [DecidableEq α] (ls : List (List α)) (out : List α) : Bool :=
  isInterleaveAux out.length ls out

/-- what a walker thread sends for the files it visits, in order: for each file *some
ordering* of that file's items.  (`produce_item` of `scan` iterates `CombinedScan`'s result,
which comes out of a `HashMap`: the order of the per-rule items of one file differs from
process to process.  The records inside one item are in document order.) -/
inductive SendsOf {F : Type} (produce : Produce F) : List F → List Item → Prop
  | nil : SendsOf produce [] []
  | cons (f : F) (fs : List F) (its rest : List Item) :
      its.Perm (fileItems produce f) → SendsOf produce fs rest →
      SendsOf produce (f :: fs) (its ++ rest)

/-- thread by thread -/
inductive AllSends {F : Type} (produce : Produce F) : List (List F) → List (List Item) → Prop
  | nil : AllSends produce [] []
  | cons {p : List F} {s : List Item} {ps : List (List F)} {ss : List (List Item)} :
      SendsOf produce p s → AllSends produce ps ss → AllSends produce (p :: ps) (s :: ss)

/-- One execution of `run_worker`.
* `parts`: which files each walker thread visited, in its visiting order (`k = parts.length`
  threads);
* `sends`: what each thread sent, in order;
* `arrival`: the order in which the consumer's `rx.recv()` returned the items;
* `errAdds`: the order in which the `fetch_add`s on `error_count` were linearised. -/
structure Run (F : Type) where
  parts : List (List F)
  sends : List (List Item)
  arrival : List Item
  errAdds : List Nat

/-- the items of the files of one thread in the canonical order -/
def threadSends {F : Type} (produce : Produce F) (p : List F) : List Item :=
  p.flatMap (fileItems produce)

/-- the schedule is consistent with the walker contract (every file of `files` visited by
exactly one thread, once), with `produce_item` (each thread sends, file after file, the
file's items) and with the channel contract (FIFO per sender). -/
structure Run.Valid {F : Type} (produce : Produce F) (files : List F) (r : Run F) : Prop where
  partition : r.parts.flatten.Perm files
  produced : AllSends produce r.parts r.sends
  channel : Interleave r.sends r.arrival
  atomics : Interleave (r.parts.map (·.map (fileErrors produce))) r.errAdds

/-- which command: decides how the exit status is computed -/
inductive Cmd
  | run       -- `sg run`: `consume_items` returns `Ok` (exit 0)
  | scan      -- `sg scan`: `error_count > 0` ⇒ `DiagnosticError` ⇒ exit 1
  deriving DecidableEq, Repr

structure Result where
  stdout : Bytes
  errorCount : Nat
  scanned : Nat          -- `scannedFileCount`
  skipped : Nat          -- `skippedFileCount`
  exit : Nat
  deriving Repr, DecidableEq

def exitStatus (cmd : Cmd) (errorCount : Nat) : Nat :=
  match cmd with
  | .run => 0
  | .scan => if errorCount > 0 then 1 else 0

/-- the observable result of one execution -/
def Run.result {F : Type} (produce : Produce F) (cmd : Cmd) (s : Style) (r : Run F) : Result :=
  let errorCount := r.errAdds.foldl (· + ·) 0
  { stdout := (consume s (r.arrival.map (Item.buffer s))).out
    errorCount := errorCount
    scanned := (r.parts.map (·.length)).sum
    skipped := (r.parts.map (fun p => (p.filter (isSkipped produce)).length)).sum
    exit := exitStatus cmd errorCount }

/-- scanning one file alone: one thread, one file -/
def Run.alone {F : Type} (produce : Produce F) (f : F) : Run F :=
  { parts := [[f]], sends := [fileItems produce f], arrival := fileItems produce f,
    errAdds := [fileErrors produce f] }

/-- the sequential schedule (`-j 1`): one thread visits `files` in order -/
def Run.sequential {F : Type} (produce : Produce F) (files : List F) : Run F :=
  { parts := [files], sends := [threadSends produce files], arrival := threadSends produce files,
    errAdds := files.map (fileErrors produce) }

/-- replace the outcome of one file by a skip -/
def Produce.withSkip {F : Type} [DecidableEq F] (produce : Produce F) (f₀ : F) (why : Skip) :
    Produce F :=
  fun f => if f = f₀ then .error why else produce f

end AGV.Worker
