/-
Model additions for C07 (fix templates): the slice operations of `indent.rs` /
`template.rs` with their panics visible, and the composition
`create_template` ∘ `TemplateFix::generate_replacement` the end-to-end correspondence runs.

Mirrors (pinned commit), for `Content = String`:
  * `crates/core/src/source.rs:162-164`            `get_range` = `&bytes[range]` (panics out of range)
  * `crates/core/src/replacer/indent.rs:139-168`   `extract_with_deindent`, `formatted_slice`
  * `crates/core/src/meta_var.rs:49-61`            `insert_transformation` (de-indents the
                                                  transformed string with `formatted_slice`)
  * `crates/core/src/meta_var.rs:178-212`          `get_var_bytes_impl`
  * `crates/core/src/replacer/template.rs:22-48`   `TemplateFix::{try_new, with_transform}`,
                                                  `generate_replacement`
The definitions of `Model/Indent.lean` and `Model/Template.lean` are used unchanged.
-/
import AstGrepVerif.Model.Template

namespace AGV

/-- `&bytes[start..stop]`: `none` = the slice-index panic (`start > stop` or `stop > len`). -/
def sliceRange? (c : Bytes) (start stop : Nat) : Option Bytes :=
  if start ≤ stop ∧ stop ≤ c.length then some ((c.drop start).take (stop - start)) else none

/-- `extract_with_deindent(content, start..stop)` with the panic of `get_range` visible.
(The second `get_range(0..start)` cannot panic once the first one succeeded.) -/
def extractWithDeindent? (content : Bytes) (start stop : Nat) : Option Deindented :=
  match sliceRange? content start stop with
  | none => none
  | some _ => some (extractWithDeindent content start stop)

/-- `formatted_slice(slice, content, start)`; `content.get_range(0..start)` is evaluated only
for a multi-line slice and panics when `start > content.len()`. -/
def formattedSlice? (slice content : Bytes) (start : Nat) : Option Bytes :=
  if slice.contains NL && decide (start > content.length) then none
  else some (formattedSlice slice content start)

/-- `MetaVarEnv::insert_transformation(var, name, slice)`: the stored string. `anchor` is the
start of the node bound to the transformation's source variable (`None` when the source is
not a captured node: the string is stored as is). -/
def insertTransformationValue (source : Bytes) (anchor : Option Nat) (slice : Bytes) : Bytes :=
  match anchor with
  | some start => formattedSlice slice source start
  | none => slice

/-- `TemplateFix::with_transform(tpl, lang, keys).generate_replacement(nm)` for a language
whose `meta_var_char` is `$` (all built-in ones; generated table `expandoTable`, C20). -/
def templateFix (source : Bytes) (matchStart : Nat) (env : TEnv) (tmpl : Bytes)
    (transformKeys : List Bytes) : Bytes :=
  generateReplacement source matchStart env (createTemplate tmpl 0x24 transformKeys)

/-- the `MetaVariable` argument of `get_var_bytes` -/
inductive VarRef where
  | capture (name : Bytes)
  | multiCapture (name : Bytes)
  | other            -- `Dropped` / `Multiple`
deriving DecidableEq, Repr

/-- `get_var_bytes_impl(env, var)`: a captured node's text, else the transformed string of that
name; a `$$$` capture is the text from its first to its last node (`None` when empty). -/
def getVarBytes (source : Bytes) (env : TEnv) : VarRef → Option Bytes
  | .capture n =>
    match lookupB n env.single with
    | some (s, e) => some ((source.drop s).take (e - s))
    | none => lookupB n env.transformed
  | .multiCapture n =>
    match lookupB n env.multi with
    | some (s, e) => some ((source.drop s).take (e - s))
    | none => none
  | .other => none

end AGV
