/-
Patterns: the structural `cut` of a piece of code with holes (what C02 quantifies over), and
the facts about a `Pattern` the matcher and the kind index use.

Mirrors `crates/core/src/matcher/pattern.rs:86-113` (`convert_node_to_pattern`, seen from the
side of the *original* code: a hole is a node whose byte range was replaced by a `$` spelling),
`:50-67` (`fixed_string`), `:278-294` (`potential_kinds`), `:147-157` (`has_error`).
-/
import AstGrepVerif.Model.Match

namespace AGV

/-- A hole: the byte range of the replaced code and the variable name. `run = none` is a
single `$NAME`; `run = some (parentId, a, b)` is `$$$NAME` standing for the children
`a ..= b` of the node with id `parentId`. -/
structure Hole where
  start : Nat
  stop : Nat
  name : Name
  run : Option (Nat × Nat × Nat) := none
deriving Repr, Inhabited

def Hole.isSingleAt (h : Hole) (s e : Nat) : Bool := h.run.isNone && h.start == s && h.stop == e

def findSingleHole (holes : List Hole) (s e : Nat) : Option Hole := holes.find? (·.isSingleAt s e)

def findRunHole (holes : List Hole) (parentId : Nat) : Option (Nat × Nat × Name) :=
  match holes.find? (fun h => match h.run with | some (p, _, _) => p == parentId | none => false) with
  | some h => match h.run with | some (_, a, b) => some (a, b, h.name) | none => none
  | none => none

mutual
/-- hole ↦ `MetaVar`, leaf ↦ `Terminal`, inner node ↦ `Internal` without missing children;
a node whose range equals a hole's range is the hole (outermost first: the converter tests
every node's whole text top-down). -/
def cut (src : Bytes) (holes : List Hole) : Tree → PNode
  | .node i cs =>
    match findSingleHole holes i.start i.stop with
    | some h => .metaVar (.capture h.name true)
    | none =>
      match cs with
      | [] => .terminal (Tree.text src (.node i [])) i.named i.kind
      | _ :: _ => .internal i.kind (cutList src holes (findRunHole holes i.id) 0 cs)
def cutList (src : Bytes) (holes : List Hole) (run : Option (Nat × Nat × Name)) :
    Nat → List Tree → List PNode
  | _, [] => []
  | idx, c :: cs =>
    let rest := cutList src holes run (idx + 1) cs
    match run with
    | some (a, b, name) =>
      let pre := if idx == a then [PNode.metaVar (.multiCapture name)] else []
      if a ≤ idx && idx ≤ b then pre ++ rest
      else if c.info.missing then pre ++ rest
      else pre ++ cut src holes c :: rest
    | none =>
      if c.info.missing then rest else cut src holes c :: rest
end

mutual
/-- `PatternNode::fixed_string`: the longest literal (first one among equals: `>=` keeps the
earlier) -/
def fixedString : PNode → Bytes
  | .terminal text _ _ => text
  | .metaVar _ => []
  | .internal _ cs => fixedStringList cs []
def fixedStringList : List PNode → Bytes → Bytes
  | [], longest => longest
  | p :: ps, longest =>
    let curr := fixedString p
    fixedStringList ps (if longest.length ≥ curr.length then longest else curr)
end

mutual
/-- `PatternNode::fixed_string_named`: the longest literal among the named tokens -/
def fixedStringNamed : PNode → Bytes
  | .terminal text named _ => if named then text else []
  | .metaVar _ => []
  | .internal _ cs => fixedStringNamedList cs []
def fixedStringNamedList : List PNode → Bytes → Bytes
  | [], longest => longest
  | p :: ps, longest =>
    let curr := fixedStringNamed p
    fixedStringNamedList ps (if longest.length ≥ curr.length then longest else curr)
end

/-- `Pattern::fixed_string()`: the literal the CLI requires a file to contain before parsing it -/
def patternFixedString (p : PNode) (s : Strictness) : Bytes :=
  match s with
  | .cst => fixedString p
  | .smart => fixedString p
  | .ast => fixedStringNamed p
  | .relaxed => fixedStringNamed p
  | .signature => []

/-- `filter_file_pattern`'s `do_match`: is the file kept for matching? -/
def prefilterKeeps (p : PNode) (s : Strictness) (file : Bytes) : Bool :=
  let fixed := patternFixedString p s
  fixed.isEmpty || (List.range (file.length + 1)).any fun i => (file.drop i).take fixed.length == fixed

/-- `Pattern::potential_kinds` (`rootKind` = `root_kind` of contextual patterns) -/
def patternPotentialKinds (p : PNode) (rootKind : Option Nat) : Option (List Nat) :=
  match p with
  | .terminal _ _ kind => if kind == ERROR_KIND then none else some [kind]
  | .metaVar _ => rootKind.map fun k => [k]
  | .internal kind _ => if kind == ERROR_KIND then none else some [kind]

end AGV
