/-
Model of what the CLI prints about one match.

Mirrors
* `Node::display_context`           crates/core/src/node.rs:254-295
* `get_range`, `MatchJSON::new`     crates/cli/src/print/json_print.rs:132-168
* `MatchMerger`                     crates/cli/src/print/colored_print/match_merger.rs:14-70
* `PrintStyles::push_matched_to_ret` (no colour) crates/cli/src/print/colored_print/styles.rs:62-81
* `print_matches_with_prefix`       crates/cli/src/print/colored_print.rs:335-382

A node is its byte range `(start, stop)`; tree-sitter's row of a byte offset is `lineOf`
(tree-sitter contract, checked by the harness). `none` = a Rust panic (slice out of range,
index out of bounds, arithmetic overflow, failed `debug_assert!`).
-/
import AstGrepVerif.Model.Bytes

namespace AGV

/-- `DisplayContext` -/
structure DisplayContext where
  matched : Bytes
  leading : Bytes
  trailing : Bytes
  startLine : Nat
deriving DecidableEq, Repr

/-- Both `while` loops of `display_context` have the same body: walk over bytes (backwards from
`start` for `leading`, forwards from `end` for `trailing`), decrement the line counter at every
newline, stop *before* the newline that brings it to zero. Returns (bytes walked, counter left).
The counter starts at `before + 1` / `after + 1`, so `n - 1` never underflows. -/
def ctxScan : Bytes → Nat → Nat × Nat
  | [], n => (0, n)
  | b :: bs, n =>
    if b = NL then
      if n - 1 = 0 then (0, 0)
      else
        let r := ctxScan bs (n - 1)
        (r.1 + 1, r.2)
    else
      let r := ctxScan bs n
      (r.1 + 1, r.2)

/-- `node.display_context(before, after)` for a node spanning `start..stop` of `src`.
Panics (`none`): `bytes[leading - 1]` when `start > len`; `self.text()` / `&source[end..trailing]`
when `stop > len` (after the clamp `trailing.min(len)`) or `start > stop`;
`start_pos().line() - offset` on underflow. -/
def displayContext (src : Bytes) (start stop before after : Nat) : Option DisplayContext :=
  if start > src.length then none
  else if stop > src.length ∨ start > stop then none
  else
    let lead := ctxScan (src.take start).reverse (before + 1)
    let leading := start - lead.1
    let linesBefore := lead.2
    -- `trailing = trailing.min(bytes.len())`
    let trail0 := min stop src.length
    let trail := ctxScan (src.drop trail0) (after + 1)
    let trailing := trail0 + trail.1
    let offset := if linesBefore = 0 then before else before + 1 - linesBefore
    let line := lineOf src start
    if offset > line then none
    else some {
      matched := slice src start stop
      leading := slice src leading start
      trailing := slice src stop trailing
      startLine := line - offset }

/-- JSON `Position` -/
structure PosJ where
  line : Nat
  column : Nat
deriving DecidableEq, Repr

/-- JSON `Range` -/
structure RangeJ where
  startByte : Nat
  endByte : Nat
  start : PosJ
  stop : PosJ
deriving DecidableEq, Repr

/-- `get_range(node)` -/
def getRange (src : Bytes) (start stop : Nat) : Option RangeJ := do
  let sc ← (posAt src start).column src
  let ec ← (posAt src stop).column src
  pure { startByte := start, endByte := stop,
         start := { line := lineOf src start, column := sc },
         stop := { line := lineOf src stop, column := ec } }

/-- JSON `MatchNode` (meta-variable entries, labels) -/
structure MatchNodeJ where
  text : Bytes
  range : RangeJ
deriving DecidableEq, Repr

def jsonMatchNode (src : Bytes) (start stop : Nat) : Option MatchNodeJ := do
  let t ← slice? src start stop
  let r ← getRange src start stop
  pure { text := t, range := r }

/-- the position-dependent fields of `MatchJSON` -/
structure MatchJ where
  text : Bytes
  range : RangeJ
  lines : Bytes
  leadingCount : Nat
  trailingCount : Nat
deriving DecidableEq, Repr

/-- `MatchJSON::new(nm, path, (before, after))` -/
def matchJSON (src : Bytes) (start stop before after : Nat) : Option MatchJ := do
  let d ← displayContext src start stop before after
  let r ← getRange src start stop
  pure { text := d.matched, range := r,
         lines := d.leading ++ d.matched ++ d.trailing,
         leadingCount := charCount d.leading,
         trailingCount := charCount d.trailing }

/-! ## plain-text report -/

/-- `MatchMerger` -/
structure Merger where
  lastStartLine : Nat
  lastEndLine : Nat
  lastTrailing : Bytes
  lastEndOffset : Nat
deriving DecidableEq, Repr

/-- `MatchMerger::new` and `conclude_match` compute the same four fields -/
def Merger.ofMatch (src : Bytes) (start stop before after : Nat) : Option Merger := do
  let d ← displayContext src start stop before after
  pure { lastStartLine := d.startLine + 1,
         lastEndLine := lineOf src stop + 1,
         lastTrailing := d.trailing,
         lastEndOffset := stop }

/-- `lines.join("\n")` as done by the loop of `push_matched_to_ret` -/
def joinLines : List Bytes → Bytes
  | [] => []
  | [l] => l
  | l :: ls => l ++ NL :: joinLines ls

/-- `matched.ends_with('\n')` -/
def endsWithNL (s : Bytes) : Bool := s.getLast? == some NL

/-- `push_matched_to_ret(ret, matched)` without colour: nothing for a text without lines;
otherwise `matched.lines()` joined by `\n`, then the `\n` that `lines()` swallowed when
`matched` ends with one (crates/cli/src/print/colored_print/styles.rs:62-81, after 0b29009) -/
def pushMatched (ret matched : Bytes) : Bytes :=
  match strLines matched with
  | [] => ret                                   -- `else { return Ok(()) }`
  | l :: ls =>
    let ret := ret ++ joinLines (l :: ls)
    if endsWithNL matched then ret ++ [NL] else ret

/-- one output line of the report -/
inductive ReportLine where
  | entry (num : Nat) (text : Bytes)     -- `{path}:{num}:{line}`
  | sep                                   -- `--`
deriving DecidableEq, Repr

def enumFrom' : Nat → List Bytes → List ReportLine
  | _, [] => []
  | n, l :: ls => .entry n l :: enumFrom' (n + 1) ls

/-- `for (n, line) in ret.lines().enumerate() { writeln!("{path}:{start+n}:{line}") }` -/
def emitGroup (startLine : Nat) (ret : Bytes) : List ReportLine :=
  enumFrom' startLine (strLines ret)

/-- the `for nm in matches` loop of `print_matches_with_prefix` -/
def prefixLoop (src : Bytes) (before after : Nat) :
    List (Nat × Nat) → Merger → Bytes → List ReportLine → Option (List ReportLine)
  | [], m, ret, acc => some (acc ++ emitGroup m.lastStartLine (ret ++ m.lastTrailing))
  | (s, e) :: ms, m, ret, acc =>
    -- check_overlapping
    if s < m.lastEndOffset then
      -- debug_assert!(range.end <= self.last_end_offset)
      if e ≤ m.lastEndOffset then prefixLoop src before after ms m ret acc else none
    else
      match displayContext src s e before after with
      | none => none
      | some d =>
        -- merge_adjacent
        if d.startLine ≤ m.lastEndLine + after then
          match slice? src m.lastEndOffset s with
          | none => none
          | some between =>
            let m' := { m with lastEndOffset := e, lastTrailing := d.trailing }
            prefixLoop src before after ms m' (pushMatched (ret ++ between) d.matched) acc
        else
          let acc' := acc ++ emitGroup m.lastStartLine (ret ++ m.lastTrailing)
            ++ (if before + after > 0 then [ReportLine.sep] else [])
          let m' : Merger := { lastStartLine := d.startLine + 1, lastEndLine := lineOf src e + 1,
                               lastTrailing := d.trailing, lastEndOffset := e }
          prefixLoop src before after ms m' (pushMatched d.leading d.matched) acc'

/-- `print_matches_with_prefix(matches, path, printer)` for `matches` as byte ranges -/
def printMatchesWithPrefix (src : Bytes) (before after : Nat) (ms0 : List (Nat × Nat)) :
    Option (List ReportLine) :=
  match ms0 with
  | [] => some []
  | (s, e) :: ms =>
    match Merger.ofMatch src s e before after, displayContext src s e before after with
    | some m, some d => prefixLoop src before after ms m (pushMatched d.leading d.matched) []
    | _, _ => none

end AGV
