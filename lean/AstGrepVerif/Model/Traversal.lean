/-
The three traversals and the matcher-filtered visit.

Mirrors `crates/core/src/traversal.rs` (pinned commit):
  * `Pre`   168-263  (`new`, `step_down`, `trace_up`, `next`, `calibrate_for_match`)
  * `Post`  266-354  (`new`, `trace_down`, `step_up`, `next`, `calibrate_for_match`)
  * `Level` 360-389  (deque of nodes, children read through a cursor)
  * `Visit::next` 111-131 with `reentrant` / `named` and `mark_match`

The code is transcribed as it is:
  * `current_depth -= 1` on a `usize` is a panic when the depth is 0 (the harness is built with
    overflow checks): outcome `TravErr.depthUnderflow`;
  * `debug_assert!(depth >= self.match_depth)` in `Post::calibrate_for_match` is a panic in a
    build with debug assertions (`dbg = true`, what the harness links) and absent otherwise
    (`dbg = false`, a release build): outcome `TravErr.debugAssert`;
  * `Pre::calibrate_for_match` reverts the step down with `goto_parent()` *without* decrementing
    `current_depth` (so the depth counter may run ahead of the real depth afterwards).
`Post.calibrateFixed` / `Post.visitFixed` are the same machine with the repaired
`Post::calibrate_for_match` (no early `return` in the `Some(depth)` branch); `Post.calibrate` /
`Post.visit` stay the model of the pinned code.
Every `while`/`loop` takes the explicit budget `fuel`; running out is `TravErr.fuel`.  The
budget used by the entry points is `travFuel n = 2 * size n + 2`.
-/
import AstGrepVerif.Model.Cursor

namespace AGV

inductive TravErr where
  | depthUnderflow | debugAssert | fuel
deriving DecidableEq, Repr, Inhabited

abbrev TM := Except TravErr

/-- the budget of every loop of a traversal started at `n` -/
def travFuel (n : Tree) : Nat := 2 * n.size + 2

/-! ## Pre-order -/

structure Pre where
  cursor : Cursor
  startId : Option Nat
  depth : Nat
deriving Repr, Inhabited

namespace Pre

/-- `Pre::new(node)` -/
def new (n : Tree) : Pre := ⟨Cursor.new n, some n.id, 0⟩

/-- `step_down` -/
def stepDown (p : Pre) : Pre × Bool :=
  match p.cursor.gotoFirstChild with
  | some c => ({ p with cursor := c, depth := p.depth + 1 }, true)
  | none => (p, false)

/-- `trace_up(start)` -/
def traceUp : (fuel : Nat) → Pre → (start : Nat) → TM Pre
  | 0, _, _ => .error .fuel
  | fuel + 1, p, start =>
    if p.cursor.node.id != start then
      match p.cursor.gotoNextSibling with
      | some c => .ok { p with cursor := c }
      | none =>
        if p.depth = 0 then .error .depthUnderflow
        else
          match p.cursor.gotoParent with
          | some c => traceUp fuel { p with cursor := c, depth := p.depth - 1 } start
          | none => .ok { p with depth := p.depth - 1, startId := none }   -- `break`
    else .ok { p with startId := none }

/-- `Iterator::next` -/
def next (fuel : Nat) (p : Pre) : TM (Option Tree × Pre) :=
  match p.startId with
  | none => .ok (none, p)
  | some start =>
    let ret := p.cursor.node
    match p.stepDown with
    | (p', true) => .ok (some ret, p')
    | (p', false) =>
      match traceUp fuel p' start with
      | .ok p'' => .ok (some ret, p'')
      | .error e => .error e

/-- `calibrate_for_match(depth)` -/
def calibrate (fuel : Nat) (p : Pre) : Option Nat → TM Pre
  | none => .ok p
  | some d =>
    if p.depth ≤ d then .ok p
    else
      match p.startId with
      | some start =>
        -- `self.cursor.goto_parent();` (result ignored, depth not touched)
        let c := match p.cursor.gotoParent with
          | some c => c
          | none => p.cursor
        traceUp fuel { p with cursor := c } start
      | none => .ok p

/-- the whole iteration: `Pre::new(n).collect()` for a machine state -/
def collect (F : Nat) : (fuel : Nat) → Pre → TM (List Tree)
  | 0, _ => .error .fuel
  | fuel + 1, p =>
    match next F p with
    | .error e => .error e
    | .ok (none, _) => .ok []
    | .ok (some x, p') =>
      match collect F fuel p' with
      | .ok xs => .ok (x :: xs)
      | .error e => .error e

/-- `node.dfs().collect()` -/
def toList (n : Tree) : TM (List Tree) := collect (travFuel n) (travFuel n) (new n)

/-- `Visit::next` over a pre-order traversal -/
def visitNext (reentrant named : Bool) (m : Tree → Bool) (F : Nat) :
    (fuel : Nat) → Pre → TM (Option Tree × Pre)
  | 0, _ => .error .fuel
  | fuel + 1, p =>
    let matchDepth := p.depth
    match next F p with
    | .error e => .error e
    | .ok (none, p') => .ok (none, p')
    | .ok (some node, p') =>
      let passNamed := !named || node.named
      if passNamed && m node then
        if reentrant then .ok (some node, p')
        else
          match calibrate F p' (some matchDepth) with
          | .ok p'' => .ok (some node, p'')
          | .error e => .error e
      else
        if reentrant then visitNext reentrant named m F fuel p'
        else
          match calibrate F p' none with
          | .ok p'' => visitNext reentrant named m F fuel p''
          | .error e => .error e

def visitCollect (reentrant named : Bool) (m : Tree → Bool) (F : Nat) :
    (fuel : Nat) → Pre → TM (List Tree)
  | 0, _ => .error .fuel
  | fuel + 1, p =>
    match visitNext reentrant named m F F p with
    | .error e => .error e
    | .ok (none, _) => .ok []
    | .ok (some x, p') =>
      match visitCollect reentrant named m F fuel p' with
      | .ok xs => .ok (x :: xs)
      | .error e => .error e

/-- `Visitor::new(m).reentrant(r).named_only(k).visit(n).collect()` (pre-order algorithm) -/
def visit (reentrant named : Bool) (m : Tree → Bool) (n : Tree) : TM (List Tree) :=
  visitCollect reentrant named m (travFuel n) (travFuel n) (new n)

end Pre

/-! ## Post-order -/

structure Post where
  cursor : Cursor
  startId : Option Nat
  depth : Nat
  matchDepth : Nat
deriving Repr, Inhabited

namespace Post

/-- `trace_down` -/
def traceDown : (fuel : Nat) → Post → TM Post
  | 0, _ => .error .fuel
  | fuel + 1, p =>
    match p.cursor.gotoFirstChild with
    | some c => traceDown fuel { p with cursor := c, depth := p.depth + 1 }
    | none => .ok p

/-- `step_up` (`goto_parent`'s result is ignored) -/
def stepUp (p : Post) : TM Post :=
  if p.depth = 0 then .error .depthUnderflow
  else
    let c := match p.cursor.gotoParent with
      | some c => c
      | none => p.cursor
    .ok { p with depth := p.depth - 1, cursor := c }

/-- `Post::new(node)` -/
def new (F : Nat) (n : Tree) : TM Post := traceDown F ⟨Cursor.new n, some n.id, 0, 0⟩

/-- `Iterator::next` -/
def next (F : Nat) (p : Post) : TM (Option Tree × Post) :=
  match p.startId with
  | none => .ok (none, p)
  | some start =>
    let node := p.cursor.node
    if node.id == start then .ok (some node, { p with startId := none })
    else
      match p.cursor.gotoNextSibling with
      | some c =>
        match traceDown F { p with cursor := c } with
        | .ok p' => .ok (some node, p')
        | .error e => .error e
      | none =>
        match p.stepUp with
        | .ok p' => .ok (some node, p')
        | .error e => .error e

/-- the `while` loop of `calibrate_for_match` -/
def calibLoop (F : Nat) : (fuel : Nat) → Post → (start : Nat) → TM Post
  | 0, _, _ => .error .fuel
  | fuel + 1, p, start =>
    if p.cursor.node.id != start then
      let p := { p with matchDepth := p.depth }
      match p.cursor.gotoNextSibling with
      | some c => traceDown F { p with cursor := c }
      | none =>
        match p.stepUp with
        | .ok p' => calibLoop F fuel p' start
        | .error e => .error e
    else .ok { p with startId := none }

/-- `calibrate_for_match(depth)`; `dbg` = the build has debug assertions -/
def calibrate (dbg : Bool) (F : Nat) (p : Post) : Option Nat → TM Post
  | some d =>
    if dbg && d < p.matchDepth then .error .debugAssert
    else .ok { p with matchDepth := d }
  | none =>
    if p.depth ≥ p.matchDepth then .ok p
    else
      match p.startId with
      | none => .ok p
      | some start => calibLoop F F p start

def collect (F : Nat) : (fuel : Nat) → Post → TM (List Tree)
  | 0, _ => .error .fuel
  | fuel + 1, p =>
    match next F p with
    | .error e => .error e
    | .ok (none, _) => .ok []
    | .ok (some x, p') =>
      match collect F fuel p' with
      | .ok xs => .ok (x :: xs)
      | .error e => .error e

/-- `Post::new(&n).collect()` -/
def toList (n : Tree) : TM (List Tree) :=
  match new (travFuel n) n with
  | .ok p => collect (travFuel n) (travFuel n) p
  | .error e => .error e

/-- `Visit::next` over a post-order traversal -/
def visitNext (dbg reentrant named : Bool) (m : Tree → Bool) (F : Nat) :
    (fuel : Nat) → Post → TM (Option Tree × Post)
  | 0, _ => .error .fuel
  | fuel + 1, p =>
    let matchDepth := p.depth
    match next F p with
    | .error e => .error e
    | .ok (none, p') => .ok (none, p')
    | .ok (some node, p') =>
      let passNamed := !named || node.named
      if passNamed && m node then
        if reentrant then .ok (some node, p')
        else
          match calibrate dbg F p' (some matchDepth) with
          | .ok p'' => .ok (some node, p'')
          | .error e => .error e
      else
        if reentrant then visitNext dbg reentrant named m F fuel p'
        else
          match calibrate dbg F p' none with
          | .ok p'' => visitNext dbg reentrant named m F fuel p''
          | .error e => .error e

def visitCollect (dbg reentrant named : Bool) (m : Tree → Bool) (F : Nat) :
    (fuel : Nat) → Post → TM (List Tree)
  | 0, _ => .error .fuel
  | fuel + 1, p =>
    match visitNext dbg reentrant named m F F p with
    | .error e => .error e
    | .ok (none, _) => .ok []
    | .ok (some x, p') =>
      match visitCollect dbg reentrant named m F fuel p' with
      | .ok xs => .ok (x :: xs)
      | .error e => .error e

/-- `Visitor::new(m).algorithm::<PostOrder>().reentrant(r).named_only(k).visit(n).collect()` -/
def visit (dbg reentrant named : Bool) (m : Tree → Bool) (n : Tree) : TM (List Tree) :=
  match new (travFuel n) n with
  | .ok p => visitCollect dbg reentrant named m (travFuel n) (travFuel n) p
  | .error e => .error e

/-! ### the repaired `calibrate_for_match` (fix of the last-child defect)

`Post::calibrate_for_match` after the repair: the early `return;` of the `Some(depth)` branch is
removed, so that after `match_depth = depth` the code falls through to the test
`current_depth >= match_depth` and the loop over the ancestors, as in the `None` branch.  When the
reported match was a last child the cursor already stands on its parent
(`current_depth = depth - 1`), and the parent (and every further ancestor reached by `step_up`)
is skipped instead of tested.  `calibrate` / `visit` above stay the model of the pinned code. -/

/-- the part of `calibrate_for_match` after the `if let Some(depth)` block -/
def calibTail (F : Nat) (p : Post) : TM Post :=
  if p.depth ≥ p.matchDepth then .ok p
  else
    match p.startId with
    | none => .ok p
    | some start => calibLoop F F p start

/-- the repaired `calibrate_for_match(depth)`; `dbg` = the build has debug assertions -/
def calibrateFixed (dbg : Bool) (F : Nat) (p : Post) : Option Nat → TM Post
  | some d =>
    if dbg && d < p.matchDepth then .error .debugAssert
    else calibTail F { p with matchDepth := d }   -- no early return
  | none => calibTail F p

/-- `Visit::next` over the repaired post-order traversal -/
def visitNextFixed (dbg reentrant named : Bool) (m : Tree → Bool) (F : Nat) :
    (fuel : Nat) → Post → TM (Option Tree × Post)
  | 0, _ => .error .fuel
  | fuel + 1, p =>
    let matchDepth := p.depth
    match next F p with
    | .error e => .error e
    | .ok (none, p') => .ok (none, p')
    | .ok (some node, p') =>
      let passNamed := !named || node.named
      if passNamed && m node then
        if reentrant then .ok (some node, p')
        else
          match calibrateFixed dbg F p' (some matchDepth) with
          | .ok p'' => .ok (some node, p'')
          | .error e => .error e
      else
        if reentrant then visitNextFixed dbg reentrant named m F fuel p'
        else
          match calibrateFixed dbg F p' none with
          | .ok p'' => visitNextFixed dbg reentrant named m F fuel p''
          | .error e => .error e

def visitCollectFixed (dbg reentrant named : Bool) (m : Tree → Bool) (F : Nat) :
    (fuel : Nat) → Post → TM (List Tree)
  | 0, _ => .error .fuel
  | fuel + 1, p =>
    match visitNextFixed dbg reentrant named m F F p with
    | .error e => .error e
    | .ok (none, _) => .ok []
    | .ok (some x, p') =>
      match visitCollectFixed dbg reentrant named m F fuel p' with
      | .ok xs => .ok (x :: xs)
      | .error e => .error e

/-- `Visitor::new(m).algorithm::<PostOrder>().reentrant(r).named_only(k).visit(n).collect()` with
the repaired `calibrate_for_match` -/
def visitFixed (dbg reentrant named : Bool) (m : Tree → Bool) (n : Tree) : TM (List Tree) :=
  match new (travFuel n) n with
  | .ok p => visitCollectFixed dbg reentrant named m (travFuel n) (travFuel n) p
  | .error e => .error e

end Post

/-! ## Level-order -/

/-- the `NodeWalker` / `tree_sitter::Node::children(&mut cursor)` loop: `count` times
"take `cursor.node()`, then `goto_next_sibling()` (result ignored)" -/
def walkSiblings : (count : Nat) → Cursor → List Tree
  | 0, _ => []
  | count + 1, c =>
    c.node :: walkSiblings count (match c.gotoNextSibling with
      | some c' => c'
      | none => c)

/-- `node.children()` (`node.rs:349-357`): a cursor on the node, `goto_first_child()`, then the
walker with `count = child_count()` -/
def childrenViaCursor (n : Tree) : List Tree :=
  let c := Cursor.new n
  let c := match c.gotoFirstChild with
    | some c' => c'
    | none => c
  walkSiblings n.children.length c

structure Level where
  deque : List Tree
deriving Repr, Inhabited

namespace Level

/-- `Level::new(node)` -/
def new (n : Tree) : Level := ⟨[n]⟩

/-- `Iterator::next`: pop the front, push its children at the back -/
def next (l : Level) : Option Tree × Level :=
  match l.deque with
  | [] => (none, l)
  | inner :: rest => (some inner, ⟨rest ++ childrenViaCursor inner⟩)

def collect : (fuel : Nat) → Level → TM (List Tree)
  | 0, _ => .error .fuel
  | fuel + 1, l =>
    match next l with
    | (none, _) => .ok []
    | (some x, l') =>
      match collect fuel l' with
      | .ok xs => .ok (x :: xs)
      | .error e => .error e

/-- `Level::new(&n).collect()` -/
def toList (n : Tree) : TM (List Tree) := collect (travFuel n) (new n)

end Level

end AGV
