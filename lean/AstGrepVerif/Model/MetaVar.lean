/-
Model of meta-variable spelling recognition.

Mirrors (pinned commit):
  * `crates/core/src/meta_var.rs:232-278`   `extract_meta_var`, `is_valid_first_char`,
                                           `is_valid_meta_var_char`
  * `crates/language/src/lib.rs:61-80`      `pre_process_pattern`
  * `crates/core/src/language.rs:55-57`     `Language::extract_meta_var` (= extract with expando)

Text is a `List Char` here: these notations are char-indexed in the Rust code
(`chars()`, `strip_prefix(char)`, `len_utf8`).
No imports: this file is compiled into the native driver.
-/
namespace AGV

inductive MetaVar where
  | capture (name : List Char) (named : Bool)
  | dropped (named : Bool)
  | multiple
  | multiCapture (name : List Char)
deriving DecidableEq, Repr, Inhabited

/-- `matches!(c, 'A'..='Z' | '_')` -/
def isValidFirstChar (c : Char) : Bool :=
  (decide ('A'.toNat ≤ c.toNat) && decide (c.toNat ≤ 'Z'.toNat)) || c == '_'

/-- `c.is_ascii_digit()` -/
def isAsciiDigit (c : Char) : Bool :=
  decide ('0'.toNat ≤ c.toNat) && decide (c.toNat ≤ '9'.toNat)

def isValidMetaVarChar (c : Char) : Bool :=
  isValidFirstChar c || isAsciiDigit c

/-- `str::strip_prefix(&str)` on char lists. -/
def stripPrefix? : (pre s : List Char) → Option (List Char)
  | [], s => some s
  | _ :: _, [] => none
  | p :: ps, c :: cs => if p = c then stripPrefix? ps cs else none

/-- `trimmed.starts_with(pred)`: non-empty and first char satisfies `pred`. -/
def startsWithP (p : Char → Bool) : List Char → Bool
  | [] => false
  | c :: _ => p c

/-- `extract_meta_var(src, meta_char)` transcribed branch by branch. -/
def extractMetaVar (src : List Char) (mc : Char) : Option MetaVar :=
  let ellipsis := [mc, mc, mc]
  if src = ellipsis then some .multiple
  else match stripPrefix? ellipsis src with
    | some trimmed =>
      if !(trimmed.all isValidMetaVarChar) then none
      else if startsWithP (· == '_') trimmed then some .multiple
      else some (.multiCapture trimmed)
    | none =>
      match src with
      | [] => none
      | c :: rest =>
        if c ≠ mc then none
        else
          let (trimmed, named) :=
            match rest with
            | c2 :: r2 => if c2 = mc then (r2, false) else (rest, true)
            | [] => (rest, true)
          if !(startsWithP isValidFirstChar trimmed) || !(trimmed.all isValidMetaVarChar) then none
          else if startsWithP (· == '_') trimmed then some (.dropped named)
          else some (.capture trimmed named)

/-- The `for c in query.chars()` loop of `pre_process_pattern` with its state
`dollar_count`; the output vector `ret` is what the function returns (everything pushed so
far is a prefix of the result, so the loop is written as producing the remaining output).
The `[]` case is the code after the loop ("trailing anonymous multiple"). -/
def preProcessLoop (expando : Char) : (dollars : Nat) → List Char → List Char
  | dollars, [] =>
    let sigil := if dollars == 3 then expando else '$'
    List.replicate dollars sigil
  | dollars, c :: cs =>
    if c = '$' then preProcessLoop expando (dollars + 1) cs
    else
      let needReplace := isValidFirstChar c || dollars == 3
      let sigil := if needReplace then expando else '$'
      List.replicate dollars sigil ++ c :: preProcessLoop expando 0 cs

/-- `pre_process_pattern(expando, query)` of the languages using `impl_lang_expando!`. -/
def preProcessPattern (expando : Char) (query : List Char) : List Char :=
  preProcessLoop expando 0 query

/-- What a language does with a pattern token: languages built with `impl_lang!`
keep `$` (expando = `$`, identity pre-processing); the others rewrite. -/
def langPreProcess (expando : Char) (query : List Char) : List Char :=
  if expando = '$' then query else preProcessPattern expando query

/-- `Language::extract_meta_var ∘ Language::pre_process_pattern`. -/
def langExtract (expando : Char) (query : List Char) : Option MetaVar :=
  extractMetaVar (langPreProcess expando query) expando

end AGV
