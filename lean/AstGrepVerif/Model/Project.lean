/-
Project discovery and rule-file loading of the CLI (slice "project"; C15 / C13 / C12 glue).

Mirrors (v0.37.0 + the repairs of this project, code AS IT IS):
  * `crates/cli/src/config.rs`   `find_config_path_with_default` (`findUp`, `configPath`),
        `ProjectConfig::discover_project` / `setup` (`setup`), `build_util_walker` + `find_util_rules`
        (`readUtilDirs`, `intoMap`, `findUtilRules`), `read_directory_yaml` (`readDirs`),
        `read_rule_file` (`readRuleFile`), `ProjectConfig::find_rules` (`findRules`)
  * `crates/language/src/lib.rs` `config_file_type` (`isRuleName`: the globs `*.yml`, `*.yaml`)
  * the serial walker of the `ignore` crate as the code uses it (`WalkBuilder::new(dir).types(..).build()`,
        standard filters): `walkRoot` / `walkDir` / `walkEntry`
  * `crates/cli/src/lib.rs`      `setup_project_is_possible` runs BEFORE clap parses the command line
  * `crates/cli/src/scan.rs`     `ScanArg` (`conflicts_with`), `ScanWithConfig::try_new` (`scanRules`)
  * `crates/cli/src/utils/rule_overwrite.rs` `filter_rule_by_regex` (`applyFilter`)
  * `crates/cli/src/utils/error_context.rs`  `exit_code` (`Err.exitCode`)

The file system is data: a tree whose child lists are in READDIR ORDER (the walker does not sort).
Paths are lists of components from the root of the tree; resolving `--config X`, `-r X` and the
current directory to such a list is the operating system's business (glue).

Parameters (`Params`): UTF-8 validity (`read_to_string`), `serde_yaml` on `sgconfig.yml`,
`from_yaml_string` (rule documents of a file given the global rules: `Model/Loader`),
`from_str::<SerializableGlobalRule>`, `DeserializeEnv::parse_global_utils` (`Model/GlobalLoader`), the verdict of
ignore files (`.gitignore` inside a git repository, `.ignore`, global excludes) on a path, and the
`--filter` regex on a rule id.

What the walker does with names (read from the `ignore` crate, exercised by unit `project`):
  * the root of a walk (depth 0) is never filtered: a `ruleDirs` entry naming a FILE yields that
    file whatever its name; a hidden directory named in `ruleDirs` is walked;
  * below the root a directory is skipped iff an ignore file says so or its name starts with `.`;
  * below the root a file is yielded iff no ignore file excludes it and its name matches `*.yml`
    or `*.yaml` (case sensitive) — the type whitelist beats the hidden-file rule: `.x.yml` IS a
    rule file;
  * children in readdir order, depth first, a directory's files interleaved with its
    sub-directories; symbolic links are not followed (not modelled: no links in the tree).
-/
import AstGrepVerif.Model.Indent

namespace AGV.Project

open AGV

abbrev Name := Bytes
/-- components from the root of the tree -/
abbrev Path := List Name

mutual
/-- a node of the file system -/
inductive Entry where
  | file (content : Bytes)
  | dir (d : Dir)
/-- the children of a directory, in readdir order -/
inductive Dir where
  | nil
  | cons (name : Name) (e : Entry) (rest : Dir)
end

def Dir.toList : Dir → List (Name × Entry)
  | .nil => []
  | .cons n e rest => (n, e) :: rest.toList

def Dir.ofList : List (Name × Entry) → Dir
  | [] => .nil
  | (n, e) :: rest => .cons n e (Dir.ofList rest)

/-- the child called `n` (names are unique in a real directory; the first one otherwise) -/
def Dir.get (n : Name) : Dir → Option Entry
  | .nil => none
  | .cons m e rest => if m = n then some e else rest.get n

/-- `stat` of a path below `e` -/
def Entry.lookup : Entry → Path → Option Entry
  | e, [] => some e
  | .file _, _ :: _ => none
  | .dir d, n :: rest =>
    match d.get n with
    | some e => e.lookup rest
    | none => none

/-- `sgconfig.yml` -/
def configName : Name := [115, 103, 99, 111, 110, 102, 105, 103, 46, 121, 109, 108]

/-- `path.join(CONFIG_FILE).exists()`: any kind of entry counts -/
def hasConfig (root : Entry) (dir : Path) : Bool :=
  (root.lookup (dir ++ [configName])).isSome

/-- the loop of `find_config_path_with_default` on the REVERSED current directory
    (`path.parent()` drops the last component; the root has no parent) -/
def findUp (root : Entry) : List Name → Option Path
  | [] => if hasConfig root [] then some [] else none
  | x :: xs => if hasConfig root (x :: xs).reverse then some (x :: xs).reverse else findUp root xs

/-- the directory whose `sgconfig.yml` is used when no `--config` is given -/
def projectDirOf (root : Entry) (cwd : Path) : Option Path := findUp root cwd.reverse

/-- `find_config_path_with_default` -/
def configPath (root : Entry) (cwd : Path) : Option Path → Option Path
  | some p => some p
  | none => (projectDirOf root cwd).map (· ++ [configName])

/-- the fields of `sgconfig.yml` this slice uses; directories relative to the project directory -/
structure Config where
  ruleDirs : List Path
  utilDirs : Option (List Path)
deriving Repr, DecidableEq

structure Project where
  dir : Path
  ruleDirs : List Path
  utilDirs : Option (List Path)
deriving Repr, DecidableEq

/-- `ErrorContext` as far as loading reaches it; `plain` = an `anyhow` error without context
    (`exit_with_error` falls through, `main` returns `Err`: status 1) -/
inductive Err where
  | projectNotExist
  | readConfiguration
  | parseConfiguration
  | walkRuleDir (p : Path)
  | readRule (p : Path)
  | parseRule (p : Path)
  | plain
  | invalidGlobalUtils
  | ruleNotFound
  | argConflict
deriving Repr, DecidableEq

/-- `ErrorContext::exit_code`; clap's usage error exits with 2 -/
def Err.exitCode : Err → Nat
  | .projectNotExist => 2
  | .readConfiguration => 5
  | .parseConfiguration => 8
  | .walkRuleDir _ => 5
  | .readRule _ => 5
  | .parseRule _ => 8
  | .plain => 1
  | .invalidGlobalUtils => 8
  | .ruleNotFound => 2
  | .argConflict => 2

/-- the components of the model that other slices or other crates decide -/
structure Params (D U G : Type) where
  /-- `read_to_string` succeeds (valid UTF-8) -/
  readable : Bytes → Bool
  /-- `from_str::<AstGrepConfig>` -/
  parseConfig : Bytes → Option Config
  /-- `from_yaml_string(text, globals)`: every document of the text, or the first error -/
  parseRules : G → Bytes → Option (List D)
  /-- `from_str::<SerializableGlobalRule>` (ONE document) with its id -/
  parseUtil : Bytes → Option (Name × U)
  /-- `DeserializeEnv::parse_global_utils` on the map of the utility documents -/
  register : List (Name × U) → Option G
  /-- `GlobalRules::default()` -/
  emptyGlobals : G
  /-- an ignore file excludes this path (below the root of a walk) -/
  ign : Path → Bool

/-- `ProjectConfig::setup`: outer error = "definitely wrong config", `ok none` = no project -/
def setup {D U G} (P : Params D U G) (root : Entry) (cwd : Path) (flag : Option Path) :
    Except Err (Option Project) :=
  match configPath root cwd flag with
  | none => .ok none
  | some cp =>
    match root.lookup cp with
    | some (.file bytes) =>
      if !P.readable bytes then .error .readConfiguration else
      match P.parseConfig bytes with
      | none => .error .parseConfiguration
      | some c => .ok (some { dir := cp.dropLast, ruleDirs := c.ruleDirs, utilDirs := c.utilDirs })
    | _ => .error .readConfiguration

/-! ### the walk -/

/-- the name starts with `.` -/
def hidden (n : Name) : Bool := n.head? == some 46

def endsWith (s suf : Bytes) : Bool := s.drop (s.length - suf.length) == suf

/-- `config_file_type()`: `*.yml`, `*.yaml` on the file name -/
def isRuleName (n : Name) : Bool :=
  endsWith n [46, 121, 109, 108] || endsWith n [46, 121, 97, 109, 108]

mutual
/-- the files a walk yields below a directory whose path is `pre` -/
def walkDir (ign : Path → Bool) (pre : Path) : Dir → List (Path × Bytes)
  | .nil => []
  | .cons n e rest => walkEntry ign (pre ++ [n]) n e ++ walkDir ign pre rest
/-- a child called `n` at path `p` -/
def walkEntry (ign : Path → Bool) (p : Path) (n : Name) : Entry → List (Path × Bytes)
  | .file c => if ign p || !isRuleName n then [] else [(p, c)]
  | .dir d => if ign p || hidden n then [] else walkDir ign p d
end

/-- one root given to `WalkBuilder`: missing = the walker's first item is an error -/
def walkRoot (ign : Path → Bool) (p : Path) : Option Entry → Except Err (List (Path × Bytes))
  | none => .error (.walkRuleDir p)
  | some (.file c) => .ok [(p, c)]
  | some (.dir d) => .ok (walkDir ign p d)

/-! ### rule files -/

/-- `read_rule_file` -/
def readRuleFile {D U G} (P : Params D U G) (g : G) (f : Path × Bytes) : Except Err (List D) :=
  if !P.readable f.2 then .error (.readRule f.1) else
  match P.parseRules g f.2 with
  | none => .error (.parseRule f.1)
  | some ds => .ok ds

/-- the inner loop of `read_directory_yaml`: the first failing file ends the load -/
def loadList {D U G} (P : Params D U G) (g : G) : List (Path × Bytes) → Except Err (List D)
  | [] => .ok []
  | f :: fs =>
    match readRuleFile P g f with
    | .error e => .error e
    | .ok ds =>
      match loadList P g fs with
      | .error e => .error e
      | .ok rest => .ok (ds ++ rest)

/-- the outer loop of `read_directory_yaml`: one walker per `ruleDirs` entry, in order -/
def readDirs {D U G} (P : Params D U G) (root : Entry) (dir : Path) (g : G) :
    List Path → Except Err (List D)
  | [] => .ok []
  | rd :: rds =>
    match walkRoot P.ign (dir ++ rd) (root.lookup (dir ++ rd)) with
    | .error e => .error e
    | .ok files =>
      match loadList P g files with
      | .error e => .error e
      | .ok ds =>
        match readDirs P root dir g rds with
        | .error e => .error e
        | .ok rest => .ok (ds ++ rest)

/-! ### global utility rules -/

def readUtilFile {D U G} (P : Params D U G) (f : Path × Bytes) : Except Err (Name × U) :=
  if !P.readable f.2 then .error .plain else
  match P.parseUtil f.2 with
  | none => .error .plain
  | some u => .ok u

def loadUtilList {D U G} (P : Params D U G) : List (Path × Bytes) → Except Err (List (Name × U))
  | [] => .ok []
  | f :: fs =>
    match readUtilFile P f with
    | .error e => .error e
    | .ok u =>
      match loadUtilList P fs with
      | .error e => .error e
      | .ok rest => .ok (u :: rest)

/-- the walker over all `utilDirs` (one `WalkBuilder` with several roots, visited in order); the
    error of a missing root carries an empty path (`EC::WalkRuleDir(PathBuf::new())`) -/
def readUtilDirs {D U G} (P : Params D U G) (root : Entry) (dir : Path) :
    List Path → Except Err (List (Name × U))
  | [] => .ok []
  | ud :: uds =>
    match walkRoot P.ign (dir ++ ud) (root.lookup (dir ++ ud)) with
    | .error _ => .error (.walkRuleDir [])
    | .ok files =>
      match loadUtilList P files with
      | .error e => .error e
      | .ok us =>
        match readUtilDirs P root dir uds with
        | .error e => .error e
        | .ok rest => .ok (us ++ rest)

/-- `HashMap::insert` on an association list: the LAST document of an id replaces the others -/
def ainsert {β} (k : Name) (v : β) : List (Name × β) → List (Name × β)
  | [] => [(k, v)]
  | (k', v') :: rest => if k' = k then (k, v) :: rest else (k', v') :: ainsert k v rest

/-- `into_map` -/
def intoMap {β} (us : List (Name × β)) : List (Name × β) :=
  us.foldl (fun m u => ainsert u.1 u.2 m) []

def alookup {β} (k : Name) : List (Name × β) → Option β
  | [] => none
  | (k', v) :: rest => if k' = k then some v else alookup k rest

/-- `find_util_rules` -/
def findUtilRules {D U G} (P : Params D U G) (root : Entry) (pr : Project) : Except Err G :=
  match pr.utilDirs with
  | none => .ok P.emptyGlobals
  | some [] => .ok P.emptyGlobals
  | some dirs =>
    match readUtilDirs P root pr.dir dirs with
    | .error e => .error e
    | .ok us =>
      match P.register (intoMap us) with
      | none => .error .invalidGlobalUtils
      | some g => .ok g

/-- every rule document of the project, in the order `read_directory_yaml` collects them
    (before `--filter`) -/
def projectDocs {D U G} (P : Params D U G) (root : Entry) (pr : Project) : Except Err (List D) :=
  match findUtilRules P root pr with
  | .error e => .error e
  | .ok g => readDirs P root pr.dir g pr.ruleDirs

/-- `filter_rule_by_regex` -/
def applyFilter {D} (idOf : D → Name) (filter : Option (Name → Bool)) (docs : List D) :
    Except Err (List D) :=
  match filter with
  | none => .ok docs
  | some f =>
    let sel := docs.filter (fun d => f (idOf d))
    if sel.isEmpty then .error .ruleNotFound else .ok sel

/-- `ProjectConfig::find_rules` up to `RuleCollection::try_new` (`Model/Select`) -/
def findRules {D U G} (P : Params D U G) (idOf : D → Name) (root : Entry) (pr : Project)
    (filter : Option (Name → Bool)) : Except Err (List D) :=
  match projectDocs P root pr with
  | .error e => .error e
  | .ok docs => applyFilter idOf filter docs

/-! ### which rules a scan uses -/

structure Flags where
  /-- `--config FILE` (resolved) -/
  config : Option Path := none
  /-- `--rule FILE` (resolved) -/
  rule : Option Path := none
  /-- `--inline-rules TEXT` -/
  inline : Option Bytes := none
  /-- `--filter REGEX` as the predicate `is_match` on rule ids -/
  filter : Option (Name → Bool) := none

/-- the rule documents of a scan; `overwritten` = `RuleOverwrite::process_configs` was applied
    (the `--filter` regex and the severity flags) -/
structure Loaded (D : Type) where
  docs : List D
  overwritten : Bool

/-- the path shown for `--inline-rules` errors -/
def inlinePath : Path := [[73, 78, 76, 73, 78, 69, 95, 82, 85, 76, 69, 83]]

/-- `main_with_args` + `ScanWithConfig::try_new` (file mode): project set-up first (its outer
    errors win over everything), then clap's conflicts, then the source of the rules -/
def scanRules {D U G} (P : Params D U G) (idOf : D → Name) (root : Entry) (cwd : Path)
    (fl : Flags) : Except Err (Loaded D) :=
  match setup P root cwd fl.config with
  | .error e => .error e
  | .ok proj =>
    if fl.rule.isSome && (fl.inline.isSome || fl.filter.isSome) then .error .argConflict else
    match fl.rule, fl.inline with
    | some p, _ =>
      match root.lookup p with
      | some (.file c) =>
        match readRuleFile P P.emptyGlobals (p, c) with
        | .error e => .error e
        | .ok ds => .ok { docs := ds, overwritten := false }
      | _ => .error (.readRule p)
    | none, some text =>
      match P.parseRules P.emptyGlobals text with
      | none => .error (.parseRule inlinePath)
      | some ds => .ok { docs := ds, overwritten := false }
    | none, none =>
      match proj with
      | none => .error .projectNotExist
      | some pr =>
        match findRules P idOf root pr fl.filter with
        | .error e => .error e
        | .ok ds => .ok { docs := ds, overwritten := true }

end AGV.Project
