/-
The pattern matcher.

Mirrors (pinned commit):
  * `crates/core/src/matcher/pattern.rs:23-67`          `PatternNode`, `is_trivial`
  * `crates/core/src/match_tree/strictness.rs:24-117`   `match_terminal`, `should_skip_trailing`,
                                                       `should_skip_goal`
  * `crates/core/src/matcher/kind.rs:68-82`             `are_kinds_matching`
  * `crates/core/src/match_tree/match_node.rs:8-232`    the peekable-iterator state machine
  * `crates/core/src/match_tree/mod.rs:13-124`          the two aggregators

The two `Peekable` iterators are the lists of goals / candidates not yet consumed.
The aggregator is `&mut`: whatever a failed attempt wrote into it stays written, so every
function returns the aggregator state also on failure.
Abnormal outcomes are explicit: `Abn.panic` (an `unwrap()` on an exhausted iterator),
`Abn.fuel` (the model's recursion budget ran out — never the case for fuel ≥ `matchFuel`).
-/
import AstGrepVerif.Model.Env

namespace AGV

inductive PNode where
  | metaVar (mv : MetaVar)
  | terminal (text : Bytes) (named : Bool) (kind : Nat)
  | internal (kind : Nat) (children : List PNode)
deriving Repr, Inhabited

namespace PNode
/-- `is_trivial()` -/
def isTrivial : PNode → Bool
  | .terminal _ named _ => !named
  | _ => false

mutual
def size : PNode → Nat
  | .metaVar _ => 1
  | .terminal _ _ _ => 1
  | .internal _ cs => 1 + sizeList cs
def sizeList : List PNode → Nat
  | [] => 0
  | p :: ps => p.size + sizeList ps
end
end PNode

inductive Strictness where
  | cst | smart | ast | relaxed | signature
deriving DecidableEq, Repr, Inhabited

inductive MatchOne where
  | matchedBoth | skipBoth | skipGoal | skipCandidate | noMatch
deriving DecidableEq, Repr, Inhabited

/-- `kind_utils::are_kinds_matching(goal, candidate)` -/
def kindsMatch (goal cand : Nat) : Bool := goal == cand || goal == ERROR_KIND

/-- `skip_comment_or_unnamed(n)` -/
def skipCommentOrUnnamed (n : Tree) : Bool := !n.named || n.info.comment

def skipPair (skipGoal skipCand : Bool) : MatchOne :=
  match skipGoal, skipCand with
  | true, true => .skipBoth
  | true, false => .skipGoal
  | false, true => .skipCandidate
  | false, false => .noMatch

/-- `MatchStrictness::match_terminal(is_named, text, goal_kind, candidate)` -/
def Strictness.matchTerminal (s : Strictness) (src : Bytes) (isNamed : Bool) (text : Bytes)
    (goalKind : Nat) (cand : Tree) : MatchOne :=
  let km := kindsMatch goalKind cand.kind
  if km && (!isNamed || text == cand.text src) then .matchedBoth
  else match s with
    | .cst => skipPair false false
    | .smart => skipPair false (!cand.named)
    | .ast => skipPair (!isNamed) (!cand.named)
    | .relaxed => skipPair (!isNamed) (skipCommentOrUnnamed cand)
    | .signature =>
      if km then .matchedBoth else skipPair (!isNamed) (skipCommentOrUnnamed cand)

/-- `should_skip_trailing(candidate)` -/
def Strictness.shouldSkipTrailing (s : Strictness) (cand : Tree) : Bool :=
  match s with
  | .cst => false
  | .smart => true
  | .ast => false
  | .relaxed => skipCommentOrUnnamed cand
  | .signature => skipCommentOrUnnamed cand

/-- the per-goal decision inside `should_skip_goal` -/
def Strictness.goalSkippable (s : Strictness) (p : PNode) : Bool :=
  match s with
  | .cst => false
  | .smart =>
    match p with
    | .metaVar .multiple => true
    | .metaVar (.multiCapture _) => true
    | _ => false
  | _ =>
    match p with
    | .metaVar .multiple => true
    | .metaVar (.multiCapture _) => true
    | .metaVar (.dropped named) => !named
    | .metaVar (.capture _ named) => !named
    | .terminal _ named _ => !named
    | .internal _ _ => false

/-- `should_skip_goal(goal_children)`: every remaining goal is skippable -/
def Strictness.shouldSkipGoal (s : Strictness) (goals : List PNode) : Bool :=
  goals.all s.goalSkippable

/-- `try_get_ellipsis_mode(node)`: `some optName` for `$$$` / `$$$NAME` -/
def ellipsisMode : PNode → Option (Option Name)
  | .metaVar .multiple => some none
  | .metaVar (.multiCapture n) => some (some n)
  | _ => none

/-- The `Aggregator` trait: what a successful comparison writes. A `none` result leaves the
state as it was (`insert` / `insert_multi` / `nodes.last()?` fail before writing). -/
structure Agg (σ : Type) where
  terminal : σ → Tree → Option σ
  metaVar : σ → MetaVar → Tree → Option σ
  ellipsis : σ → Option Name → List Tree → Nat → Option σ

/-- `match_leaf_meta_var` -/
def matchLeafMetaVar (src : Bytes) (env : Env) (mv : MetaVar) (cand : Tree) : Option Env :=
  match mv with
  | .capture name named =>
    if named && !cand.named then none else env.insert src name cand
  | .dropped named =>
    if named && !cand.named then none else some env
  | .multiple => some env
  | .multiCapture name => env.insert src name cand

/-- `impl Aggregator for Cow<MetaVarEnv>` -/
def envAgg (src : Bytes) : Agg Env where
  terminal env _ := some env
  metaVar env mv cand := matchLeafMetaVar src env mv cand
  ellipsis env var nodes skippedAnonymous :=
    match var with
    | some v => env.insertMulti src v (nodes.take (nodes.length - skippedAnonymous))
    | none => some env

/-- `impl Aggregator for ComputeEnd` -/
def endAgg : Agg Nat where
  terminal _ n := some n.stop
  metaVar _ _ n := some n.stop
  ellipsis e _ nodes _ :=
    match nodes.getLast? with
    | some n => some n.stop
    | none => none

inductive Abn where
  | panic | fuel
deriving DecidableEq, Repr, Inhabited

inductive Flow where
  | cont | fall | ret
deriving DecidableEq, Repr, Inhabited

/-- `match_ellipsis(agg, name, matched, rest, skipped)`: `matched.extend(rest)`, then the aggregator -/
def matchEllipsis {σ} (agg : Agg σ) (st : σ) (name : Option Name) (matched rest : List Tree)
    (skipped : Nat) : Option σ :=
  agg.ellipsis st name (matched ++ rest) skipped

/-- the `while goal_children.peek().unwrap().is_trivial()` loop: number of trivial goals
dropped and what is left -/
def skipTrivialGoals : List PNode → Nat × List PNode
  | [] => (0, [])
  | g :: gs =>
    if g.isTrivial then
      let (n, rest) := skipTrivialGoals gs
      (n + 1, rest)
    else (0, g :: gs)

section
variable {σ : Type} (agg : Agg σ) (s : Strictness) (src : Bytes)

/- result conventions
   * node level:  `Except Abn (MatchOne × σ)`
   * list level:  `Except Abn (Option α × σ)`, `none` = the `?` of the Rust code (no match) -/

mutual

/-- `match_node_impl(goal, candidate, agg, strictness)` -/
def matchNode : (fuel : Nat) → PNode → Tree → σ → Except Abn (MatchOne × σ)
  | 0, _, _, _ => .error .fuel
  | fuel + 1, goal, cand, st =>
    match goal with
    | .terminal text named kind =>
      match s.matchTerminal src named text kind cand with
      | .matchedBoth =>
        match agg.terminal st cand with
        | some st' => .ok (.matchedBoth, st')
        | none => .ok (.noMatch, st)
      | c => .ok (c, st)
    | .metaVar mv =>
      match agg.metaVar st mv cand with
      | some st' => .ok (.matchedBoth, st')
      | none => .ok (.noMatch, st)
    | .internal kind children =>
      if kindsMatch kind cand.kind then
        match matchNodes fuel children cand.children st with
        | .error e => .error e
        | .ok (true, st') => .ok (.matchedBoth, st')
        | .ok (false, st') => .ok (.noMatch, st')
      else .ok (.noMatch, st)

/-- `match_nodes_impl_recursive(goals, candidates, agg, strictness)`; `true` = `Some(())` -/
def matchNodes : (fuel : Nat) → List PNode → List Tree → σ → Except Abn (Bool × σ)
  | 0, _, _, _ => .error .fuel
  | fuel + 1, goals, cands, st =>
    match cands with
    | [] => .ok (false, st)                       -- `cand_children.peek()?`
    | _ :: _ => matchLoop fuel goals cands st

/-- one iteration of the `loop` of `match_nodes_impl_recursive` (and the following ones) -/
def matchLoop : (fuel : Nat) → List PNode → List Tree → σ → Except Abn (Bool × σ)
  | 0, _, _, _ => .error .fuel
  | fuel + 1, goals, cands, st =>
    match mayMatchEllipsis fuel goals cands st with
    | .error e => .error e
    | .ok (none, _, _, st1) => .ok (false, st1)
    | .ok (some .ret, _, _, st1) => .ok (true, st1)
    | .ok (some .cont, goals1, cands1, st1) => matchLoop fuel goals1 cands1 st1
    | .ok (some .fall, goals1, cands1, st1) =>
      match matchSingle fuel goals1 cands1 st1 with
      | .error e => .error e
      | .ok (none, _, _, st2) => .ok (false, st2)
      | .ok (some .ret, _, _, st2) => .ok (true, st2)
      | .ok (some .cont, goals2, cands2, st2) => matchLoop fuel goals2 cands2 st2
      | .ok (some .fall, goals2, cands2, st2) =>
        -- `let consumed_goal = goal_children.next(); if consumed_goal.is_some() { cand_children.next(); }`
        let (goals3, cands3) :=
          match goals2 with
          | [] => (([] : List PNode), cands2)
          | _ :: gs => (gs, cands2.tail)
        match goals3 with
        | [] => .ok (cands3.all s.shouldSkipTrailing, st2)     -- all goals found
        | _ :: _ =>
          match cands3 with
          | [] => .ok (false, st2)                             -- `cand_children.peek()?`
          | _ :: _ => matchLoop fuel goals3 cands3 st2

/-- `may_match_ellipsis_impl`; returns the control flow (`none` = no match) and the iterators -/
def mayMatchEllipsis : (fuel : Nat) → List PNode → List Tree → σ →
    Except Abn (Option Flow × List PNode × List Tree × σ)
  | 0, _, _, _ => .error .fuel
  | fuel + 1, goals, cands, st =>
    match goals with
    | [] => .ok (some .ret, goals, cands, st)
    | g :: gs =>
      match ellipsisMode g with
      | none => .ok (some .fall, goals, cands, st)
      | some optName =>
        -- `goal_children.next()`
        match gs with
        | [] =>
          -- goal has all matched: the ellipsis takes every remaining candidate
          match matchEllipsis agg st optName [] cands 0 with
          | some st' => .ok (some .ret, [], [], st')
          | none => .ok (none, [], [], st)
        | _ :: _ =>
          let (skipped, gs') := skipTrivialGoals gs
          match gs' with
          | [] =>
            match matchEllipsis agg st optName [] cands skipped with
            | some st' => .ok (some .ret, [], [], st')
            | none => .ok (none, [], [], st)
          | g2 :: _ =>
            if (ellipsisMode g2).isSome then
              -- next goal is an ellipsis too: consume one candidate
              match cands with
              | [] => .error .panic                              -- `cand_children.next().unwrap()`
              | c :: cs =>
                match cs with
                | [] => .ok (none, gs', cs, st)                  -- `cand_children.peek()?`
                | _ :: _ =>
                  match matchEllipsis agg st optName [c] [] skipped with
                  | some st' => .ok (some .cont, gs', cs, st')
                  | none => .ok (none, gs', cs, st)
            else ellipsisScan fuel optName skipped gs' cands [] st

/-- the final `loop` of `may_match_ellipsis_impl`: find the first candidate the goal after the
ellipsis matches; everything before it is absorbed by the ellipsis -/
def ellipsisScan : (fuel : Nat) → Option Name → Nat → List PNode → List Tree → List Tree → σ →
    Except Abn (Option Flow × List PNode × List Tree × σ)
  | 0, _, _, _, _, _, _ => .error .fuel
  | fuel + 1, optName, skipped, goals, cands, matched, st =>
    match goals, cands with
    | [], _ => .error .panic                                     -- `goal_children.peek().unwrap()`
    | _, [] => .error .panic                                     -- `cand_children.peek().unwrap()`
    | g :: _, c :: cs =>
      -- the trial runs on a copy of the aggregator (`let mut trial = agg.clone()`): whatever it
      -- writes is dropped, the caller matches the node again once the ellipsis is settled
      match matchNode fuel g c st with
      | .error e => .error e
      | .ok (.matchedBoth, _) =>
        match matchEllipsis agg st optName matched [] skipped with
        | some st2 => .ok (some .fall, goals, cands, st2)
        | none => .ok (none, goals, cands, st)
      | .ok (_, _) =>
        -- `matched.push(cand_children.next().unwrap()); cand_children.peek()?;`
        match cs with
        | [] => .ok (none, goals, cs, st)
        | _ :: _ => ellipsisScan fuel optName skipped goals cs (matched ++ [c]) st

/-- `match_single_node_while_skip_trivial` -/
def matchSingle : (fuel : Nat) → List PNode → List Tree → σ →
    Except Abn (Option Flow × List PNode × List Tree × σ)
  | 0, _, _, _ => .error .fuel
  | fuel + 1, goals, cands, st =>
    match cands with
    | [] =>
      -- candidates ran out: a match iff every remaining goal is skippable
      -- (`should_skip_goal` consumes the skippable goals it walks over)
      if s.shouldSkipGoal goals then .ok (some .fall, [], [], st)
      else .ok (none, goals.dropWhile s.goalSkippable, [], st)
    | c :: cs =>
      match goals with
      | [] => .error .panic                                      -- `goal_children.peek().unwrap()`
      | g :: gs =>
        match matchNode fuel g c st with
        | .error e => .error e
        | .ok (.matchedBoth, st1) => .ok (some .fall, goals, cands, st1)
        | .ok (.skipGoal, st1) =>
          match gs with
          | [] => .ok (some .fall, gs, cands, st1)
          | _ :: _ => matchSingle fuel gs cands st1
        | .ok (.skipBoth, st1) =>
          match gs with
          | [] => .ok (some .fall, gs, cs, st1)
          | _ :: _ => matchSingle fuel gs cs st1
        | .ok (.skipCandidate, st1) => matchSingle fuel goals cs st1
        | .ok (.noMatch, st1) => .ok (none, goals, cands, st1)

end

end

/-- a fuel that always suffices (see `Lemmas/MatchTotal`): every recursive call consumes a
goal, a candidate or descends into a child -/
def matchFuel (p : PNode) (t : Tree) : Nat := 4 * (p.size + 1) * (t.size + 1) + 8

/-- `match_node_non_recursive(goal, candidate, env)`: `some env'` = matched -/
def matchPatternEnv (s : Strictness) (src : Bytes) (fuel : Nat) (p : PNode) (cand : Tree)
    (env : Env) : Except Abn (Option Env) :=
  match matchNode (envAgg src) s src fuel p cand env with
  | .error e => .error e
  | .ok (.matchedBoth, env') => .ok (some env')
  | .ok (_, _) => .ok none

/-- `match_end_non_recursive(goal, candidate)` -/
def matchEnd (s : Strictness) (src : Bytes) (fuel : Nat) (p : PNode) (cand : Tree) :
    Except Abn (Option Nat) :=
  match matchNode endAgg s src fuel p cand 0 with
  | .error e => .error e
  | .ok (.matchedBoth, e) => .ok (some e)
  | .ok (_, _) => .ok none

/-- `Pattern::get_match_len(node)`: `end.checked_sub(start)` — `none` when nothing matched or
when no token at all was matched (the end stayed `0`, every pattern node was skipped). -/
def matchLen (s : Strictness) (src : Bytes) (fuel : Nat) (p : PNode) (cand : Tree) :
    Except Abn (Option Nat) :=
  match matchEnd s src fuel p cand with
  | .error e => .error e
  | .ok none => .ok none
  | .ok (some e) => if e < cand.start then .ok none else .ok (some (e - cand.start))

end AGV
