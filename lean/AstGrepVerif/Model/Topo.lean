/-
Model of the dependency sort used for utility rules and transformations, and of the two other
places where the order of a hash map could leak into results.

Mirrors (pinned commit):
  * `crates/config/src/rule/deserialize_env.rs:66-122`  `TopologicalSort::{get_order, new, visit}`
  * `crates/config/src/rule/deserialize_env.rs:48-63,124-146`  `visit_dependency` for rules
        (`visit_dependent_rule_ids`: the `matches` ids in the order matches, all, any, not) and for
        transformations (`used_vars`: one source variable)
  * `crates/config/src/transform/mod.rs:32-64`           `Transform::deserialize` (order) and
        `apply_transform` (steps applied in that order, each writing its own key)
  * `crates/config/src/combined.rs:132-136`              `CombinedScan::new` sorts by (has fix, id)
  * `crates/core/src/meta_var.rs:112-136`                `match_constraints` (since ec1c602: the
        constrained captures of the `HashMap` are collected, sorted by variable name and visited in
        that order while threading one environment)

The hash maps of the code are association lists here; the *iteration order* of a map is the order
of the list, so "independent of hash order" is a statement about permutations of the list.
Recursion through dependencies takes fuel (`getOrder` uses `maps.length + 1`, which is always
enough: `AGV.C13.getOrder_fuel_enough`). No imports: compiled into the native driver.
-/
namespace AGV.Topo

variable {α : Type} [DecidableEq α]

/-- `HashMap::get` on an association list (first binding) -/
def lookup (k : α) : List (α × β) → Option β
  | [] => none
  | (k', v) :: rest => if k' = k then some v else lookup k rest

/-- `TopologicalSort { order, seen }` (`maps` is passed separately) -/
structure State (α : Type) where
  order : List α
  /-- `seen: HashMap<&str, bool>`, newest binding first; the bool = visit completed -/
  seen : List (α × Bool)
deriving Repr, DecidableEq

inductive Err (α : Type) where
  /-- `Err(key)`: `key` was reached again while its own visit was still in progress -/
  | cyclic (key : α)
  /-- the model ran out of fuel (never happens for `getOrder`) -/
  | fuel
deriving Repr, DecidableEq

instance instDecEqExcept {ε σ : Type} [DecidableEq ε] [DecidableEq σ] : DecidableEq (Except ε σ)
  | .ok a, .ok b => if h : a = b then isTrue (by rw [h]) else isFalse (by intro h'; cases h'; exact h rfl)
  | .error a, .error b => if h : a = b then isTrue (by rw [h]) else isFalse (by intro h'; cases h'; exact h rfl)
  | .ok _, .error _ => isFalse (by intro h; cases h)
  | .error _, .ok _ => isFalse (by intro h; cases h)

/-- threading a fallible step through a list, stopping at the first error (`?` in a `for`) -/
def foldE (f : σ → α → Except ε σ) : σ → List α → Except ε σ
  | st, [] => .ok st
  | st, x :: xs =>
    match f st x with
    | .error e => .error e
    | .ok st' => foldE f st' xs

/-- `TopologicalSort::visit`. `maps` gives for every key the list of keys its
`visit_dependency` visits, in order. -/
def visit (maps : List (α × List α)) : Nat → α → State α → Except (Err α) (State α)
  | 0, _, _ => .error .fuel
  | fuel + 1, key, st =>
    match lookup key st.seen with
    | some true => .ok st
    | some false => .error (.cyclic key)
    | none =>
      match lookup key maps with
      | none => .ok st             -- "key can be found elsewhere": unknown references are accepted
      | some deps =>
        match foldE (fun s d => visit maps fuel d s) { st with seen := (key, false) :: st.seen } deps with
        | .error e => .error e
        | .ok st' => .ok { order := st'.order ++ [key], seen := (key, true) :: st'.seen }

/-- `TopologicalSort::get_order`, with the iteration order of `maps.keys()` made explicit -/
def getOrderWith (maps : List (α × List α)) (keys : List α) : Except (Err α) (List α) :=
  match foldE (fun s k => visit maps (maps.length + 1) k s) ⟨[], []⟩ keys with
  | .error e => .error e
  | .ok st => .ok st.order

/-- keys iterated in the order of the association list itself -/
def getOrder (maps : List (α × List α)) : Except (Err α) (List α) :=
  getOrderWith maps (maps.map (·.1))

/-! ## transformations: `apply_transform` -/

/-- A transformation step, abstractly: the new value of `key` is a function of the value of its
source variable (`get_var_bytes(source)`: a matched node's text or an earlier transformed
value; `none` = not bound ⇒ the step stores the empty string, as `insert` does). -/
structure Step (α : Type) (V : Type) where
  key : α
  source : α
  compute : Option V → V

/-- the environment seen by transformations: matched variables (fixed) and transformed ones -/
structure TEnv (α : Type) (V : Type) where
  matched : α → Option V
  transformed : α → Option V

/-- `get_var_bytes_impl` for a capture: the matched node wins over a transformed value -/
def TEnv.get (e : TEnv α V) (x : α) : Option V :=
  match e.matched x with
  | some v => some v
  | none => e.transformed x

/-- `Transformation::insert`: `transformed_var.insert(key, compute(source))` -/
def applyStep (e : TEnv α V) (s : Step α V) : TEnv α V :=
  { e with transformed := fun x => if x = s.key then some (s.compute (e.get s.source)) else e.transformed x }

/-- `Transform::apply_transform`: the steps in the order computed at load time -/
def applyTransform (steps : List (Step α V)) (e : TEnv α V) : TEnv α V :=
  steps.foldl applyStep e

/-! ## `CombinedScan::new`: stable insertion sort by `(fix.is_some(), id)` -/

/-- insertion into a list sorted by `lt` (before the first element that is not smaller) -/
def insertBy (lt : κ → κ → Bool) (x : κ) : List κ → List κ
  | [] => [x]
  | y :: ys => if lt y x then y :: insertBy lt x ys else x :: y :: ys

def sortBy (lt : κ → κ → Bool) : List κ → List κ
  | [] => []
  | x :: xs => insertBy lt x (sortBy lt xs)

/-- lexicographic `<` on byte strings (`String`'s `Ord`) -/
def bytesLt : List UInt8 → List UInt8 → Bool
  | [], [] => false
  | [], _ :: _ => true
  | _ :: _, [] => false
  | a :: as, b :: bs => if a < b then true else if b < a then false else bytesLt as bs

/-- the sort key of `CombinedScan::new`: `(r.fix.is_some(), &r.id)`, `false < true` -/
def fixIdLt (a b : Bool × List UInt8) : Bool :=
  if a.1 = b.1 then bytesLt a.2 b.2 else (!a.1 && b.1)

/-- dispatch order of the rules of one scan -/
def combinedOrder (rules : List (Bool × List UInt8)) : List (Bool × List UInt8) :=
  sortBy fixIdLt rules

/-! ## `match_constraints` -/

/-- environment of single captures, as a function (only look-ups matter) -/
abbrev CEnv (α V : Type) := α → Option V

/-- A constraint matcher, abstractly: run against the candidate bound to its variable it may
extend the environment or fail (`match_node_with_env(candidate, &mut env)`). -/
abbrev Constraint (α V : Type) := CEnv α V → Option (CEnv α V)

/-- The loop of `match_constraints` over a list of variables: for every variable with a
constraint the matcher runs on the evolving environment. Before ec1c602 the list was the
iteration order of `single_matched` (a `HashMap`) itself. -/
def matchConstraints (cons : α → Option (Constraint α V)) : List α → CEnv α V → Option (CEnv α V)
  | [], e => some e
  | x :: xs, e =>
    match cons x with
    | none => matchConstraints cons xs e
    | some c =>
      match c e with
      | none => none
      | some e' => matchConstraints cons xs e'

/-- `String` ordering on variable names: lexicographic by code point (= UTF-8 byte order).
Restated from `Model/Rule.lean` (`AGV.nameLe`; equality: `AGV.C13.nameLe_eq_rule`). -/
def nameLe : List Char → List Char → Bool
  | [], _ => true
  | _ :: _, [] => false
  | a :: as, b :: bs => if a.toNat < b.toNat then true else if a.toNat > b.toNat then false else nameLe as bs

/-- insertion before the first element that is not smaller (`Model/Rule.lean`: `insertByName`) -/
def insertByLe (le : α → α → Bool) (x : α) : List α → List α
  | [] => [x]
  | y :: ys => if le x y then x :: y :: ys else y :: insertByLe le x ys

/-- `constrained.sort_by(|a, b| a.0.cmp(b.0))` on the variable names (`Model/Rule.lean`:
`sortByName`; the names of a map are pairwise different, so stability plays no role) -/
def sortByLe (le : α → α → Bool) (l : List α) : List α := l.foldr (insertByLe le) []

/-- `match_constraints` since ec1c602: `vars` is the iteration order of `single_matched`; the
variables that have a constraint are collected (`filter … contains_key`), sorted by name, and
the loop runs over that list. -/
def matchConstraintsSorted (le : α → α → Bool) (cons : α → Option (Constraint α V))
    (vars : List α) (e : CEnv α V) : Option (CEnv α V) :=
  matchConstraints cons (sortByLe le (vars.filter (fun x => (cons x).isSome))) e

/-- `MetaVarEnv::insert` of a pattern capture `$X` on a candidate value: bind if unbound,
otherwise require equality (`match_variable`) -/
def bindVar (x : α) [DecidableEq V] (v : V) (e : CEnv α V) : Option (CEnv α V) :=
  match e x with
  | none => some (fun y => if y = x then some v else e y)
  | some w => if w = v then some e else none

/-- a constraint of the shape `has: {pattern: $X, stopBy: end}` / `pattern: g($X)`: the first
candidate value (descendants in document order) that `$X` accepts -/
def captureFirst (x : α) [DecidableEq V] : List V → Constraint α V
  | [], _ => none
  | v :: vs, e =>
    match bindVar x v e with
    | some e' => some e'
    | none => captureFirst x vs e

end AGV.Topo
