"""C12 — accepted rules are self-consistent: variables, references and rewriters resolve."""
ENTRY = {
    "lean_modules": ["AstGrepVerif.Props.C12"],
    "theorems": [
        "AGV.C12.accept_vars_defined",
        "AGV.C12.docGood_accepted",
        "AGV.C12.reject_perturbed",
        "AGV.C12.reject_undefined_fix_var",
        "AGV.C12.reject_undefined_util",
        "AGV.C12.reject_utility_cycle",
        "AGV.C12.reject_transform_cycle",
        "AGV.C12.undefined_var_reported",
        "AGV.C12.fix_substitutes",
        "AGV.C12.fix_substitutes_text",
        "AGV.C12.fix_object_form_counterexample",
        "AGV.C12.fix_object_form_fixed_example",
        "AGV.C12.fix_sigil_mismatch_counterexample",
        "AGV.Loader.mem_definedVars_iff",
        "AGV.Loader.verifyUtil_none_iff",
        "AGV.Loader.mem_depIds_iff",
        "AGV.C11.topo_detects_cycles",
        "AGV.C11.utilGraph_edge_iff",
        "AGV.C07.replace_verbatim",
    ],
    "units": ["c12_accept"],
    "trusted_base": [
        "modelled, not verified: Rule::defined_vars / verify_util of every rule form, get_local_util_vars, check_rule_with_hint and its helpers (check_var.rs), Transformation::used_vars, Fixer::parse / do_parse / with_transform / used_vars, TemplateFix::{try_new, with_transform}, register_rewriters, check_rewriters_in_transform, RuleConfig::try_from (Model/CheckVar.lean, Model/Loader.lean), create_template / replace_fixer (Model/Template.lean, C07/C20's model)",
        "the model is the code AFTER FIX_C11_1..7 and FIX_C12_1..2; the pinned object-form parse is the same definition with the repair switched off (fix_object_form_counterexample)",
        "parameters of the model: what tree-sitter / regex say about patterns, kinds, fields and regexes (computed by the harness through the public API); the captures and transformed strings of a match (dumped from the real MetaVarEnv) for the replacement-text ops",
        "the local registry is ONE map shared by a rule and its rewriters (DeserializeEnv::clone clones an Arc): modelled as such (a rewriter utility named like a rule utility is a DuplicateRule error)",
    ],
    "assumptions": [
        "Consistent speaks about the main rule core (rule, utils, constraints, transform, fix) and the rewriter references of its transformations; the rewriter cores pass the same checks (VarsOk is proved for every hint) but their consistency is not packaged into the headline theorem",
        "the variables of a fix template are the slots of the template scanner (C20 template_first_var / C07 replace_verbatim relate the scanner to the `$NAME` spellings)",
        "fix_substitutes_text is stated for single-line captured / transformed values (C07's replace_verbatim hypothesis); multi-line values are C07's indentation theorem",
    ],
}
MANIFEST = {
    "text": "Lean theorems over the executable model of the loader's consistency checks: a document the repaired loader accepts is Consistent (accept_vars_defined): every fix variable, transformation source and constraint key is captured by a pattern of the rule, of a utility or of a constraint, or produced by a transformation; no transformation redefines a variable; every `matches` in the rule, the constraints, the utilities and the fix expansions resolves to a utility or a registered global rule; every rewriter used by a rewrite transformation is declared; the rule has potential kinds; transformations are acyclic and no utility requires itself on the same node — where `captured by`, `refers to` and `same-node reference` are declarative relations proved equal to the lists the checker computes (mem_definedVars_iff, verifyUtil_none_iff, mem_depIds_iff), and acyclicity comes from C11's topological-sort theorem. Conversely a document violating any clause is rejected (reject_perturbed and instances) and a reported UndefinedMetaVar is justified: the variable really is used in that section and defined nowhere (undefined_var_reported). For the string AND the object form of fix, every slot of the parsed template denotes the promised value — the transformed string for a transformation key, the captured text otherwise — and the replacement text is the template with every slot replaced (fix_substitutes, fix_substitutes_text via C07 replace_verbatim); the pinned object form is refuted by evaluation (fix_object_form_counterexample: `bar()` instead of `bar(a)`), and the name-only check is shown to accept a `$ARGS` / `$$$ARGS` sigil mismatch that expands to nothing (fix_sigil_mismatch_counterexample = known finding). Tie to the code: 3000 rule documents per run assembled from five rule shapes with optional utils / constraints / transformation chain / rewriters / string- or object-form fix and exactly one of 25 perturbations (rename or remove the definition or the use of a variable, utility, rewriter; cycles through each of eleven operators; key clash; sigil mismatch; form toggle), loaded by the real from_yaml_string in isolated child processes: outcome class and error variant compared with the model, replacement text of the first match compared with the model's template expansion on the captures dumped from the real match; three oracles written from the documentation on the JSON document.",
    "note": "Trusted: Lean kernel + 3 standard axioms; harness/driver/check.py glue; tree-sitter and regex are parameters. Repaired: object-form fix ignoring transformation names (FIX_C11_4), undefined utilities inside utils / fix expansions accepted (FIX_C12_1), undefined rewriter accepted without a rewriters section (FIX_C12_2), utility cycle through nthChild.ofRule accepted (FIX_C11_6). Known finding: a fix variable whose sigil differs from its capture is accepted and expands to nothing.",
    "technique": "Lean 4 proof over hand-written executable model + declarative reference relations proved equal to the checker's computations + differential correspondence (isolated child processes) + documentation-level oracles with single-perturbation documents",
}
