"""C20 — meta-variable syntax is uniform; small notations are exact."""
ENTRY = {
    "lean_modules": ["AstGrepVerif.Props.C20"],
    "theorems": [
        "AGV.C20.extract_spec",
        "AGV.C20.no_hole_foreign_char",
        "AGV.C20.no_hole_digit_first",
        "AGV.C20.no_hole_lone_sigil",
        "AGV.C20.uniform_across_languages",
        "AGV.C20.langExtract_uniform",
        "AGV.C20.expando_table_classified",
        "AGV.C20.underscore_expando_counterexample",
        "AGV.C20.template_literal",
        "AGV.C20.template_first_var",
        "AGV.C20.template_var_names_valid",
        "AGV.C20.template_var_first_char",
        "AGV.C20.template_digit_first_literal",
        "AGV.C20.template_digit_first_literal_nil",
        "AGV.C20.createTemplate_dollar_100",
        "AGV.C20.splitFirstPinned_dollar_100",
        "AGV.C20.anb_iff",
        "AGV.C20.isMatched_no_overflow",
        "AGV.C20.isMatchedI64_exact",
        "AGV.C20.isMatchedI64_exact'",
        "AGV.C20.isMatchedI64_bound_example",
        "AGV.C20.anb_iff_i64",
        "AGV.C20.isMatchedChecked_eq",
        "AGV.C20.parseAnBChecked_spec",
        "AGV.C20.parseAnBChecked_ok_iff",
        "AGV.C20.parseAnBChecked_error",
        "AGV.C20.parseAnBChecked_no_overflow",
        "AGV.C20.parseAnBChecked_in_i32",
        "AGV.C20.parsed_position_exact",
        "AGV.C20.substring_python",
    ],
    "units": ["metavar", "anb", "substring", "template_scan", "c20_oracle"],
    "trusted_base": [
        "modelled, not verified: extract_meta_var, pre_process_pattern, parse_an_b, is_matched, resolve_char/Substring::compute, split_first_meta_var, create_template",
        "generated table: expando_char()/meta_var_char() of the 23 built-in languages",
    ],
    "assumptions": [
        "tree-sitter parsing of pattern text is outside this property's model (Pattern shape is covered under C02)",
    ],
}
MANIFEST = {
    "text": "Lean theorems over the executable model, for unbounded inputs: An+B index test = exists n>=0 with i+1 = A*n+B (anb_iff, every A and B, truncating division), the i64 computation of the current code (after fix 401a0cd) is exact for every i32 A, B and every index below 2^63 - 2^31 - 1 (isMatchedI64_exact, anb_iff_i64; isMatchedI64_bound_example shows the bound is sharp), the repaired parser is the pinned one with overflow reported as InvalidSyntax and accepted coefficients fit i32 (parseAnBChecked_spec / _ok_iff / _in_i32, parsed_position_exact); for the pinned i32 computation: agreement when |A|,|B|,i < 2^30 (isMatched_no_overflow), substring = Python slice on characters (substring_python), meta-variable spelling recogniser = the documented spellings (extract_spec) and uniform across every expando that is not itself a name character (uniform_across_languages, with the `_`-expando languages C/C++/CSS recorded as a counter-example = known finding), template scanner: literal text stays literal, every capturing spelling is recognised, and since fix af117ca a `$` followed by a digit-first name stays literal text unless it names a transformation (template_literal, template_first_var, template_var_first_char, template_digit_first_literal; splitFirstPinned_dollar_100 is the pinned behaviour: `$100` was swallowed). The model is tied to the code by exhaustive enumeration of short strings through the real functions of all 23 languages plus seeded random longer inputs, replayed on the Lean driver; the expando table is regenerated from the code and re-checked by `decide`. The documented spellings are also pushed through the entry points that build patterns — `Pattern::try_new` and `Pattern::contextual` (object-form patterns, `--selector`) — in all 23 languages (spelling-entry-points).",
    "note": "Trusted: Lean kernel + 3 standard axioms; the harness/driver/check.py glue; tree-sitter parsing of pattern text is not part of this property's model. Modelled-not-verified functions are listed in evidence.trusted_base.",
    "technique": "Lean 4 proof over hand-written executable model + differential correspondence (exhaustive short strings, seeded random) + generated expando table checked by `decide`",
}


# round 11: the unit `structural` also runs under this property
ENTRY["units"] += ["structural"]
