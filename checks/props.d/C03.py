"""C03 — every reported pattern match is justified by the documented strictness rules."""
ENTRY = {
    "lean_modules": ["AstGrepVerif.Props.C03"],
    "theorems": [
        "AGV.C03.match_sound",
        "AGV.C03.match_skip_sound",
        "AGV.C03.match_nodes_sound",
        "AGV.C03.match_sound_env",
        "AGV.C03.match_sound_end",
        "AGV.C03.pattern_match_sound",
        "AGV.C03.match_end_sound",
        "AGV.C03.match_len_sound",
        "AGV.C03.no_named_skipped",
        "AGV.C03.named_comment_skipped_only_relaxed",
        "AGV.C03.cst_nothing_skippable",
        "AGV.C03.ellipsis_consecutive",
        "AGV.C03.ellipsis_consecutive_node",
        "AGV.C03.ellipsis_consecutive_env",
        "AGV.C03.logged_transparent",
        "AGV.C03.bound_run_infix",
        "AGV.C03.cst_strict",
        "AGV.C03.match_end_at_node_end",
        "AGV.C03.match_end_bounds",
        "AGV.C03.match_len_bounds",
        "AGV.C03.match_len_no_token_split",
        "AGV.C03.match_len_zero_example",
        "AGV.C03.match_end_direct_child_counterexample",
        "AGV.C03.empty_internal_counterexample",
        "AGV.C03.ellipsis_trivia_counterexample",
    ],
    "units": ["near_miss"],
    "trusted_base": [
        "modelled, not verified: the matcher state machine of match_node.rs, strictness.rs, kind_utils::are_kinds_matching, the two aggregators (MetaVarEnv, ComputeEnd), Pattern::get_match_len",
        "specification Spec/Align.lean (Aligns / AlignsL) written from the documentation of the five strictness levels",
    ],
    "assumptions": [
        "PatternWF (no inner pattern node without children): hypothesis of match_sound, evaluated for every generated pattern (`pattern_wf` op); empty_internal_counterexample shows it is needed",
    ],
}
MANIFEST = {
    "text": "Lean theorem match_sound (Props/C03.lean): for every aggregator, strictness, source, fuel, well-formed pattern and candidate, a reported matchedBoth implies an alignment in the sense of the independent specification Spec.Aligns (kinds agree with ERROR as wildcard, token text agrees except for unnamed tokens and under signature, named holes bind named nodes, $$$ absorbs consecutive siblings, only strictness-skippable nodes are left unmatched); instantiated for the environment aggregator and for ComputeEnd/get_match_len; no_named_skipped / cst_nothing_skippable; match_len_bounds / match_len_no_token_split (for well-formed trees the reported prefix length stays inside the node and its end is the end of a node of the subtree, never inside a token; match_end_direct_child_counterexample shows that ending inside a direct child is by design under smart); ellipsis_consecutive (every list handed to the ellipsis callback is a contiguous run of one node's children). Two leniencies of the code are made explicit with decide-checked counter-examples: inner pattern nodes without children (empty_internal_counterexample) and unnamed pattern tokens written directly after $$$, which are never compared (ellipsis_trivia_counterexample; cst_strict gives the strict reading when there are none). Tie to the code: near-miss patterns cut from other nodes, 5 strictness levels, mutated sources with syntax errors, 23 languages; outcome, bindings and get_match_len replayed on the model.",
    "note": "Trusted: Lean kernel + standard axioms; harness/driver glue; tree-sitter trees are data. The defect found while building this check (get_match_len underflow when no token was matched) is repaired in /repo (fix: commit) and recorded in KNOWN_FINDINGS.jsonl as fixed.",
    "technique": "Lean 4 proof by simultaneous fuel induction over the six mutually recursive matcher functions against an inductive alignment relation + differential correspondence",
}
