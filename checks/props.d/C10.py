"""C10 — editing a parsed document is indistinguishable from parsing the edited text."""
ENTRY = {
    "lean_modules": ["AstGrepVerif.Props.C10"],
    "theorems": [
        "AGV.C10.acceptEdit_ok_iff",
        "AGV.C10.acceptEdit_text",
        "AGV.C10.runHistory_text",
        "AGV.C10.edit_history_text",
        "AGV.C10.spliceSeq_eq_spliceAll",
        "AGV.C10.inputEdit_correct",
        "AGV.C10.inputEdit_new_end_point",
        "AGV.C10.positionForOffset_append",
        "AGV.C10.positionForOffset_newline",
        "AGV.C10.positionForOffset_multibyte",
        "AGV.C10.editEnd_twice_ne",
        "AGV.C10.editTree_twice_ne",
        "AGV.C10.editTree_twice_ne_after",
        "AGV.C10.doEdit_misdescribes",
        "AGV.C10.doEdit_counterexample",
        "AGV.C10.editTree_twice_eq_of_same_length",
        "AGV.C10.doEdit_length_preserving_partial",
        "AGV.C10.doEditFixed_tree",
        "AGV.C10.history_fixed_tree",
        "AGV.C10.history_length_preserving_partial",
    ],
    "units": ["editdoc", "edittree"],
    "timeout": 14400,
    "trusted_base": [
        "modelled, not verified: position_for_offset, String::accept_edit, perform_edit, Root::do_edit, AstGrep::edit/replace (matcher and replacer are parameters: the edit `Node::replace` returns is data)",
        "tree-sitter 0.25.3 ts_tree_edit / ts_subtree_edit is transcribed as a position rule on absolute byte ranges (editStart / editEnd); tied to the real `tree.edit` (applied once and twice to real parsed trees, hook trace_edit) by unit edittree",
        "the parser (tree-sitter, 23 grammars) is a parameter: its incremental-parsing contract (ReparseContract) is a hypothesis of history_fixed_tree, exercised only by the differential oracle c10_tree",
        "intermediate texts of a history are compared by length + FNV-1a-64, the final text in full",
    ],
    "assumptions": [
        "texts shorter than 2^32 bytes (`as u32` casts and u32 row/column counters of accept_edit); String edits on character boundaries (accept_edit writes through `as_mut_vec`)",
        "Content = String (utf-8, the CLI / library default); the utf-16 and Vec<char> implementations of accept_edit in napi / wasm are outside /repo's core crate and not modelled",
        "TSParseError from the re-parse is an outcome of the model (EditFail.parseError) that the harness never observed (no timeout / cancellation flag is set)",
    ],
}
MANIFEST = {
    "text": "Lean theorems over the executable model of String::accept_edit / perform_edit / Root::do_edit / AstGrep::edit+replace and of tree-sitter's ts_tree_edit position rule. TEXT clause in full: an edit fails exactly when out of range, the new text is the documented splice, after any history of edit/replace calls the text is the splices applied in order (acceptEdit_ok_iff, acceptEdit_text, edit_history_text, spliceSeq_eq_spliceAll). EDIT DESCRIPTION in full for texts < 4 GiB: the six InputEdit fields satisfy tree-sitter's documented requirements (offsets ordered and in range, texts equal outside the region, the three points are (row, byte column) of the offsets in the old / old / new text, the region is the inserted text; inputEdit_correct), the new end point is point_add(start point, extent of the inserted text), a line break resets the column, multi-byte characters count with all their bytes (inputEdit_new_end_point, positionForOffset_append/_newline/_multibyte). TREE clause: for the current code (fix fa0b302: the second tree.edit in Root::do_edit removed) the tree clause holds for every history of error-free texts PROVIDED tree-sitter keeps its incremental-parsing contract (doEditFixed_tree, history_fixed_tree; the contract is an explicit hypothesis, exercised only by the differential oracle). For the released v0.37.0 code it is NOT provable and refuted (kept as regression theorems): Root::do_edit applies the description to the old tree twice, which differs from one application for every length-changing edit and every tree with a node ending after the edit, and makes a root spanning the text describe a document of the wrong length (editTree_twice_ne, doEdit_misdescribes, concrete witness doEdit_counterexample = JSON `[1, 22, 333]` minus `1, `); only length-preserving edits are unaffected (doEdit_length_preserving_partial, history_length_preserving_partial). Tied to the code by random edit histories (1-6 edits: duplicate / delete items with their lines, real `replace` calls by kind and by pattern, white space and line breaks, multi-byte comments, leaf renames) on corpus documents of all 23 languages concatenated to 5-20 KB, every intermediate text error-free: text and InputEdit of the real accept_edit = model at every step; the real tree.edit applied once and twice to parsed trees = editTree; and the property's oracle: DFS dump (kind, byte range, points, named, child count) of the edited document = fresh parse.",
    "note": "FINDING H10 (repaired in /repo, fix: fa0b302: the second tree.edit in Root::do_edit removed): on v0.37.0 92% of the generated histories (all 23 languages) ended in a tree different from the fresh parse (ERROR nodes, lost / duplicated nodes, ranges beyond the end of the text; minimal: `[1, 22, 333]` minus `1, ` gives document [0..6]). KNOWN FINDING after the fix (tree-sitter, not ast-grep): an edit that removes the context of a keyword (`elif` in bash, `else` in C) so that a fresh parse reads the untouched word as a plain name makes the incremental parse re-use the keyword token and yield an ERROR node (about 1 in 13 000 generated edits). Trusted: Lean kernel + 3 axioms, harness/driver/check.py glue, tree-sitter as a parameter.",
    "technique": "Lean 4 proof over hand-written executable model against an independent specification (documented splice + TSInputEdit requirements) + counter-example by evaluation + differential correspondence through cfg-guarded hooks + differential oracle (incremental vs fresh parse)",
}
