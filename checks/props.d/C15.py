"""C15 — a rule runs on a file exactly when language, globs and severity say so."""
ENTRY = {
    "lean_modules": ["AstGrepVerif.Props.C15"],
    "theorems": [
        "AGV.C15.generated_ext_table_agrees",
        "AGV.C15.generated_ext_lookup_agrees",
        "AGV.C15.generated_inject_table_agrees",
        "AGV.C15.ext_table_functional",
        "AGV.C15.builtin_lang_iff",
        "AGV.C15.fromPath_precedence",
        "AGV.C15.langGlobs_order_dependent_counterexample",
        "AGV.C15.langGlobs_sorted_order_irrelevant",
        "AGV.C15.langGlobs_order_irrelevant_partial",
        "AGV.C15.effective_severity_spec",
        "AGV.C15.effective_severity_doc_counterexample",
        "AGV.C15.effective_severity_spec_partial",
        "AGV.C15.applies_iff",
        "AGV.C15.walker_filter_agrees",
        "AGV.C15.walker_filter_alias_counterexample",
        "AGV.C15.exit_iff_error",
        "AGV.C15.exit_load_error",
    ],
    "units": ["select_unit", "select_cli"],
    "timeout": 1800,
    "trusted_base": [
        "modelled, not verified: Path::file_name/extension (unix), SupportLang::from_path/extensions, DynamicLang::from_path, lang_globs::{register_impl, from_path}, SgLang::{from_path, file_types, augmented_file_type}, filter_file_rule, RuleCollection::{try_new, add_tenured_rule, get_rule_from_lang}, ContingentRule::matches_path, read_severity, RuleOverwrite::{new, find, process_configs}, clap's collection of --error/--warning/--info/--hint/--off occurrences, unused_suppression_rule_config, ScanWithConfig::produce_item error counting, ErrorContext::exit_code (0/1/2/9)",
        "generated tables: extension table (SupportLang::file_types), the from_path look-up on every extension, injectable languages",
        "parameters of the model (assumed, exercised with the real components in the correspondence): globset (files/ignores), ignore::types (languageGlobs, walker type filter), the ignore walker (hidden directories skipped, type whitelist beats the hidden-file rule, every file visited once), regex (--filter), parser/matcher/suppression (number of unsuppressed matches per rule and document)",
    ],
    "assumptions": [
        "scan invoked from the project root with the default path `.`, non-interactive, no --rule/--inline-rules, no ignore files in the project, no I/O error during the walk",
        "custom (dynamic) languages are modelled but not exercised end to end (no parser library available offline)",
        "paths and globs are valid UTF-8",
    ],
}
MANIFEST = {
    "text": "Lean theorems over the executable model of rule selection, for every project, command line and path: applies_iff (a rule is handed to the scan of a document of a file iff it is a project rule kept by --filter, its effective severity is not off, its language is the file's language (language globs, then custom, then built-in extension) or one embedded in it, a `files` glob matches when present and no `ignores` glob matches), effective_severity_spec (flag naming the rule > bare flag > own severity; weakest of several wins; exact characterisation of the implemented reading, with the documented reading proved under NoMixedFlags and refuted by a concrete witness for `--error --error=ID`), exit_iff_error (exit != 0 iff load error (2: filter selects nothing, 9: bad glob) or an unsuppressed finding of effective severity error / an unused suppression raised to error), ext_table_functional (no extension claimed by two built-in languages, by kernel evaluation over the table regenerated from the real functions), walker_filter_agrees (the walker's type filter never hides a file from a rule that applies to it), langGlobs: the registered vector and hence the language of every path is invariant under permutation of the languageGlobs map now that register_impl sorts by key (langGlobs_sorted_order_irrelevant; the unsorted registration is refuted by langGlobs_order_dependent_counterexample); walker_filter_agrees needs that no two languageGlobs keys name the same language (walker_filter_alias_counterexample: get_types only uses the first entry of a language). The glob engines, the --filter regex and the matcher are parameters; the correspondence instantiates them with the real globset / ignore::types / regex and compares RuleCollection::for_path in-process and `sg scan --json=stream` on generated projects (rule ids and counts per file, exit code) with the model.",
    "note": "Trusted: Lean kernel + 3 standard axioms; harness/driver/check.py glue; globset, ignore (walker and types), regex, tree-sitter as parameters. Known findings: bare --SEV is lost when --SEV=ID also occurs; with two languageGlobs keys for one language the walker's type filter only contains the globs of the first. H21 (hash-order dependent language for overlapping languageGlobs) is repaired by 1c5d0c8.",
    "technique": "Lean 4 proof over hand-written executable model + separate relational spec + differential correspondence (in-process RuleCollection with real globset; real CLI on generated projects, one process per project) + generated extension table checked by `decide +kernel`",
}


# slice inspect: the CLI's own accounting of files and rules (`--inspect`), tied to the worker and selection models
ENTRY["lean_modules"] += ["AstGrepVerif.Props.Inspect"]
ENTRY["theorems"] += ['AGV.Inspect.applied_iff_select', 'AGV.Inspect.applied_iff_spec', 'AGV.Inspect.applied_count_line', 'AGV.Inspect.finding_has_applied_rule', 'AGV.Inspect.mem_scanDocLangs', 'AGV.Inspect.rule_counts', 'AGV.Inspect.effective_le_total', 'AGV.Inspect.rule_skipped_iff_off_partial', 'AGV.Inspect.rule_skipped_filter_counterexample', 'AGV.Inspect.rule_line_never_off', 'AGV.Inspect.tryNew_length']
ENTRY["units"] += ["inspect"]
ENTRY["trusted_base"] += ["slice inspect — modelled, not verified: utils/inspect.rs (Granularity ordering, FileTrace counters, print/print_file/print_rules as abstract lines), where the counters are bumped in run_worker, filter_file_rule / collect_file_stats / filter_file_pattern, produce_item of run and scan, read_directory_yaml / with_rule_stats rule counts; assumed: a trace line is written atomically (output Mutex), the summary is printed after every walker thread is done (channel closed), stderr writes do not fail; the walker's choice of paths is Model/Select.walkerVisits (scan) / Inspect.runWalkerVisits (run), exercised not proved"]

# slice project: project discovery (sgconfig.yml search, --config), rule-file loading (ruleDirs / utilDirs walk) and the source of the rules of a scan (--rule / --inline-rules / project, --filter)
ENTRY["lean_modules"] += ["AstGrepVerif.Props.Project"]
ENTRY["theorems"] += ['AGV.Project.discover_nearest', 'AGV.Project.discover_none', 'AGV.Project.config_flag_overrides', 'AGV.Project.setup_project', 'AGV.Project.setup_no_project', 'AGV.Project.setup_unreadable_shadows', 'AGV.Project.walkDir_mem', 'AGV.Project.walkRoot_mem', 'AGV.Project.loadList_ok_iff', 'AGV.Project.loadList_error', 'AGV.Project.rules_exact', 'AGV.Project.readDirs_cons', 'AGV.Project.rules_exact_dirs', 'AGV.Project.duplicate_ids_all_kept', 'AGV.Project.loaded_twice_counterexample', 'AGV.Project.rule_conflicts', 'AGV.Project.rule_source', 'AGV.Project.inline_source', 'AGV.Project.no_project_error', 'AGV.Project.filter_exact', 'AGV.Project.no_filter_all', 'AGV.Project.inline_ignores_filter_counterexample']
ENTRY["units"] += ["project"]
ENTRY["trusted_base"] += ["project slice (Model/Project, unit project) - modelled, not verified: find_config_path_with_default, ProjectConfig::{discover_project, setup, find_rules}, build_util_walker, find_util_rules, read_directory_yaml, read_rule_file, config_file_type, into_map (last document of an id wins), ScanArg's clap conflicts, ScanWithConfig::try_new (source of the rules), filter_rule_by_regex, ErrorContext::exit_code for the loading errors; parameters: read_to_string (UTF-8), serde_yaml on sgconfig.yml, from_yaml_string and parse_global_utils (Model/Loader, Model/GlobalLoader), the verdict of ignore files, the --filter regex; the file system is a tree whose child lists are in readdir order (the harness reads the temp project back with std::fs::read_dir); the serial walker of the `ignore` crate is modelled from its observed behaviour (root never filtered, hidden directories pruned, type whitelist *.yml/*.yaml beats the hidden-file rule, readdir order, depth first); path resolution of --config / -r / the current directory, symbolic links, I/O errors inside a walk, customLanguages / languageGlobs / languageInjections registration are outside the model"]
MANIFEST["text"] += " Project slice (Model/Project, Props/Project, unit project): which configuration and which rule files a scan uses — discover_nearest / discover_none (without --config the project directory is the nearest ancestor-or-self directory of the start directory holding an entry sgconfig.yml; none up to the root = no project, which only fails a scan without --rule/--inline-rules, exit 2), config_flag_overrides, setup_project, setup_unreadable_shadows (a nearer sgconfig.yml that is a directory or not UTF-8 is an error, the search does not go on); rules_exact / rules_exact_dirs (a document is loaded iff it is a document of a ruleDirs entry naming a file, or of a file named *.yml / *.yaml reachable below a ruleDirs entry through directories that are neither hidden nor excluded by an ignore file — hidden FILES with a rule extension are loaded; nothing else is loaded, the result is the concatenation in ruleDirs and walk order), duplicate_ids_all_kept (documents sharing an id are all kept, no error, no winner), loaded_twice_counterexample (a file reached through two ruleDirs entries is loaded twice), rule_conflicts / rule_source / inline_source / no_project_error / filter_exact / no_filter_all (--rule excludes --inline-rules and --filter; --rule and --inline-rules are parsed without the project's global utilities and never read the rule directories; --filter keeps exactly the project documents whose id matches, none = exit 2), inline_ignores_filter_counterexample (known finding: with --inline-rules the filter and the severity flags are ignored; same for the severity flags with --rule). Correspondence: 600 generated temp projects (800 CLI processes) per quick run, `agv-sg scan --inspect entity` vs the model given the tree as std::fs::read_dir lists it: same rule list in the same order with the same final severities and project directory, or the same error class, path and exit status."

# project slice, follow-up: no rule file is loaded twice
ENTRY["theorems"] += ['AGV.Project.Dir.get_uniqueNames', 'AGV.Project.lookup_uniqueNames', 'AGV.Project.At_head', 'AGV.Project.walk_nodup', 'AGV.Project.walkRoot_nodup', 'AGV.Project.RuleFileOf_prefix', 'AGV.Project.rules_files_once', 'AGV.Project.rules_loaded_once', 'AGV.Project.rules_loaded_once_count', 'AGV.Project.loaded_twice_overlaps']
MANIFEST["text"] += " None twice: walk_nodup (unique child names: one walk yields no path twice), rules_loaded_once / rules_loaded_once_count (pairwise non-overlapping ruleDirs: every rule file contributes its documents exactly once; loaded_twice_overlaps: the hypothesis is necessary)."
