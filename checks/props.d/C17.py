"""C17 — files are processed independently, whatever the thread count or schedule."""
ENTRY = {
    "lean_modules": ["AstGrepVerif.Props.C17", "AstGrepVerif.Props.C18Interleave"],
    "theorems": [
        "AGV.C17.items_self_contained",
        "AGV.C17.item_buffer_contiguous",
        "AGV.C17.schedule_irrelevant",
        "AGV.C17.alone_result",
        "AGV.C17.union_of_single_file_runs",
        "AGV.C17.thread_count_irrelevant",
        "AGV.C17.skip_isolated",
        "AGV.C17.readFile_skip_iff",
        "AGV.C17.stream_records_unique",
        "AGV.Worker.interleave_perm",
        "AGV.Worker.isInterleave_sound",
        "AGV.C18.processPayloadFixed_other",
        "AGV.C18.processPayloadFixed_same",
        "AGV.C18.updateAllFixedFrom_project",
        "AGV.C18.update_interleaving_irrelevant",
        "AGV.C18.update_same_per_file_same_files",
    ],
    "units": ["read_file", "worker_trees"],
    "timeout": 3600,
    "trusted_base": [
        "modelled, not verified: run_worker (producer/consumer shape), read_file + file_too_large, JSONPrinter::before_print/process/after_print, JSONProcessor::print_docs, consume_items of run/scan (error counter, exit status), FileTrace counters",
        "assumed, not modelled: the `ignore` walker hands every eligible file to exactly one thread, once (Run.Valid.partition); std::sync::mpsc is FIFO per sender, lossless, duplicate-free (Run.Valid.channel); atomics are linearizable (Run.Valid.atomics); serde_json serialises one record as one non-empty JSON value without raw newline in compact mode; stdout writes do not fail",
        "records are compared as JSON values (keys sorted): the byte order of `metaVariables.single` keys and the order of the per-rule items of one file come out of hash maps and differ per process (C13's subject); the model leaves the per-file item order free (SendsOf)",
    ],
    "assumptions": [
        "produce_item is a function of the file alone, up to the order of its items (no cross-file state besides the error counter): sampled by the oracle `tree run = union of single-file runs`",
        "a panic in a producer thread is not a skip: the consumer then waits forever (reported under C11, hypothesis H2)",
        "real scheduling is sampled (-j 1,2,4,8,16, repeated, nice/taskset perturbation in the thorough tier), not enumerated; the theorems quantify over all schedules of the model",
    ],
}
MANIFEST = {
    "text": "Lean theorems over the executable model of the walker-threads -> channel -> single-printer pipeline, for every thread count, every partition of the files among the threads, every per-file item order, every interleaving in the channel and every linearisation of the error counter: the printed output is the well-formed JSON array / JSON-lines rendering (specification Spec/JsonOut.render, written from the --json documentation) of a permutation of the union over the files of their records, each file contributing exactly once; error count, exit status, scanned and skipped counters are those of the union (schedule_irrelevant, thread_count_irrelevant, union_of_single_file_runs); making one file unreadable/empty/oversized removes exactly its records and errors and keeps the output well-formed (skip_isolated); a record never straddles two buffers and each buffer is a contiguous block of the output whatever the arrival order (items_self_contained, item_buffer_contiguous); read_file skips exactly unreadable / non-UTF-8 / empty / (>3,000,000 bytes AND >200,000 lines) files (readFile_skip_iff); stream output determines its records uniquely (stream_records_unique). 'Any interleaving of lists is a permutation of their concatenation' is proved from the inductive definition with core List.Perm only. Correspondence: generated trees of 50-400 files with planted faults (chmod 000 via uid drop when root, empty, invalid UTF-8, one oversized, dangling symlinks) scanned by the real CLI (run/scan, three JSON styles, -j 1..16, repeated); per-file results from single-file runs of the same CLI; the model predicts stdout byte for byte, counters and exit status for each observed arrival order. The trees contain HTML files with an embedded script (handed to the JavaScript commands as injected documents) and rules whose `files:` / `ignores:` globs tell sibling files apart by name. A timeout counts as a hang only if the process is idle (no CPU time, every thread asleep over 3 s) or exceeds four times the limit.",
    "note": "Trusted: Lean kernel + 3 standard axioms; harness/driver/check.py glue; walker, mpsc, atomics and serde_json contracts are hypotheses of the theorems (Run.Valid, RecordsNonEmpty) sampled by the oracle; real thread schedules are sampled, not enumerated.",
    "technique": "Lean 4 proof over hand-written executable model (inductive interleavings, Perm) + end-to-end differential correspondence through the real CLI with fault injection + property oracle (union of single-file runs, exit status equal across thread counts, stdout parses)",
}


# slice inspect: the CLI's own accounting of files and rules (`--inspect`), tied to the worker and selection models
ENTRY["lean_modules"] += ["AstGrepVerif.Props.Inspect"]
ENTRY["theorems"] += ['AGV.Inspect.counts_exact', 'AGV.Inspect.counts_partition_iff', 'AGV.Inspect.counts_exact_partial', 'AGV.Inspect.counts_exact_doc_counterexample', 'AGV.Inspect.scanned_counts_unread_counterexample', 'AGV.Inspect.counts_schedule_irrelevant', 'AGV.Inspect.entity_lines_schedule_irrelevant', 'AGV.Inspect.trace_schedule_irrelevant', 'AGV.Inspect.summary_trace_schedule_irrelevant', 'AGV.Inspect.entity_lines_once_run', 'AGV.Inspect.entity_lines_once_run_spec', 'AGV.Inspect.entity_lines_scan', 'AGV.Inspect.entity_lines_once_scan_partial', 'AGV.Inspect.entity_lines_once_scan_counterexample', 'AGV.Inspect.entity_lines_skipped_scan_counterexample', 'AGV.Inspect.scan_skipped_iff', 'AGV.Inspect.scan_scanned_iff', 'AGV.Inspect.scan_skipped_no_finding', 'AGV.Inspect.run_skipped_no_finding', 'AGV.Inspect.findings_only_from_unskipped', 'AGV.Inspect.sequential_valid', 'AGV.Inspect.partition_valid', 'AGV.Inspect.exRun_valid']
ENTRY["units"] += ["inspect"]
ENTRY["trusted_base"] += ["slice inspect — modelled, not verified: utils/inspect.rs (Granularity ordering, FileTrace counters, print/print_file/print_rules as abstract lines), where the counters are bumped in run_worker, filter_file_rule / collect_file_stats / filter_file_pattern, produce_item of run and scan, read_directory_yaml / with_rule_stats rule counts; assumed: a trace line is written atomically (output Mutex), the summary is printed after every walker thread is done (channel closed), stderr writes do not fail; the walker's choice of paths is Model/Select.walkerVisits (scan) / Inspect.runWalkerVisits (run), exercised not proved"]
