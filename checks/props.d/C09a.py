"""C09a — findings half of C09 (to be merged into C09.py): all front ends report the same findings."""
ENTRY = {
    "lean_modules": ["AstGrepVerif.Props.C09a", "AstGrepVerif.Props.C07"],
    "theorems": [
        "AGV.C09a.frontends_same_findings",
        "AGV.C09a.scan_reports_spec",
        "AGV.C09a.stdin_eq_file",
        "AGV.C09a.stdin_runs_off_rules_example",
        "AGV.C09a.test_valid_iff_no_finding",
        "AGV.C09a.test_off_rule",
        "AGV.C09a.message_subst",
        "AGV.C07.replace_verbatim",
    ],
    "units": ["template_fix", "frontends_findings"],
    "trusted_base": [
        "modelled, not verified (shallow model of plumbing): RuleCollection::try_new (drops severity off), ScanWithConfig::produce_item / ScanStdin::parse_stdin (which rules are registered), match_rule_on_file, RuleConfig::get_message (= fix-template expansion of the message over the rule's transform names, C07), cloud_print::print_rule (hint skipped, one-based lines), CaseStatus::verify_valid + rule lookup in the RuleCollection, Backend::get_diagnostics, convert_match_to_diagnostic, get_non_empty_message",
        "which code base the harness is linked against (pinned / with FIX_C09) is decided by one probe (`scan --stdin` with a single off rule)",
        "the harness' parsers of the CLI outputs (three JSON styles, `::level file=..` annotations with multi-line messages, the `PASS/FAIL id  ..N` summary lines of sg test after stripping colour codes) and its LSP client",
    ],
    "assumptions": [
        "the matches of each rule on the text and their environments are data taken from the library in-process (find_all per rule): that CombinedScan's per-kind dispatch reports exactly these is C01; texts contain no suppression comments (C14); the divergence `sg test` ignores suppression comments is observed on the real CLI (info op test_ignores_suppression) and outside the theorem",
        "rule sets of one language: `scan --stdin` parses the text in the language of the first rule and applies every rule's kind ids to that tree (mixed-language rule sets are outside the quantifier; the code has a TODO for a soft error)",
        "the three JSON styles print the same records and differ in framing only (C16 JsonFrame); they are one model function and three end-to-end comparisons",
    ],
}
MANIFEST = {
    "text": "Findings half of C09. Lean theorems over a shallow executable model of which rules each front end registers and how a match becomes a record: for every rule set and text whose matched nodes lie in the text, `scan` on a file reports exactly the triples (rule id, byte range, message with variables substituted) of the rules that are not off (scan_reports_spec against the independent Spec.Reported), `scan --stdin` reports the same list when no rule is off or with FIX_C09 (stdin_eq_file; H17 is the decide witness stdin_runs_off_rules_example for the pinned code), the language server publishes one diagnostic per finding with the same id and (line, character) range and the documented message decoration, the GitHub format one annotation per finding above hint with one-based lines (frontends_same_findings); a `valid` case of sg test passes iff scan reports nothing for that rule (test_valid_iff_no_finding; off rules have no verdict); the message is the template with each $VAR replaced by the captured text / transformed value (message_subst, instance of C07 replace_verbatim). Tied to the code end to end: ~100 rule sets (1-3 rules, all severities including off, notes, empty messages, transforms, multi-line captures) x 4 texts through agv-sg scan --json=stream|pretty|compact, --format github, --stdin --inline-rules, sg test, and the in-process language server; compared pairwise (oracle) and with the model (correspondence).",
    "note": "H17 confirmed on the pinned code and repaired by FIX_C09 (ScanStdin skips severity-off rules). Shallow model; assurance mostly from the end-to-end comparison.",
    "technique": "Lean 4 proof over hand-written executable model + differential correspondence and pairwise oracle through the real CLI and an in-process language server",
}
