"""C18 — `--update-all` writes exactly the announced edits and nothing else."""
ENTRY = {
    "lean_modules": ["AstGrepVerif.Props.C18", "AstGrepVerif.Props.C18Fixed"],
    "theorems": [
        "AGV.C18.update_single_payload",
        "AGV.C18.update_one_payload_per_file",
        "AGV.C18.multi_payload_counterexample",
        "AGV.C18.multi_payload_counterexample_observed",
        "AGV.C18.update_multi_payload_partial",
        "AGV.C18.update_multi_payload_single_active",
        "AGV.C18.update_multi_payload_fixed",
        "AGV.C18.multi_payload_fixed_witness",
        "AGV.C06.processDiffs_sorted",
        "AGV.C06.processDiffs_keeps_first",
        "AGV.C06.processDiffs_drop_reason",
        "AGV.C06.splice_no_panic",
        "AGV.C06.splice_preserves_outside",
    ],
    "units": ["interactive", "update_cli"],
    "trusted_base": [
        "modelled, not verified: InteractivePrinter::process/process_diffs/rewrite_action/after_print, process_diffs_interactive (accept-all), apply_rewrite, the one-payload-per-document structure of ScanWithConfig::produce_item / run.rs produce_item / filter_file_rule / filter_file_pattern",
        "the grouping of announced --json edits into payloads (file, document; pre-order of matched nodes, rule id) is harness glue: a wrong grouping shows up as a model disagreement on the real CLI run",
        "std::fs::write replaces the whole file content (OS file system)",
    ],
    "assumptions": [
        "files are not modified by a third party between scan and write; the `ignore` walker visits each file once",
        "interactive (non accept-all) answers and the `--stdin` print branch are not modelled",
        "update_idempotent_when_fix_stable (repeated invocation) is not stated: a second run re-derives edits from the new text",
    ],
}
MANIFEST = {
    "text": "Lean theorems over the executable model of the --update-all printer (one payload per document, each spliced from its own snapshot, counter = accepted diffs): for any run in which every file has one payload the property holds in full — each file becomes spliceAll(old, accepted), accepted = announced minus those starting before the end of an earlier accepted one, 'Applied N' = number of edits present, exactly the files with an accepted edit are written, all others untouched (update_single_payload, update_one_payload_per_file). For files with several document payloads (HTML host + <script>/<style>) the current code (fix fad81bd: the edits of all documents of a file are merged, filtered once and spliced into one text) satisfies the full statement: update_multi_payload_fixed (file = spliceAll(old, accepted over all documents), counter = number of edits present, written set = files with an accepted edit), with multi_payload_fixed_witness for non-vacuity. The pinned v0.37.0 behaviour is kept as regression theorems: multi_payload_counterexample (both edits counted, the last write wins over the ORIGINAL text), update_multi_payload_partial, update_multi_payload_single_active. Tied to the code by the hook on InteractivePrinter::process on temp files and by real CLI runs (`run -p -r`/`scan` with --json=stream, then -U on a copy; several rules per file, overlapping fixes, expandEnd, HTML with host + script + style fixes): model prediction = observed files/count/written set, and the property itself is checked against the announced edits.",
    "note": "Finding H13 (a file with >=2 document payloads each having an accepted edit kept only the last document's edits while all were counted) is repaired in /repo (fix: fad81bd) and the driver replays the repaired model. Trusted: Lean kernel + 3 axioms, harness/driver/check.py glue, OS file system.",
    "technique": "Lean 4 proof over hand-written executable state machine + counter-example by evaluation + differential correspondence (hook and real CLI end to end) + property oracle on announced vs written bytes",
}
