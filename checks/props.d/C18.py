"""C18 — `--update-all` writes exactly the announced edits and nothing else."""
ENTRY = {
    "lean_modules": ["AstGrepVerif.Props.C18", "AstGrepVerif.Props.C18Fixed"],
    "theorems": [
        "AGV.C18.update_single_payload",
        "AGV.C18.update_one_payload_per_file",
        "AGV.C18.multi_payload_counterexample",
        "AGV.C18.multi_payload_counterexample_observed",
        "AGV.C18.update_multi_payload_partial",
        "AGV.C18.update_multi_payload_single_active",
        "AGV.C18.update_multi_payload_fixed",
        "AGV.C18.multi_payload_fixed_witness",
        "AGV.C06.processDiffs_sorted",
        "AGV.C06.processDiffs_keeps_first",
        "AGV.C06.processDiffs_drop_reason",
        "AGV.C06.splice_no_panic",
        "AGV.C06.splice_preserves_outside",
    ],
    "units": ["interactive", "update_cli"],
    "trusted_base": [
        "modelled, not verified: InteractivePrinter::process/process_diffs/rewrite_action/after_print, process_diffs_interactive (accept-all), apply_rewrite, the one-payload-per-document structure of ScanWithConfig::produce_item / run.rs produce_item / filter_file_rule / filter_file_pattern",
        "the grouping of announced --json edits into payloads (file, document; pre-order of matched nodes, rule id) is harness glue: a wrong grouping shows up as a model disagreement on the real CLI run",
        "std::fs::write replaces the whole file content (OS file system)",
    ],
    "assumptions": [
        "files are not modified by a third party between scan and write; the `ignore` walker visits each file once",
        "interactive (non accept-all) answers and the `--stdin` print branch are not modelled",
        "update_idempotent_when_fix_stable (repeated invocation) is not stated: a second run re-derives edits from the new text",
    ],
}
MANIFEST = {
    "text": "Lean theorems over the executable model of the --update-all printer (one payload per document, each spliced from its own snapshot, counter = accepted diffs): for any run in which every file has one payload the property holds in full — each file becomes spliceAll(old, accepted), accepted = announced minus those starting before the end of an earlier accepted one, 'Applied N' = number of edits present, exactly the files with an accepted edit are written, all others untouched (update_single_payload, update_one_payload_per_file). For files with several document payloads (HTML host + <script>/<style>) the full statement is refuted by a concrete witness (multi_payload_counterexample: both edits counted, the last write wins over the ORIGINAL text) and the exact behaviour is proved instead (update_multi_payload_partial: last writer wins, counter sums all; update_multi_payload_single_active: the property holds when only one document proposes fixes). Tied to the code by the hook on InteractivePrinter::process on temp files and by real CLI runs (`run -p -r`/`scan` with --json=stream, then -U on a copy; several rules per file, overlapping fixes, expandEnd, HTML with host + script + style fixes): model prediction = observed files/count/written set, and the property itself is checked against the announced edits.",
    "note": "KNOWN FINDING (H13): a file with >=2 document payloads each having an accepted edit keeps only the last document's edits while all are counted. Trusted: Lean kernel + 3 axioms, harness/driver/check.py glue, OS file system.",
    "technique": "Lean 4 proof over hand-written executable state machine + counter-example by evaluation + differential correspondence (hook and real CLI end to end) + property oracle on announced vs written bytes",
}
