"""C08 — one rule, one fix: every front end proposes the same edit."""
ENTRY = {
    "lean_modules": ["AstGrepVerif.Props.C08", "AstGrepVerif.Props.C06", "AstGrepVerif.Props.Verify"],
    "theorems": [
        "AGV.C08.forwarding_ok",
        "AGV.C08.forwarding_pinned_counterexample",
        "AGV.C08.cliEdit_spec",
        "AGV.C08.edits_agree_cli_snapshot_lib",
        "AGV.C08.lib_by_value_agrees",
        "AGV.C08.edits_agree_partial",
        "AGV.C08.snapshot_expand_counterexample",
        "AGV.C08.snapshot_expand_counterexample_observed",
        "AGV.C08.edits_agree_run_lib",
        "AGV.C08.run_trims",
        "AGV.C08.rule_never_trims",
        "AGV.C08.lsp_agrees_full",
        "AGV.C08.lsp_agrees_partial",
        "AGV.C08.lsp_expand_counterexample",
        "AGV.C08.one_rule_one_fix",
        "AGV.C08.snapshotFixed_spec",
        "AGV.position_order_iso",
        "AGV.C08.fixAll_eq_updateAll",
        "AGV.C08.fixAll_eq_updateAll_partial",
        "AGV.C08.fixAll_nested_counterexample",
        "AGV.C08.fixAll_expand_counterexample",
        "AGV.C06.processDiffs_sorted",
        "AGV.C06.fixer_expanded_range",
        "AGV.Verify.fixed_is_cli_edit",
    ],
    "units": ["edit_range", "interactive", "frontends_edit", "c06_cli"],
    "trusted_base": [
        "modelled, not verified (shallow model of plumbing): the Replacer/Matcher trait dispatch reached by Diff::generate, Node::replace, AstGrep::replace, TestSnapshot::generate, RewriteData::from_node_match; diagnostic_to_code_action; compute_all_fixes (sort + overlap filter); accept_edit's splice; process_diffs/apply_rewrite (C06/C18)",
        "which code base the harness is linked against (pinned / with FIX_C08) is decided by behaviour on three minimal inputs (probe_variant); every other case is checked against the matching variant of the model",
        "the harness' LSP client (JSON-RPC framing over a tokio duplex stream, answering workspace/workspaceFolders, converting (line, character) back to bytes with a reference written from the LSP documentation), YAML/JSON parsing of the CLI outputs and of __snapshots__/*.yml",
        "hypotheses of fixAll_eq_updateAll (matches in pre-order; node and sibling borders start characters and lie in the text) are tree-sitter contract facts; the end-to-end oracle update/lsp-fixall checks the conclusion on the real server and CLI on texts with multi-byte characters and CRLF",
    ],
    "assumptions": [
        "which nodes match, the verdicts of the expansions' rules on the siblings and the expanded template text are data taken from the library in-process (C01-C07 are about them); that the CLI and the server find the same matches is checked by the oracle pairs json/lib-matches and json/lsp-diagnostic",
        "one rule per project: which of several rules' fixes fix-all keeps when two rules match at the same position depends on HashMap iteration order in the server (outside this property's quantifier; see REPORT)",
        "JSON-RPC transport, snapshot file I/O, tower-lsp dispatch are not modelled; `sg run -p` trimming is proved equal to the library call in the model and covered for the real code by C06's edit_range unit, not by a CLI run here",
    ],
}
MANIFEST = {
    "text": "Test runner (Model/Verify): fixed_is_cli_edit — the `fixed` value of every generated / updated snapshot is exactly what TestSnapshot::generate returns, the runner never alters it. Lean theorems over a shallow, executable model of the front ends' plumbing (which Replacer/Matcher implementation each front end reaches get_replaced_range/get_match_len through; what the language server does with it), in two variants: the pinned v0.37.0 code (regression theorems) and the current code (fix ca4b136). For the current code: scan --json/-U, the `fixed` text of sg test snapshots, Node::replace (fixer by value or by reference) and the LSP quick fix build the edit the documentation describes (Spec.ruleEdit: node extended to the siblings selected by expandStart/expandEnd, expanded template) for every rule and match (one_rule_one_fix, edits_agree_cli_snapshot_lib, lsp_agrees_full, forwarding_ok, snapshotFixed_spec); sg run and library calls with a Pattern trim identically while rules never trim (edits_agree_run_lib, run_trims, rule_never_trims); LSP fix-all keeps, position for position, the sub-list of edits that --update-all keeps, using byte order = (line, character) order on one text (fixAll_eq_updateAll, position_order_iso). For the pinned code the full statements are refuted by concrete witnesses and the provable restrictions are stated: &Fixer falls back to the default range so snapshots / AstGrep::replace ignore expansions (forwarding_pinned_counterexample, snapshot_expand_counterexample), the LSP quick fix ignores expansions (lsp_expand_counterexample, H12), fix-all keeps the inner of two matches that start together while -U keeps the outer (fixAll_nested_counterexample); without expansions / with distinct starts everything agrees on either code base (edits_agree_partial, lsp_agrees_partial, fixAll_eq_updateAll_partial). Tied to the code end to end: ~300 generated rules (string and object fix, expandStart/expandEnd with every stopBy form, transforms, multi-line templates, nested same-start matches, trailing punctuation) x 3 JavaScript texts (multi-byte, CRLF) through agv-sg scan --json, scan -U, test -U (snapshot `fixed`), Node::replace / AstGrep::replace in-process and an in-process tower-lsp server (publishDiagnostics data, quick-fix and fix-all code actions applied to the text); the outputs are compared pairwise (oracle, fingerprint = pair + expansion + same-start class) and with the model's prediction (correspondence).",
    "note": "Three divergences found on the pinned code, all repaired in /repo by fix ca4b136 (core replacer.rs forwards get_replaced_range through &T; lsp utils.rs/lib.rs use the fixer's range and order same-start matches outermost first). The theorems are about a faithful but shallow model of plumbing; the assurance comes mostly from the end-to-end comparison. Trusted: Lean kernel + 3 axioms, harness LSP client / parsers, driver, check.py.",
    "technique": "Lean 4 proof over hand-written executable model (two code variants, counter-examples by evaluation) + differential correspondence and pairwise property oracle through the real CLI, the library API and an in-process language server",
}


# slice lsp_requests: the request layer of the language server (code actions, fix-all, executeCommand) over sessions
ENTRY["lean_modules"] += ["AstGrepVerif.Props.LspRequests"]
ENTRY["theorems"] += [
    "AGV.LspRequests.quickfix_of_diagnostic",
    "AGV.LspRequests.quickfix_fresh",
    "AGV.LspRequests.quickfix_stale_counterexample",
    "AGV.LspRequests.fixall_eq_execute",
    "AGV.LspRequests.fixall_ordered_disjoint",
    "AGV.LspRequests.selectsFixAll_iff",
    "AGV.LspRequests.only_fixall_complete",
    "AGV.LspRequests.only_fixall_response",
    "AGV.LspRequests.only_fixall_complete_holds",
    "AGV.LspRequests.only_sound_partial",
    "AGV.LspRequests.only_unrequested_counterexample",
    "AGV.LspRequests.routing_eq_pinned",
    "AGV.LspRequests.only_fixall_complete_pinned_partial",
    "AGV.LspRequests.only_unrequested_pinned_counterexample",
    "AGV.LspRequests.only_fixall_hierarchy_counterexample",
    "AGV.LspRequests.only_source_counterexample",
]
ENTRY["units"] += ["lsp_requests"]
ENTRY["trusted_base"] += [
    "slice lsp_requests: modelled, not verified: on_code_action, quickfix_code_action, diagnostic_to_code_action, RewriteData::from_value / replaced_range, fix_all_code_action, compute_all_fixes, on_execute_command, on_apply_all_fix(_impl), report_error; the analysis of a text (the model's parameter `analyse`) is the real get_diagnostics taken from a second in-process server instance with the same rules; the harness' JSON-RPC client (framing, barrier by workspace/didChangeConfiguration, answering workspace/workspaceFolders and workspace/applyEdit), the classification of an executeCommand outcome by its log line, and the driver's decoding of wire diagnostics (source / code / data as serde reads them) are trusted glue",
    "slice lsp_requests: rule sets are built so that no two RULES match the same node (the order of the published diagnostics of different rules comes from a HashMap); `range` of a codeAction request is always (0,0)-(0,0) (the server never reads it)",
]
