"""C14 — suppression comments silence exactly the findings they name, nothing else."""
ENTRY = {
    "lean_modules": ["AstGrepVerif.Props.C14"],
    "theorems": [
        "AGV.C14.parse_set_spec",
        "AGV.C14.names_iff",
        "AGV.C14.parse_empty_list_counterexample",
        "AGV.C14.ownLine_agree",
        "AGV.C14.ownLine_disagree_multiline",
        "AGV.C14.silenced_only_if_named",
        "AGV.C14.others_unaffected",
        "AGV.C14.suppress_iff_partial",
        "AGV.C14.unused_only_if_silent",
        "AGV.C14.unused_iff_partial",
        "AGV.C14.suppress_collision_counterexample",
        "AGV.C14.unused_collision_counterexample",
        "AGV.C14.Fixed.suppress_iff_full",
        "AGV.C14.Fixed.unused_iff_full",
        "AGV.C14.Fixed.others_unaffected",
        "AGV.C14.Fixed.collision_fixed",
        "AGV.C14.scan_partition",
        "AGV.C14.scan_unused",
    ],
    "units": ["suppress_parse", "suppress_scan", "suppress_cli", "c14_oracle"],
    "trusted_base": [
        "modelled, not verified: parse_suppression_set, Suppressions::collect / suppression_ids / check_suppression, MaySuppressed::suppressed_id(s), the suppression part of CombinedScan::scan, ScanResultInner::into_result (crates/config/src/combined.rs)",
        "two models: Model/Suppress.lean = the pinned code (one suppression per governed line), Model/SuppressFixed.lean = the code after FIX_C14.patch; the harness replays the H11 witness on the code under test and compares with the model of the variant it finds (op names suppress_scan / suppress_scan_fixed)",
        "assumed, not modelled: tree-sitter (the harness extracts from the real tree what the code reads: kind, text, start/end line, previous sibling's lines of every node that can pass the comment filter) and rule matching (findings = match_node of every rule on every node, C01's concern)",
        "the CLI end-to-end ops assume project mode with the default unused-suppression severity (hint)",
        "the --update-all oracle family looks at lines only (single-line statements and fixes): which lines must stay byte-identical, which comments must survive / disappear; how overlapping fixes are combined is C06/C18's concern",
    ],
    "assumptions": [
        "theorems are stated for inputs satisfying WellFormed: suppression comments are single-line, on their own line or after single-line siblings (SingleLineLayout, evaluated by the harness on every suppression node of every generated tree), id lists are well formed (a colon is followed by at least one id), rule ids are non-empty",
        "the specification speaks about the nodes whose kind contains `comment`; grammars that nest such a node inside the comment node (Lua comment_content, Rust doc_comment) make one source comment two abstract comments (recorded finding)",
    ],
}
MANIFEST = {
    "text": "Lean theorems over an executable model of the suppression pass of CombinedScan::scan, for arbitrary lists of comment nodes and findings: the id-list parser returns exactly the ids the directive lists (comma-separated after the first colon, Unicode white space trimmed), `None` = all rules when there is no colon (parse_set_spec); the code's previous-sibling test is the textual own-line notion under a stated single-line-layout hypothesis (ownLine_agree, with a counter-example outside it); a finding is never silenced unless a governing comment names its rule and a comment is never reported unused unless it silenced nothing (silenced_only_if_named, unused_only_if_silent, no side condition); findings on ungoverned lines are reported (others_unaffected); for the current code (fix 7f6712a: all suppressions governing a line are kept) `reported <-> not suppressed` and `unused reported <-> silenced nothing` are proved in full (Fixed.suppress_iff_full, Fixed.unused_iff_full); for the pinned v0.37.0 per-line table they hold when at most one comment governs a line (suppress_iff_partial, unused_iff_partial) and are refuted by a concrete witness when two do (suppress_collision_counterexample) — kept as regression theorems. Tie to the code: ~40k texts through the real parse_suppression_set (hook), ~8.5k generated sources in JavaScript, Python, Rust, Lua and CSS (every placement of up to three comments around a statement line, id lists with spaces, duplicates, unknown ids, empty lists, no colon, block and doc comments, 1-4 rules, several findings per line) through the real CombinedScan::scan and ~1.2k through the real CLI, replayed on the Lean driver; the property itself is checked on the implementation's output by a reference working on the generator's layout, for separate_fix = false and true with fixable and non-fixable rules mixed (findings delivered in ScanResult.diffs are findings too), and end to end through `scan --update-all` on a temp copy (suppressed findings of fixable rules are not rewritten, the comments that silence them survive, unused suppressions are removed).",
    "note": "Trusted: Lean kernel + 3 standard axioms; harness/driver/check.py glue; tree-sitter and rule matching are inputs of the model. Known findings (not repaired): `ast-grep-ignore:` with an empty list suppresses nothing; id lists inside block comments pick up the closing delimiter; Lua comments and Rust doc comments contain a nested comment-kind node that is treated as a second suppression.",
    "technique": "Lean 4 proof over hand-written executable model (as-is and post-fix variants) + declarative specification + differential correspondence (in-process API, hook, real CLI) + layout-level oracle with minimisation",
}


# round 11: the unit `lsp_requests` also runs under this property
ENTRY["units"] += ["lsp_requests"]
