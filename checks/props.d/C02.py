"""C02 — code with holes matches the code it was cut from, binding each hole exactly."""
ENTRY = {
    "lean_modules": ["AstGrepVerif.Props.C02", "AstGrepVerif.Props.Tables"],
    "theorems": [
        "AGV.Tables.match_terminal_table_agrees",
        "AGV.Tables.skip_trailing_table_agrees",
        "AGV.Tables.skip_goal_table_agrees",
        "AGV.Tables.error_kind_agrees",
        "AGV.C02.self_match",
        "AGV.C02.cut_matches_from",
        "AGV.C02.cut_matches",
        "AGV.C02.cut_matches_ellipsis",
        "AGV.C02.holesOK_of_noMissing",
        "AGV.C02.cutFuel_le_matchFuel",
    ],
    "units": ["cut"],
    "trusted_base": [
        "modelled, not verified: match_node_impl / match_nodes_impl_recursive / may_match_ellipsis_impl / match_single_node_while_skip_trivial, MatchStrictness tables, MetaVarEnv::insert / insert_multi, does_node_match_exactly, convert_node_to_pattern (as the structural `cut`)",
        "tree-sitter parses the holed pattern text to the same shape as the code: a hypothesis, checked per case (`cut_shape` op: real Pattern.node = cut of the real tree); cases failing the guard are not judged",
    ],
    "assumptions": [
        "NoMissing / HolesOK (decidable; measured per case by the driver): holes are named nodes with distinct names, each placed once; a `$$$` run is followed only by unnamed leaf tokens",
    ],
}
MANIFEST = {
    "text": "Lean theorems (Props/C02.lean) over the transcribed matcher state machine, for every tree, source, hole placement and all five strictness levels, with explicit fuel bound cutFuel t = 4*size t <= matchFuel: self_match (hole-free code matches itself from any environment and binds nothing), cut_matches (each $NAME is bound to a named node with exactly the byte range it replaced), cut_matches_ellipsis (a trailing $$$NAME is bound to exactly the replaced run of siblings), with decide-checked counter-examples showing each hypothesis is needed. Tie to the code: on every run the real Pattern::try_new(...).node is compared with the model's structural cut for cut patterns over the 23-language corpus, and Pattern::match_node / get_match_len outcomes and bindings are replayed on the Lean model (5 strictness levels); the property oracle (must match, every hole bound to the node with the hole's byte range) runs on the implementation alone. The cut is also written as a contextual pattern (context = holed text, selector = kind of the cut node, admitted on the hole-free text): it must match the node and bind the holes — in every corpus language, so that the `$` rewriting of contextual patterns is exercised.",
    "note": "Trusted: Lean kernel + standard axioms; harness/driver glue; tree-sitter (parser is a parameter: trees are dumped and handed to the model). Whether a holed text parses to the same shape is the property's own hypothesis and is measured, not proved.",
    "technique": "Lean 4 proof by structural induction over trees on a fuel-indexed transcription of match_node.rs + differential correspondence on real trees of 23 languages",
}


# slice structural: contextual patterns (`Pattern::contextual`: context + selector)
ENTRY["lean_modules"] += ["AstGrepVerif.Props.Structural"]
ENTRY["theorems"] += ["AGV.Structural." + t for t in [
    "contextual_is_first_of_kind", "contextual_none_iff", "contextualPattern_spec", "contextualNode_single", "contextual_selector_self"]]
ENTRY["units"] += ["structural"]
ENTRY["trusted_base"] += [
    "slice structural — modelled, not verified: Pattern::contextual, Pattern::try_new, single_matcher, is_single_node, convert_node_to_pattern, extract_var_from_node (matcher/pattern.rs), KindMatcher::try_new (kind.rs), find_node (matcher.rs: first hit of dfs(); dfs() = pre-order is C19's pre_eq_preorder); the private root_kind is observed through Pattern::potential_kinds; id_for_node_kind and the set of kinds with an empty name are tables of the grammar handed to the model",
]


# round 11: the unit `injection` also runs under this property
ENTRY["units"] += ["injection"]
