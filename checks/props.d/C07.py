"""C07 — fix templates substitute captured code verbatim and keep relative indentation."""
ENTRY = {
    "lean_modules": ["AstGrepVerif.Props.C07", "AstGrepVerif.Props.C07Case"],
    "theorems": [
        "AGV.C07.text_as_lines",
        "AGV.C07.indentAt_spec",
        "AGV.C07.long_line_rule",
        "AGV.C07.indentLines_shift",
        "AGV.C07.indentLines_shift_text",
        "AGV.C07.relative_indent_kept",
        "AGV.C07.deindent_reindent_id",
        "AGV.C07.blank_line_counterexample",
        "AGV.C07.under_indented_counterexample",
        "AGV.C07.first_line_kept_example",
        "AGV.C07.first_line_kept_end_to_end",
        "AGV.C07.createTemplate_fragments",
        "AGV.C07.replace_verbatim",
        "AGV.C07.capture_reindented",
        "AGV.C07.rewrite_to_self_noop",
        "AGV.C07.rewrite_to_self_noop_A",
        # the `convert` transformation (string_case.rs)
        "AGV.StringCase.split_eq_bsplit",
        "AGV.C07.mem_sepChars",
        "AGV.C07.caseSplit_iff",
        "AGV.C07.ascii_tables",
        "AGV.C07.non_ascii_tables",
        "AGV.C07.split_eq_spec",
        "AGV.C07.split_concat",
        "AGV.C07.split_words",
        "AGV.C07.splitRanges_valid",
        "AGV.C07.delimit_keeps_inv",
        "AGV.C07.delimit_no_underflow",
        "AGV.C07.split_lower_word",
        "AGV.C07.lowerCase_length",
        "AGV.C07.lowerCase_idem",
        "AGV.C07.upperCase_length",
        "AGV.C07.upperCase_length_ascii",
        "AGV.C07.upperCase_length_counterexample",
        "AGV.C07.upperCase_idem",
        "AGV.C07.snake_no_upper",
        "AGV.C07.kebab_no_upper",
        "AGV.C07.snake_letters",
        "AGV.C07.kebab_letters",
        "AGV.C07.snake_idempotent_partial",
        "AGV.C07.kebab_idempotent_partial",
        "AGV.C07.snake_idempotent_counterexample",
        "AGV.C07.snake_idempotent_seps_counterexample",
        "AGV.C07.upstream_tests",
        "AGV.C07.regression_identifiers",
        "AGV.C07.regression_non_ascii",
    ],
    "units": ["indent", "template_fix", "template_scan", "c07_oracle", "convert_case"],
    "trusted_base": [
        "modelled, not verified: get_indent_at_offset, indent_lines, indent_lines_impl, remove_indent, extract_with_deindent, formatted_slice (indent.rs); split_first_meta_var, create_template, replace_fixer, maybe_get_var, TemplateFix::generate_replacement (replacer.rs, template.rs); MetaVarEnv::insert_transformation, get_var_bytes_impl (meta_var.rs); Fixer::with_transform forwarding (fixer.rs); StringCase::apply, capitalize, split, Delimiter::{all, from, delimit, conclude}, join, join_camel_case (config/src/transform/string_case.rs)",
        "the harness reads the environment of a match through the public API (get_matched_variables / get_match / get_multiple_matches / get_transformed) and hands it to the model as byte ranges and strings",
    ],
    "assumptions": [
        "Content = String (bytes); every built-in language uses `$` as meta_var_char (generated table, C20)",
        "indentation = number of leading U+0020; tabs are content (the code's own TODO); lines are separated by U+000A, a CR stays at the end of its line",
        "captured ranges are node ranges inside the source (tree-sitter contract); the transformed strings are taken from the implementation's environment as data: the transformations substring/replace themselves are outside this slice (substring: C20); `convert` is modelled (Model/StringCase.lean) on an explicit alphabet: ASCII, é/É à/À ü/Ü ñ/Ñ ö/Ö, ß, 中, € (Unicode case tables of Rust's std are trusted there and not modelled elsewhere: inputs outside the alphabet are answered \"outside\" by the model and skipped); offsets are counted in characters, the code's byte offsets are their images",
        "the clause on relative indentation is proved under WellIndented (every continuation line indented at least as far as the line the snippet starts on), a decidable predicate checked per case by the oracle; two proved counter-examples (blank line, under-indented line) show the restriction is needed; no condition on the first line of the snippet since repair e39e245 (remove_indent keeps line 0)",
    ],
}
MANIFEST = {
    "text": "Lean theorems over the executable model of indent.rs / template.rs, for all byte strings: get_indent_at_offset = leading spaces of the offset's line when the line start is visible in the last 512 bytes, else 0 (indentAt_spec, long_line_rule); indent_lines on a multi-line snippet keeps the first line and changes the indentation of every continuation line by new-orig with content unchanged, for all three orderings (indentLines_shift, relative_indent_kept); de-indent then re-indent is the identity (deindent_reindent_id) and the template `$A` bound to the matched node reproduces the node text at every indentation of the match site (rewrite_to_self_noop); end to end a multi-line capture inserted at template column c into a match at indentation I_m has its continuation lines moved from I_src to c+I_m (capture_reindented); the scanner's fragments interleaved with the recognised spellings are exactly the template (createTemplate_fragments) and for single-line captures the replacement is the fragments interleaved with the exact captured slices / transformed strings / nothing for unbound variables, shifted to the match site (replace_verbatim). Hypotheses are decidable predicates with non-vacuity examples; two kernel-checked counter-examples (blank line, under-indented line) show they are needed and are replayed on the real code, and the repaired first-line defect (e39e245) is kept as a kernel-checked regression witness replayed on the real code. The model is tied to the code by ~22k function-level ops through hooks (byte strings with spaces/newlines/CRLF/multi-byte text, systematic sweep of the 512-byte look-back boundary, slice panics) and ~6k end-to-end ops through the public API (Pattern / rule YAML with transform, TemplateFix / Fixer, generate_replacement, insert_transformation) in 5 languages (7 thorough), six layout styles, indentations 0-12. The `convert` transformation (string_case.rs) is modelled branch by branch (Delimiter state machine, separators, the seven cases) and proved, for all strings: split yields exactly the words of a specification that decides every word start from a four-character window of the input (after a separator; upper-case letter not after a non-lower-case character; last of two or more non-lower-case characters before a lower-case letter) instead of a carried state (split_eq_spec), the words of split concatenated are the input minus exactly the enabled separator characters, words are non-empty and separator-free, every sliced range is valid, lowerCase/upperCase are idempotent and length-preserving (upperCase: without ß), snake/kebab output has no upper-case letter and keeps the letters, and snakeCase is idempotent on letters and separators (kernel-checked counter-example with digits: a12B, base64URL -> base64url -> base6_4url); every upstream test assertion is a kernel-checked fact. It is tied to the code by ~189k `convert_case` ops through rules loaded from YAML (all strings up to length 3-4 over a/B/C/1/_/-/space/./slash/é/É, length 5-6 over a reduced alphabet, ß/中/€, identifiers, 9 separator sets, 7 cases) plus the oracle convert-case (letters and digits of the output, case-folded, are those of the input). Oracles on the implementation: rewrite-to-self = identity on every well-indented node of every generated tree, line-by-line relative indentation, verbatim single-line substitution.",
    "note": "Trusted: Lean kernel + 3 standard axioms; harness/driver/check.py glue; tree-sitter (only supplies node ranges). Tabs are not indentation for the code (documented TODO) and so not for the spec. The computation of substring/replace/rewrite is outside this slice; Rust's Unicode case tables are trusted outside the alphabet of Model/StringCase.lean.",
    "technique": "Lean 4 proof over hand-written executable model, against an independent line-level specification + differential correspondence (hooks and public API, seeded) + implementation-side property oracles with witness replay",
}


# slice structural: the structural replacer (a parsed tree as replacement; library-only entry point)
ENTRY["lean_modules"] += ["AstGrepVerif.Props.Structural"]
ENTRY["theorems"] += ["AGV.Structural." + t for t in [
    "structural_substitutes", "varEdits_valid", "collect_eq", "merge_eq_segments", "unbound_var_kept", "varBytes_none",
    "empty_ellipsis_kept", "empty_ellipsis_kept_counterexample", "structural_eq_template_partial", "structural_eq_template_example",
    "structural_ne_template_unbound_counterexample", "structural_ne_template_indent_counterexample", "structural_missing_abort_witness",
    "structural_example"]]
ENTRY["units"] += ["structural"]
ENTRY["trusted_base"] += [
    "slice structural — modelled, not verified: gen_replacement, collect_edits, merge_edits_to_vec, get_meta_var_replacement (replacer/structural.rs), impl Replacer for Root<D> (replacer.rs), get_var_bytes_impl (meta_var.rs); Node::next() is read as tree-sitter 0.25.3 ts_node_next_sibling (following siblings of zero width are passed over); the harness reads the environment of the match through the public API and hands it to the model as node ids of the dumped document; the replacement tree is dumped through the Node API (the parser is a parameter)",
]
ENTRY["assumptions"] += [
    "structural_substitutes is proved for replacement trees with well-formed ranges (RangesWF), without MISSING tokens (NoMissing) and without zero-width nodes (PositiveWidth); the model itself covers them (kernel-checked witness structural_missing_abort_witness) and is compared with the code on such trees too; what the structural replacer does with unbound variables, empty `$$$` captures, `$` spellings in expando languages and variables whose node has named children differs from the template replacer (counter-example theorems) and is no clause of C07 (fix templates): measured by the unit (info ops), not judged",
]
