"""C07 — fix templates substitute captured code verbatim and keep relative indentation."""
ENTRY = {
    "lean_modules": ["AstGrepVerif.Props.C07"],
    "theorems": [
        "AGV.C07.text_as_lines",
        "AGV.C07.indentAt_spec",
        "AGV.C07.long_line_rule",
        "AGV.C07.indentLines_shift",
        "AGV.C07.indentLines_shift_text",
        "AGV.C07.relative_indent_kept",
        "AGV.C07.deindent_reindent_id",
        "AGV.C07.blank_line_counterexample",
        "AGV.C07.under_indented_counterexample",
        "AGV.C07.first_line_kept_example",
        "AGV.C07.first_line_kept_end_to_end",
        "AGV.C07.createTemplate_fragments",
        "AGV.C07.replace_verbatim",
        "AGV.C07.capture_reindented",
        "AGV.C07.rewrite_to_self_noop",
        "AGV.C07.rewrite_to_self_noop_A",
    ],
    "units": ["indent", "template_fix", "template_scan", "c07_oracle"],
    "trusted_base": [
        "modelled, not verified: get_indent_at_offset, indent_lines, indent_lines_impl, remove_indent, extract_with_deindent, formatted_slice (indent.rs); split_first_meta_var, create_template, replace_fixer, maybe_get_var, TemplateFix::generate_replacement (replacer.rs, template.rs); MetaVarEnv::insert_transformation, get_var_bytes_impl (meta_var.rs); Fixer::with_transform forwarding (fixer.rs)",
        "the harness reads the environment of a match through the public API (get_matched_variables / get_match / get_multiple_matches / get_transformed) and hands it to the model as byte ranges and strings",
    ],
    "assumptions": [
        "Content = String (bytes); every built-in language uses `$` as meta_var_char (generated table, C20)",
        "indentation = number of leading U+0020; tabs are content (the code's own TODO); lines are separated by U+000A, a CR stays at the end of its line",
        "captured ranges are node ranges inside the source (tree-sitter contract); the transformed strings are taken from the implementation's environment as data: the transformations substring/replace/convert themselves are outside this slice (substring: C20)",
        "the clause on relative indentation is proved under WellIndented (every continuation line indented at least as far as the line the snippet starts on), a decidable predicate checked per case by the oracle; two proved counter-examples (blank line, under-indented line) show the restriction is needed; no condition on the first line of the snippet since repair e39e245 (remove_indent keeps line 0)",
    ],
}
MANIFEST = {
    "text": "Lean theorems over the executable model of indent.rs / template.rs, for all byte strings: get_indent_at_offset = leading spaces of the offset's line when the line start is visible in the last 512 bytes, else 0 (indentAt_spec, long_line_rule); indent_lines on a multi-line snippet keeps the first line and changes the indentation of every continuation line by new-orig with content unchanged, for all three orderings (indentLines_shift, relative_indent_kept); de-indent then re-indent is the identity (deindent_reindent_id) and the template `$A` bound to the matched node reproduces the node text at every indentation of the match site (rewrite_to_self_noop); end to end a multi-line capture inserted at template column c into a match at indentation I_m has its continuation lines moved from I_src to c+I_m (capture_reindented); the scanner's fragments interleaved with the recognised spellings are exactly the template (createTemplate_fragments) and for single-line captures the replacement is the fragments interleaved with the exact captured slices / transformed strings / nothing for unbound variables, shifted to the match site (replace_verbatim). Hypotheses are decidable predicates with non-vacuity examples; two kernel-checked counter-examples (blank line, under-indented line) show they are needed and are replayed on the real code, and the repaired first-line defect (e39e245) is kept as a kernel-checked regression witness replayed on the real code. The model is tied to the code by ~22k function-level ops through hooks (byte strings with spaces/newlines/CRLF/multi-byte text, systematic sweep of the 512-byte look-back boundary, slice panics) and ~6k end-to-end ops through the public API (Pattern / rule YAML with transform, TemplateFix / Fixer, generate_replacement, insert_transformation) in 5 languages (7 thorough), six layout styles, indentations 0-12. Oracles on the implementation: rewrite-to-self = identity on every well-indented node of every generated tree, line-by-line relative indentation, verbatim single-line substitution.",
    "note": "Trusted: Lean kernel + 3 standard axioms; harness/driver/check.py glue; tree-sitter (only supplies node ranges). Tabs are not indentation for the code (documented TODO) and so not for the spec. The transformations' own computation is outside this slice.",
    "technique": "Lean 4 proof over hand-written executable model, against an independent line-level specification + differential correspondence (hooks and public API, seeded) + implementation-side property oracles with witness replay",
}
