"""C06 — rewrites touch only what was matched: edits are well-formed and local."""
ENTRY = {
    "lean_modules": ["AstGrepVerif.Props.C06"],
    "theorems": [
        "AGV.C06.processDiffs_sorted",
        "AGV.C06.processDiffs_prefix_stable",
        "AGV.C06.processDiffs_drop_reason",
        "AGV.C06.processDiffs_keeps_first",
        "AGV.C06.processDiffs_id_of_ordered",
        "AGV.C06.processDiffs_inverted_range_counterexample",
        "AGV.C06.applyRewrite_eq_splice",
        "AGV.C06.splice_no_panic",
        "AGV.C06.applyRewrite_ok_only_if",
        "AGV.C06.splice_closed_form",
        "AGV.C06.splice_preserves_outside",
        "AGV.C06.newPos_strictMono",
        "AGV.C06.splice_length",
        "AGV.C06.splice_utf8",
        "AGV.C06.applyRewrite_utf8",
        "AGV.C06.rewrite_makeEdit_eq_splice",
        "AGV.C06.rewrite_joinBy_eq",
        "AGV.C06.rewrite_makeEdit_underflow_panics",
        "AGV.C06.edit_in_node",
        "AGV.C06.replaceBy_exact",
        "AGV.C06.diffOfEdit_wf",
        "AGV.C06.expand_monotone",
        "AGV.C06.fixer_expanded_range",
    ],
    "units": ["interactive", "rewrite_splice", "edit_range", "c06_cli", "update_cli"],
    "trusted_base": [
        "modelled, not verified: process_diffs_interactive (accept-all), apply_rewrite, InteractivePrinter::process/rewrite_action, transform/rewrite.rs make_edit + joinBy branch, Replacer::get_replaced_range, Fixer::get_replaced_range, expand_start/expand_end, StopBy::find, NodeMatch::replace_by/make_edit, Diff::generate",
        "hypotheses of the range theorems checked on the implementation by oracle c06_range / c06_cli on every generated match: match length <= node length (C03), previous siblings start before / next siblings end after the node (tree-sitter contract), node offsets on char boundaries",
        "Rust's UTF-8 encoder satisfies LeadContEnc (lead byte + continuation bytes): checked on all scalar values (thorough) / every 7th (quick) by oracle utf8_interface",
    ],
    "assumptions": [
        "which nodes match (the matcher, the non-reentrant visit of Node::replace_all, rule evaluation on siblings) is outside this property's model: siblings carry the verdicts as data; replace_all's ordered/disjoint edits are checked by oracle only (theorem replaceAll_ordered_disjoint needs the traversal model of C01/C19)",
        "String::from_utf8_lossy at the end of Rewrite::compute is not modelled (identity on the valid UTF-8 the oracle observes)",
    ],
}
MANIFEST = {
    "text": "Lean theorems over the executable model, for all texts and all diff lists: the CLI's accept-all filter returns a sub-list that is ordered and disjoint for ANY input list with non-inverted ranges, keeps the first of any overlapping pair, drops a diff only when it starts before the end of an earlier accepted one and leaves an ordered list unchanged (processDiffs_sorted/_keeps_first/_drop_reason/_id_of_ordered; inverted ranges are a proved counter-example); apply_rewrite equals the independent specification `spliceAll` (apply one edit at a time, last first) and cannot panic on filtered, in-range, char-boundary ranges (applyRewrite_eq_splice, splice_no_panic, with the converse applyRewrite_ok_only_if); every byte outside the ranges is preserved at an explicit, strictly monotone new position and lengths add up (splice_preserves_outside, newPos_strictMono, splice_length); splicing commutes with any per-character encoder, so char-boundary ranges with encoded replacements give an encoding (splice_utf8, applyRewrite_utf8); the rewriter's make_edit/joinBy use the same greedy filter and equal spliceAll / the joined kept replacements relative to the capture (rewrite_makeEdit_eq_splice, rewrite_joinBy_eq); default edit range starts at the match and ends inside it given the match-length bound, expansions only widen to matched sibling borders (edit_in_node, expand_monotone, fixer_expanded_range). Tied to the code by hooks on process_diffs_interactive/apply_rewrite/InteractivePrinter::process and the rewriter's make_edit (generated diff lists: ordered, overlapping, nested, adjacent, unsorted, inverted, off-boundary, out-of-range, multi-byte), end-to-end Rewrite::compute and Fixer::get_replaced_range with expandStart/expandEnd, and real CLI --json runs.",
    "note": "Trusted: Lean kernel + 3 standard axioms; harness/driver/check.py glue. The matcher and traversal are parameters (verdicts are data). replace_all's ordered/disjoint property is oracle-checked only.",
    "technique": "Lean 4 proof over hand-written executable model against an independent splice specification + differential correspondence through cfg-guarded hooks and the real CLI",
}
