"""C06 — rewrites touch only what was matched: edits are well-formed and local."""
ENTRY = {
    "lean_modules": ["AstGrepVerif.Props.C06", "AstGrepVerif.Props.C06ReplaceAll"],
    "theorems": [
        "AGV.C06.processDiffs_sorted",
        "AGV.C06.processDiffs_prefix_stable",
        "AGV.C06.processDiffs_drop_reason",
        "AGV.C06.processDiffs_keeps_first",
        "AGV.C06.processDiffs_id_of_ordered",
        "AGV.C06.processDiffs_inverted_range_counterexample",
        "AGV.C06.applyRewrite_eq_splice",
        "AGV.C06.splice_no_panic",
        "AGV.C06.applyRewrite_ok_only_if",
        "AGV.C06.splice_closed_form",
        "AGV.C06.splice_preserves_outside",
        "AGV.C06.newPos_strictMono",
        "AGV.C06.splice_length",
        "AGV.C06.splice_utf8",
        "AGV.C06.applyRewrite_utf8",
        "AGV.C06.rewrite_makeEdit_eq_splice",
        "AGV.C06.rewrite_joinBy_eq",
        "AGV.C06.rewrite_makeEdit_underflow_panics",
        "AGV.C06.rewrite_makeEditFixed_total",
        "AGV.C06.rewrite_makeEditFixed_eq_splice_clamped",
        "AGV.C06.makeEditFixed_eq_of_pinned_ok",
        "AGV.C06.rewrite_makeEditFixed_eq_splice",
        "AGV.C06.rewrite_joinByFixed_eq",
        "AGV.C06.rewrite_joinByFixed_total",
        "AGV.C06.joinByFixed_eq_of_pinned_ok",
        "AGV.C06.rewrite_computeFixed_total",
        "AGV.C06.rewriteComputeFixed_eq_of_pinned_ok",
        "AGV.C06.edit_in_node",
        "AGV.C06.replaceBy_exact",
        "AGV.C06.diffOfEdit_wf",
        "AGV.C06.expand_monotone",
        "AGV.C06.fixer_expanded_range",
        "AGV.C06.replaceAll_eq_outermost",
        "AGV.C06.replaceAll_ordered_disjoint",
        "AGV.C06.replaceAll_valid",
        "AGV.C06.replaceAll_preserves_outside",
        "AGV.C06.replaceAll_edits_of_matches",
        "AGV.C06.replaceAll_rewrites_every_outermost",
        "AGV.C06.patternLen_inside",
        "AGV.C06.replaceAll_pattern_valid",
    ],
    "units": ["interactive", "rewrite_splice", "edit_range", "c06_cli", "update_cli", "frontends_edit", "replace_all"],
    "trusted_base": [
        "modelled, not verified: process_diffs_interactive (accept-all), apply_rewrite, InteractivePrinter::process/rewrite_action, transform/rewrite.rs make_edit + joinBy branch, Replacer::get_replaced_range, Fixer::get_replaced_range, expand_start/expand_end, StopBy::find, NodeMatch::replace_by/make_edit, Diff::generate",
        "hypotheses of the range theorems checked on the implementation by oracle c06_range / c06_cli on every generated match: match length <= node length (C03), previous siblings start before / next siblings end after the node (tree-sitter contract), node offsets on char boundaries",
        "Rust's UTF-8 encoder satisfies LeadContEnc (lead byte + continuation bytes): checked on all scalar values (thorough) / every 7th (quick) by oracle utf8_interface",
    ],
    "assumptions": [
        "which nodes match (the matcher, rule evaluation on siblings) is outside this property's model: siblings carry the verdicts as data; Node::replace_all is modelled (Model/ReplaceAll = the overlap-free pre-order visit of C19 + make_edit) and its edits are proved ordered, disjoint and inside the node for every tree with well-formed ranges (Props/C06ReplaceAll), tied to the code by the op nav_replace_all of the unit replace_all (real replace_all with a kind matcher on documents of 23 languages, kinds that nest and kinds with touching nodes first) and the oracles replace-all / json/lib-replace-all (theorem replaceAll_ordered_disjoint needs the traversal model of C01/C19)",
        "String::from_utf8_lossy at the end of Rewrite::compute is not modelled (identity on the valid UTF-8 the oracle observes)",
    ],
}
MANIFEST = {
    "text": "Lean theorems over the executable model, for all texts and all diff lists: the CLI's accept-all filter returns a sub-list that is ordered and disjoint for ANY input list with non-inverted ranges, keeps the first of any overlapping pair, drops a diff only when it starts before the end of an earlier accepted one and leaves an ordered list unchanged (processDiffs_sorted/_keeps_first/_drop_reason/_id_of_ordered; inverted ranges are a proved counter-example); apply_rewrite equals the independent specification `spliceAll` (apply one edit at a time, last first) and cannot panic on filtered, in-range, char-boundary ranges (applyRewrite_eq_splice, splice_no_panic, with the converse applyRewrite_ok_only_if); every byte outside the ranges is preserved at an explicit, strictly monotone new position and lengths add up (splice_preserves_outside, newPos_strictMono, splice_length); splicing commutes with any per-character encoder, so char-boundary ranges with encoded replacements give an encoding (splice_utf8, applyRewrite_utf8); the rewriter's make_edit/joinBy use the same greedy filter and equal spliceAll / the joined kept replacements relative to the capture (rewrite_makeEdit_eq_splice, rewrite_joinBy_eq); the repaired rewriter splice (an edit that starts before or reaches beyond the captured text is clamped to it instead of panicking) is total -- for ALL texts, edit lists and offsets makeEditFixed/joinByFixed/rewriteComputeFixed return, never panic -- it equals spliceAll of the clamped kept edits, and it returns exactly what the released code returned wherever that one did not panic (rewrite_makeEditFixed_total, rewrite_makeEditFixed_eq_splice_clamped, makeEditFixed_eq_of_pinned_ok, rewrite_makeEditFixed_eq_splice, rewrite_joinByFixed_eq, rewrite_computeFixed_total; the released code's panic is kept as a regression fact: rewrite_makeEdit_underflow_panics); default edit range starts at the match and ends inside it given the match-length bound, expansions only widen to matched sibling borders (edit_in_node, expand_monotone, fixer_expanded_range). Tied to the code by hooks on process_diffs_interactive/apply_rewrite/InteractivePrinter::process and the rewriter's make_edit (generated diff lists: ordered, overlapping, nested, adjacent, unsorted, inverted, off-boundary, out-of-range, multi-byte; for the rewriter also edits before the start of, reaching beyond and positioned beyond the captured text), end-to-end Rewrite::compute (all arguments, and a single argument whose rewriter's expandStart/expandEnd leaves the captured text) and Fixer::get_replaced_range with expandStart/expandEnd, and real CLI --json runs. The library's overlap-free mode Node::replace_all is modelled too (Model/ReplaceAll: the non-reentrant pre-order visit proved in C19 + make_edit): replaceAll_eq_outermost, replaceAll_ordered_disjoint, replaceAll_valid, replaceAll_edits_of_matches, replaceAll_rewrites_every_outermost — for every tree with well-formed ranges and unique ids, every matcher and replacement, the edits are those of the outermost matches in document order (touching matches are all kept), ordered, disjoint, inside the node, each starting at its match and contained in it; replaceAll_pattern_valid discharges the get_match_len hypothesis for pattern matchers through C03 match_len_bounds. Tie: unit replace_all replays the real Node::replace_all (kind matchers, documents of 23 languages, kinds that nest and kinds whose nodes touch first) on the model.",
    "note": "Trusted: Lean kernel + 3 standard axioms; harness/driver/check.py glue. The matcher and traversal are parameters (verdicts are data). Node::replace_all: edits of the outermost matches, ordered and disjoint (replaceAll_ordered_disjoint), tied by nav_replace_all.",
    "technique": "Lean 4 proof over hand-written executable model against an independent splice specification + differential correspondence through cfg-guarded hooks and the real CLI",
}


# slice lsp_requests: the edits of the language server's fix-all (code action and command) over sessions
ENTRY["lean_modules"] += ["AstGrepVerif.Props.LspRequests"]
ENTRY["theorems"] += [
    "AGV.LspRequests.fixall_ordered_disjoint",
    "AGV.LspRequests.session_fixall_ordered_disjoint",
    "AGV.LspRequests.fixall_dropped_overlaps",
]
ENTRY["units"] += ["lsp_requests"]
ENTRY["trusted_base"] += [
    "slice lsp_requests: the analysis of a text (the model's parameter `analyse`) is the real get_diagnostics taken from a second in-process server instance with the same rules; the harness' JSON-RPC client (framing, barrier by workspace/didChangeConfiguration, answering workspace/workspaceFolders and workspace/applyEdit), the classification of an executeCommand outcome by its log line, and the driver's decoding of wire diagnostics (source / code / data as serde reads them) are trusted glue",
]
