"""C13 — results do not depend on map order, hash seeds, repetition or file order."""
ENTRY = {
    "lean_modules": ["AstGrepVerif.Props.C13", "AstGrepVerif.Props.Verify", "AstGrepVerif.Props.Injection"],
    "theorems": [
        "AGV.C13.getOrder_fuel_enough",
        "AGV.C13.topo_detects_cycles",
        "AGV.C13.getOrder_valid",
        "AGV.C13.getOrder_ok_iff_acyclic",
        "AGV.C13.getOrder_perm_invariant",
        "AGV.C13.getOrder_map_perm_invariant",
        "AGV.C13.getOrder_error_key_order_dependent",
        "AGV.C13.transform_order_irrelevant",
        "AGV.C13.transform_wrong_order_differs",
        "AGV.C13.combined_order_irrelevant",
        "AGV.C13.combinedOrder_unique",
        "AGV.C13.snapshot_canonical",
        "AGV.C13.constraints_order_irrelevant",
        "AGV.C13.constraints_order_irrelevant_names",
        "AGV.C13.nameLe_eq_rule",
        "AGV.C13.sortByName_eq_sortByLe",
        "AGV.C13.constraints_order_irrelevant_unsorted_counterexample",
        "AGV.C13.constraints_order_irrelevant_partial",
        "AGV.C13.captureFirst_local",
        "AGV.Verify.order_irrelevant_verdict",
        "AGV.Verify.untouched_snapshots",
        "AGV.Verify.no_update_no_write",
        "AGV.Verify.merged_spec",
        "AGV.Verify.readFile_writeMerged",
        "AGV.Verify.writeFile_same",
        "AGV.Verify.afromList_nodup",
        "AGV.Verify.update_then_pass_counterexample",
        "AGV.Verify.update_then_pass_canonical_example",
        "AGV.Injection.order_irrelevant_documents",
        "AGV.Injection.order_irrelevant",
        "AGV.Injection.order_of_documents_depends_on_enumeration_counterexample",
        "AGV.Injection.order_irrelevant_rules",
        "AGV.Injection.sorted_vector_unique",
        "AGV.Injection.sorted_vector_order_dependent_counterexample",
        "AGV.Verify.update_then_pass",
        "AGV.Verify.update_idempotent",
        "AGV.Verify.order_irrelevant_written",
        "AGV.Verify.order_irrelevant_written_perm",
        "AGV.Verify.stored_after_update",
        "AGV.Verify.mergedOf_lookup",
        "AGV.Verify.readFile_run_update",
        "AGV.Verify.alookup_loadSnapshots",
        "AGV.Verify.canonical_run",
        "AGV.Verify.results_eq",
    ],
    "units": ["topo", "c13_process", "verify_run", "injection"],
    "timeout": 1800,
    "trusted_base": [
        "modelled, not verified: TopologicalSort::{get_order, visit}, visit_dependent_rule_ids / Transformation::used_vars as dependency lists, Transform::apply_transform as a fold of key-writing steps, CombinedScan::new sort key (fix.is_some(), id), RuleCollection::for_path sort by id, ordered_map (BTreeMap) serialisation of snapshots, MetaVarEnv::match_constraints (collect, sort by name, loop)",
        "hash maps are association lists whose list order is the iteration order; invariance under hash seeds = invariance under permutations",
        "assumed: std HashMap iterates every key once; String Ord = byte-wise lexicographic; the transformation functions (substring/replace/convert/rewrite) are functions of the source variable's value",
    ],
    "assumptions": [
        "the hash seeds cannot be controlled from outside: order independence is proved for the model (all orders) and sampled on the implementation (fresh processes, fresh maps)",
        "utils_registration_irrelevant (H19, stale kind caches with shadowed utils) is not covered by this slice",
    ],
}
MANIFEST = {
    "text": "The rule-test runner is modelled too (Model/Verify: loader, per-case verdicts, reporter, -U accept, merge and write of snapshot files; Props/Verify): order_irrelevant_verdict (permuting test files and cases never changes the exit status), untouched_snapshots, no_update_no_write, merged_spec / readFile_writeMerged (closed form of every snapshot file after -U); update_then_pass (after -U the next run has no snapshot mismatch and the verdict of the non-snapshot part), update_idempotent (a second -U writes the same directory, list equality) and order_irrelevant_written (permuted test documents / cases / snapshot files: every file name holds the same file) are proved under CanonicalNames (every snapshot file is named <id>-snapshot.yml, ids distinct) and refuted without it (update_then_pass_counterexample = the recorded finding); oracles verify-update-then-pass, verify-update-idempotent, verify-order check the same on the implementation. Tie: unit verify_run runs the real run_test_rule_impl (hook, in-memory reporter, real files) on 220 generated projects. Lean theorems over the executable model, for all maps and all iteration orders: the dependency sort used for utils and transforms accepts exactly the acyclic maps whatever the hash order of keys or entries (getOrder_ok_iff_acyclic, getOrder_perm_invariant, getOrder_map_perm_invariant), a successful result lists every key once after its dependencies (getOrder_valid), a failure names a key on a cycle (topo_detects_cycles; which key is order dependent: getOrder_error_key_order_dependent), the recursion fuel is never exhausted; any two accepted orders of a transform map compute the same environment (transform_order_irrelevant, commuting steps + permutation induction); the dispatch order of CombinedScan is a function of the rule set given unique ids, for any sorting algorithm (combined_order_irrelevant, combinedOrder_unique); snapshot serialisation is invariant under permutation of entries (snapshot_canonical); match_constraints (since ec1c602: constrained captures sorted by variable name): the result is invariant under every permutation of the capture map, for arbitrary constraints (constraints_order_irrelevant; the un-sorted loop of the old code is refuted by constraints_order_irrelevant_unsorted_counterexample, which documents why the sort is there), and constraints with disjoint footprints commute in any case. Tie to the code: get_order through a hook on generated dependency maps (DAGs, cycles, self loops, unknown references, the map's own iteration order recorded), the rule loader with utils/transform maps, CombinedScan::new; whole-process differential: generated projects run in 8 fresh processes, with permuted YAML keys, redistributed rule files, other file creation order, and `test -U` followed by `test` with byte-identical snapshots.",
    "note": "Trusted: Lean kernel + 3 standard axioms; harness/driver/check.py glue. H20 (constraints sharing a new meta-variable made the match depend on the hash order) is repaired by ec1c602; the generated projects keep that rule class, so a regression shows as `c13 constraints=shared-var`.",
    "technique": "Lean 4 proof over hand-written executable model (DFS invariant, permutation induction, sorting uniqueness) + differential correspondence (hooked get_order with recorded hash order, rule loader, CombinedScan) + whole-process differential oracle on the real CLI",
}

# slice project: project discovery (sgconfig.yml search, --config), rule-file loading (ruleDirs / utilDirs walk) and the source of the rules of a scan (--rule / --inline-rules / project, --filter)
ENTRY["lean_modules"] += ["AstGrepVerif.Props.Project"]
ENTRY["theorems"] += ['AGV.Project.shuf_of_perm', 'AGV.Project.walk_perm', 'AGV.Project.loadList_perm', 'AGV.Project.order_irrelevant', 'AGV.Project.order_irrelevant_lookup', 'AGV.Project.order_irrelevant_failure', 'AGV.Project.error_order_dependent_counterexample', 'AGV.Project.duplicate_util_last_wins', 'AGV.Project.util_order_dependent_counterexample', 'AGV.Project.util_order_irrelevant_partial']
ENTRY["units"] += ["project"]
ENTRY["trusted_base"] += ["project slice (Model/Project, unit project) - modelled, not verified: find_config_path_with_default, ProjectConfig::{discover_project, setup, find_rules}, build_util_walker, find_util_rules, read_directory_yaml, read_rule_file, config_file_type, into_map (last document of an id wins), ScanArg's clap conflicts, ScanWithConfig::try_new (source of the rules), filter_rule_by_regex, ErrorContext::exit_code for the loading errors; parameters: read_to_string (UTF-8), serde_yaml on sgconfig.yml, from_yaml_string and parse_global_utils (Model/Loader, Model/GlobalLoader), the verdict of ignore files, the --filter regex; the file system is a tree whose child lists are in readdir order (the harness reads the temp project back with std::fs::read_dir); the serial walker of the `ignore` crate is modelled from its observed behaviour (root never filtered, hidden directories pruned, type whitelist *.yml/*.yaml beats the hidden-file rule, readdir order, depth first); path resolution of --config / -r / the current directory, symbolic links, I/O errors inside a walk, customLanguages / languageGlobs / languageInjections registration are outside the model"]
MANIFEST["text"] += ' Project slice (Props/Project, unit project): the rule files of a project are collected in readdir order, which the code does not sort — walk_perm / order_irrelevant / order_irrelevant_lookup / order_irrelevant_failure (for every re-ordering of the children of every directory below a rule directory, Shuf, which contains every permutation by shuf_of_perm: the walk yields a permutation of the same files, the load succeeds or fails alike, the loaded documents are a permutation, so set, multiplicities and every id-keyed selection agree); what does depend on the order: error_order_dependent_counterexample (with two broken files the reported error, its path and the exit status 5 vs 8 are those of the file listed first), duplicate_util_last_wins + util_order_dependent_counterexample (two utilDirs files declaring one id: the one listed last wins — known finding, reproduced on the real CLI by the oracle project-shuffle), util_order_irrelevant_partial (no two utility files share an id: every look-up in the map handed to parse_global_utils is order independent).'
