"""C13 — results do not depend on map order, hash seeds, repetition or file order."""
ENTRY = {
    "lean_modules": ["AstGrepVerif.Props.C13"],
    "theorems": [
        "AGV.C13.getOrder_fuel_enough",
        "AGV.C13.topo_detects_cycles",
        "AGV.C13.getOrder_valid",
        "AGV.C13.getOrder_ok_iff_acyclic",
        "AGV.C13.getOrder_perm_invariant",
        "AGV.C13.getOrder_map_perm_invariant",
        "AGV.C13.getOrder_error_key_order_dependent",
        "AGV.C13.transform_order_irrelevant",
        "AGV.C13.transform_wrong_order_differs",
        "AGV.C13.combined_order_irrelevant",
        "AGV.C13.combinedOrder_unique",
        "AGV.C13.snapshot_canonical",
        "AGV.C13.constraints_order_irrelevant",
        "AGV.C13.constraints_order_irrelevant_names",
        "AGV.C13.nameLe_eq_rule",
        "AGV.C13.sortByName_eq_sortByLe",
        "AGV.C13.constraints_order_irrelevant_unsorted_counterexample",
        "AGV.C13.constraints_order_irrelevant_partial",
        "AGV.C13.captureFirst_local",
    ],
    "units": ["topo", "c13_process"],
    "timeout": 1800,
    "trusted_base": [
        "modelled, not verified: TopologicalSort::{get_order, visit}, visit_dependent_rule_ids / Transformation::used_vars as dependency lists, Transform::apply_transform as a fold of key-writing steps, CombinedScan::new sort key (fix.is_some(), id), RuleCollection::for_path sort by id, ordered_map (BTreeMap) serialisation of snapshots, MetaVarEnv::match_constraints (collect, sort by name, loop)",
        "hash maps are association lists whose list order is the iteration order; invariance under hash seeds = invariance under permutations",
        "assumed: std HashMap iterates every key once; String Ord = byte-wise lexicographic; the transformation functions (substring/replace/convert/rewrite) are functions of the source variable's value",
    ],
    "assumptions": [
        "the hash seeds cannot be controlled from outside: order independence is proved for the model (all orders) and sampled on the implementation (fresh processes, fresh maps)",
        "utils_registration_irrelevant (H19, stale kind caches with shadowed utils) is not covered by this slice",
    ],
}
MANIFEST = {
    "text": "Lean theorems over the executable model, for all maps and all iteration orders: the dependency sort used for utils and transforms accepts exactly the acyclic maps whatever the hash order of keys or entries (getOrder_ok_iff_acyclic, getOrder_perm_invariant, getOrder_map_perm_invariant), a successful result lists every key once after its dependencies (getOrder_valid), a failure names a key on a cycle (topo_detects_cycles; which key is order dependent: getOrder_error_key_order_dependent), the recursion fuel is never exhausted; any two accepted orders of a transform map compute the same environment (transform_order_irrelevant, commuting steps + permutation induction); the dispatch order of CombinedScan is a function of the rule set given unique ids, for any sorting algorithm (combined_order_irrelevant, combinedOrder_unique); snapshot serialisation is invariant under permutation of entries (snapshot_canonical); match_constraints (since ec1c602: constrained captures sorted by variable name): the result is invariant under every permutation of the capture map, for arbitrary constraints (constraints_order_irrelevant; the un-sorted loop of the old code is refuted by constraints_order_irrelevant_unsorted_counterexample, which documents why the sort is there), and constraints with disjoint footprints commute in any case. Tie to the code: get_order through a hook on generated dependency maps (DAGs, cycles, self loops, unknown references, the map's own iteration order recorded), the rule loader with utils/transform maps, CombinedScan::new; whole-process differential: generated projects run in 8 fresh processes, with permuted YAML keys, redistributed rule files, other file creation order, and `test -U` followed by `test` with byte-identical snapshots.",
    "note": "Trusted: Lean kernel + 3 standard axioms; harness/driver/check.py glue. H20 (constraints sharing a new meta-variable made the match depend on the hash order) is repaired by ec1c602; the generated projects keep that rule class, so a regression shows as `c13 constraints=shared-var`.",
    "technique": "Lean 4 proof over hand-written executable model (DFS invariant, permutation induction, sorting uniqueness) + differential correspondence (hooked get_order with recorded hash order, rule loader, CombinedScan) + whole-process differential oracle on the real CLI",
}
