"""C09 — all front ends report the same findings; the language server publishes the newest version."""
ENTRY = {'assumptions': ['the matches of each rule on the text and their environments are data taken from the library in-process (find_all per rule): that '
                 "CombinedScan's per-kind dispatch reports exactly these is C01; texts contain no suppression comments (C14); the divergence `sg test` ignores "
                 'suppression comments is observed on the real CLI (info op test_ignores_suppression) and outside the theorem',
                 'mixed-language rule sets: a rule written for another language than the document\'s is marked `foreign` and comes with what its matcher '
                 'answers on the document\'s tree (data from the library, like every rule\'s matches); `scan --stdin` parses the text in the language of the '
                 'first rule; the harness puts a foreign rule (TypeScript / Tsx `debugger`) at the end of every third rule set, never first; `sg test` parses '
                 'a case in the language of the rule under test, so for a foreign rule the model is given its matches on that parse (`own_ms`) and '
                 'test_valid_iff_no_finding is stated for rules of the document\'s language',
                 'the three JSON styles print the same records and differ in framing only (C16 JsonFrame); they are one model function and three end-to-end '
                 'comparisons',
                 'LSP histories: handlers run sequentially (the model has no concurrency), which is how the shipped server dispatches since fix 72c38ee; the '
                 'oracle unit lsp_unawaited fires unawaited histories at the real `sg lsp` process and is the regression oracle for that fix (lost update / '
                 'deadlock fingerprints)',
                 "LSP histories: 'highest-version text received' is read per document lifetime (didOpen … didClose), and the text of a didChange is its last "
                 'content change (LSP specification, full sync); the literal whole-history reading is refuted by lsp_literal_*_counterexample and holds for '
                 'protocol-conforming histories (lsp_latest_literal_partial)'],
 'lean_modules': ['AstGrepVerif.Props.C09', 'AstGrepVerif.Props.C09a', 'AstGrepVerif.Props.C07', 'AstGrepVerif.Props.Verify'],
 'theorems': ['AGV.Verify.verdict_valid', 'AGV.Verify.verdict_invalid_skip', 'AGV.Verify.verdict_invalid_snapshot', 'AGV.Verify.verdict_invalid_update', 'AGV.Verify.run_passed_iff',
              'AGV.C09a.frontends_same_findings',
              'AGV.C09a.scan_reports_spec',
              'AGV.C09a.stdin_eq_file',
              'AGV.C09a.stdin_eq_file_fixed',
              'AGV.C09a.stdinRules_eq_fileRules',
              'AGV.C09a.stdin_runs_off_rules_example',
              'AGV.C09a.stdin_runs_foreign_rules_example',
              'AGV.C09a.test_valid_iff_no_finding',
              'AGV.C09a.test_off_rule',
              'AGV.C09a.message_subst',
              'AGV.C07.replace_verbatim',
              'AGV.C09.lsp_latest',
              'AGV.C09.lsp_latest_literal_partial',
              'AGV.C09.lsp_stale_ignored',
              'AGV.C09.lsp_empty_change_ignored',
              'AGV.C09.lsp_multi_change_uses_last',
              'AGV.C09.lsp_equal_version_replaces',
              'AGV.C09.lsp_closed_nothing_stored',
              'AGV.C09.lsp_never_opened_silent',
              'AGV.C09.lsp_unserved_silent',
              'AGV.C09.lsp_literal_reopen_counterexample',
              'AGV.C09.lsp_literal_change_after_close_counterexample',
              'AGV.Lsp.session_inv',
              'AGV.Lsp.IsLatestMax.unique'],
 'timeout': 3600,
 'trusted_base': ['modelled, not verified (shallow model of plumbing): RuleCollection::try_new (drops severity off), ScanWithConfig::produce_item / '
                  'ScanStdin::parse_stdin (which rules are registered), match_rule_on_file, RuleConfig::get_message (= fix-template expansion of the message '
                  "over the rule's transform names, C07), cloud_print::print_rule (hint skipped, one-based lines), CaseStatus::verify_valid + rule lookup in "
                  'the RuleCollection, Backend::get_diagnostics, convert_match_to_diagnostic, get_non_empty_message',
                  'which code base the harness is linked against (pinned / with FIX_C09) is decided by one probe per switch: `scan --stdin` with a single '
                  'off rule (Variant.stdinFiltersOff), and `scan --stdin` with a JavaScript rule followed by a TypeScript `pattern: debugger` rule on '
                  '`try { console.log(1) } finally { f() }` (Variant.stdinFiltersLang: true iff the TypeScript rule reports nothing)',
                  "the harness' parsers of the CLI outputs (three JSON styles, `::level file=..` annotations with multi-line messages, the `PASS/FAIL id  ..N` "
                  'summary lines of sg test after stripping colour codes) and its LSP client',
                  'modelled, not verified: Backend::on_open / on_change / on_close / publish_diagnostics, the document map (DashMap as association list)',
                  "assumed, not modelled: tower-lsp's JSON-RPC framing and dispatch (`sg lsp` sets concurrency_level(1): one handler at a time, in arrival "
                  'order); the awaited correspondence builds the Backend the same way and follows every notification by a barrier; get_diagnostics is a '
                  'function of (uri, text) (fixture rule `console.log($A)`: one diagnostic per such line)'],
 'units': ['template_fix', 'frontends_findings', 'lsp_history', 'lsp_unawaited', 'verify_run']}
MANIFEST = {'note': 'H17 confirmed on the pinned code and repaired by FIX_C09 (ScanStdin skips severity-off rules). A second defect of ScanStdin (rules written for '
         'another language than the one stdin is parsed as were run on the foreign tree; repaired by b052bde) is the model switch Variant.stdinFiltersLang, '
         'probed on the real CLI like stdinFiltersOff. Shallow model; assurance mostly from the end-to-end '
         "comparison. Trusted: Lean kernel + 3 standard axioms; harness/driver/check.py glue; tower-lsp's sequential dispatch (concurrency_level(1)) is "
         'assumed by the model and checked end to end by the lsp_unawaited oracle only.',
 'technique': 'Lean 4 proof over shallow front-end models (findings) and an invariant over notification histories (LSP) + end-to-end differential '
              'correspondence through the real CLI and an in-process / out-of-process language server',
 'text': 'TEST RUNNER — Model/Verify + Props/Verify: verdict_valid, verdict_invalid_skip, verdict_invalid_snapshot, verdict_invalid_update, run_passed_iff (sg test exits 0 iff every filtered-in test document with a rule meets the documented verdicts; documents for an id without a rule are ignored, visibly in the statement); unit verify_run replays the real run_test_rule_impl on generated projects. FINDINGS HALF — Findings half of C09. Lean theorems over a shallow executable model of which rules each front end registers and how a match becomes '
         'a record: for every rule set and text whose matched nodes lie in the text, `scan` on a file reports exactly the triples (rule id, byte range, '
         'message with variables substituted) of the rules that are not off (scan_reports_spec against the independent Spec.Reported), `scan --stdin` reports '
         'the same list when no rule is off and no rule is written for another language, or with FIX_C09, unconditionally (stdin_eq_file, '
         'stdin_eq_file_fixed; H17 is the decide witness stdin_runs_off_rules_example for the pinned code, stdin_runs_foreign_rules_example the one for '
         'a rule of another language run on the foreign tree), the '
         'language server publishes one diagnostic per finding with the same id and (line, character) range and the documented message decoration, the GitHub '
         'format one annotation per finding above hint with one-based lines (frontends_same_findings); a `valid` case of sg test passes iff scan reports '
         'nothing for that rule (test_valid_iff_no_finding; off rules have no verdict); the message is the template with each $VAR replaced by the captured '
         'text / transformed value (message_subst, instance of C07 replace_verbatim). Tied to the code end to end: ~100 rule sets (1-3 rules, all severities '
         'including off, notes, empty messages, transforms, multi-line captures) x 4 texts through agv-sg scan --json=stream|pretty|compact, --format github, '
         '--stdin --inline-rules, sg test, and the in-process language server; compared pairwise (oracle) and with the model (correspondence). LSP HISTORY '
         "HALF — LSP histories: Lean theorems over the executable model of the language server's document map (on_open/on_change/on_close transcribed branch "
         'by branch, as repaired by fix 72c38ee), for EVERY notification history of any length, any number of documents, any versions, any number of content '
         'changes per didChange: the last publishDiagnostics for a document carries the version and text of the greatest version received since the document '
         'was last opened (until it was closed), the latest among equal versions, the text of a didChange being its last content change (lsp_latest, proved by '
         'an invariant over the history; IsLatestMax is a declarative specification, unique by IsLatestMax.unique); a stale didChange and a didChange without '
         'content changes change nothing (lsp_stale_ignored, lsp_empty_change_ignored); of several content changes the last is used '
         '(lsp_multi_change_uses_last); after didClose nothing is stored and nothing more is published; never-opened or unservable documents stay silent '
         "(lsp_closed_nothing_stored, lsp_never_opened_silent, lsp_unserved_silent). Two theorems document where the literal wording 'highest version "
         "received' must be read per document lifetime (re-open with a smaller version, change after close); the literal reading is proved for "
         'protocol-conforming histories (lsp_latest_literal_partial). Correspondence: random histories (<= 41 notifications, <= 3 of 5 uris incl. unknown '
         'language / outside workspace / no rules, stale, equal, extreme versions, re-opens, closes, multi- and empty contentChanges) sent to the real Backend '
         'in-process over a duplex stream, each notification awaited; publish log (uri, version, diagnostic ranges) compared with the model. Oracle '
         'lsp_unawaited fires conforming histories without awaiting at the real `sg lsp` process: server alive, final publish = highest version (regression '
         'oracle for the four repaired defects).'}


# slice lsp_requests: requests work on the text of the highest version received; they do not touch the document map
ENTRY["lean_modules"] += ["AstGrepVerif.Props.LspRequests"]
ENTRY["theorems"] += [
    "AGV.LspRequests.fixall_uses_latest",
    "AGV.LspRequests.fixall_never_opened",
    "AGV.LspRequests.requests_do_not_change_documents",
    "AGV.LspRequests.session_documents",
    "AGV.LspRequests.fixall_eq_execute",
]
ENTRY["units"] += ["lsp_requests"]
ENTRY["trusted_base"] += [
    "slice lsp_requests: the analysis of a text (the model's parameter `analyse`) is the real get_diagnostics taken from a second in-process server instance with the same rules; the harness' JSON-RPC client (framing, barrier by workspace/didChangeConfiguration, answering workspace/workspaceFolders and workspace/applyEdit), the classification of an executeCommand outcome by its log line, and the driver's decoding of wire diagnostics are trusted glue; handlers run one after the other (concurrency_level(1), as `sg lsp`)",
]
