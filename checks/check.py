#!/usr/bin/env python3
"""
Orchestrator of the /verif checks.

  python3 checks/check.py <ID> [--tier quick|thorough] [--seed N] [--replay FILE]

For property <ID> it
  1. rebuilds the Rust harness against /repo's current working tree (path dependencies,
     feature `verif-hooks`),
  2. regenerates lean/AstGrepVerif/Generated/Tables.lean from the real functions,
  3. builds the property's Lean theorem modules + the model driver and audits the axioms,
  4. runs the correspondence (implementation vs executable Lean model, op by op),
  5. evaluates the property oracles on the implementation's outputs,
  6. writes evidence/<ID>.json and prints the verdict.

Exit status 0: property held on everything explored (KNOWN-FINDING lines are printed for
recorded defects); 1: `VIOLATION property=<ID> replay=<path>` printed; 2: infrastructure error.
"""
import argparse
import fcntl
import hashlib
import json
import os
import re
import subprocess
import sys
import time

VERIF = os.path.dirname(os.path.dirname(os.path.abspath(__file__)))
LEAN = os.path.join(VERIF, "lean")
HARNESS = os.path.join(VERIF, "harness")
WORK = os.path.join(VERIF, "work")
EVID = os.path.join(VERIF, "evidence")
REPLAYS = os.path.join(VERIF, "replays")
DRIVER = os.path.join(LEAN, ".lake", "build", "bin", "agv-driver")
HBIN = os.path.join(HARNESS, "target", "debug", "agv-harness")
ALLOWED_AXIOMS = {"propext", "Classical.choice", "Quot.sound"}

sys.path.insert(0, os.path.dirname(os.path.abspath(__file__)))
from props import PROPS  # noqa: E402

ENV = dict(os.environ)
ENV["CARGO_NET_OFFLINE"] = "true"
PLANT = ENV.pop("AGV_PLANT", None)


def log(*a):
    print("[check]", *a, file=sys.stderr, flush=True)


def run(cmd, cwd=None, timeout=None, stdin=None, stdout=None, env=None):
    return subprocess.run(cmd, cwd=cwd, timeout=timeout, stdin=stdin, stdout=stdout,
                          stderr=subprocess.PIPE if stdout is None else None,
                          env=env or ENV, text=True,
                          **({"capture_output": False} if stdout is not None else {}))


class Lock:
    """builds of the shared harness / lake project are serialised across check processes"""

    def __init__(self, name):
        os.makedirs(WORK, exist_ok=True)
        self.f = open(os.path.join(WORK, name + ".lock"), "w")

    def __enter__(self):
        fcntl.flock(self.f, fcntl.LOCK_EX)

    def __exit__(self, *a):
        fcntl.flock(self.f, fcntl.LOCK_UN)


def build_harness():
    t = time.time()
    with Lock("cargo"):
        lock_src = "/repo/Cargo.lock"
        lock_dst = os.path.join(HARNESS, "Cargo.lock")
        # always start from /repo's lock file: cargo prunes it to what the harness needs, and an
        # offline re-resolution from a pruned lock fails on yanked crates
        import shutil
        shutil.copy(lock_src, lock_dst)
        p = subprocess.run(["cargo", "build", "--offline"], cwd=HARNESS, env=ENV,
                           stdout=subprocess.PIPE, stderr=subprocess.STDOUT, text=True)
    if p.returncode != 0:
        log("harness build failed:\n" + p.stdout[-6000:])
        return False, p.stdout[-6000:]
    log(f"harness built in {time.time()-t:.1f}s")
    return True, ""


def gen_tables():
    p = subprocess.run([HBIN, "tables"], stdout=subprocess.PIPE, stderr=subprocess.PIPE, text=True, env=ENV)
    if p.returncode != 0:
        return False, p.stderr
    path = os.path.join(LEAN, "AstGrepVerif", "Generated", "Tables.lean")
    old = open(path).read() if os.path.exists(path) else None
    if old != p.stdout:
        with open(path, "w") as f:
            f.write(p.stdout)
        log("Generated/Tables.lean rewritten")
    return True, ""


def lake_build(targets):
    t = time.time()
    with Lock("lake"):
        p = subprocess.run(["lake", "build"] + targets, cwd=LEAN, env=ENV,
                           stdout=subprocess.PIPE, stderr=subprocess.STDOUT, text=True)
    log(f"lake build {' '.join(targets)}: rc={p.returncode} in {time.time()-t:.1f}s")
    return p.returncode == 0, p.stdout


FORBIDDEN = re.compile(r"\b(sorry|admit|native_decide|bv_decide|implemented_by)\b|^\s*axiom\s|^\s*unsafe\s|maxHeartbeats\s+0\b")


def strip_comments(src):
    # remove /- ... -/ (nested) and -- ... comments
    out, i, depth = [], 0, 0
    while i < len(src):
        if src.startswith("/-", i):
            depth += 1
            i += 2
        elif depth and src.startswith("-/", i):
            depth -= 1
            i += 2
        elif depth:
            i += 1
        elif src.startswith("--", i):
            j = src.find("\n", i)
            i = len(src) if j < 0 else j
        else:
            out.append(src[i])
            i += 1
    return "".join(out)


def audit_sources():
    bad = []
    for root, _, files in os.walk(LEAN):
        if ".lake" in root:
            continue
        for fn in files:
            if fn.endswith(".lean"):
                p = os.path.join(root, fn)
                for ln, line in enumerate(strip_comments(open(p).read()).splitlines(), 1):
                    if FORBIDDEN.search(line):
                        bad.append(f"{os.path.relpath(p, LEAN)}:{ln}: {line.strip()}")
    return bad


def audit_axioms(theorems, imports):
    """#print axioms for every property theorem; returns {theorem: [axioms]} / error text"""
    os.makedirs(WORK, exist_ok=True)
    src = "".join(f"import {m}\n" for m in imports)
    src += "".join(f"#print axioms {t}\n" for t in theorems)
    path = os.path.join(WORK, f"audit_{os.getpid()}.lean")
    with open(path, "w") as f:
        f.write(src)
    p = subprocess.run(["lake", "env", "lean", path], cwd=LEAN, env=ENV,
                       stdout=subprocess.PIPE, stderr=subprocess.STDOUT, text=True)
    os.unlink(path)
    out = p.stdout
    res = {}
    # "'name' depends on axioms: [a, b]" or "'name' does not depend on any axioms"
    for m in re.finditer(r"'([^\s]+)' depends on axioms:\s*\[([^\]]*)\]", out, re.S):
        res[m.group(1)] = [a.strip() for a in m.group(2).replace("\n", " ").split(",") if a.strip()]
    for m in re.finditer(r"'([^\s]+)' does not depend on any axioms", out):
        res[m.group(1)] = []
    return p.returncode, res, out


def run_unit(unit, seed, tier, timeout):
    """harness -> ops ; driver -> model results ; returns (ops_path, model_path)"""
    ops = os.path.join(WORK, f"{unit}.{tier}.{os.getpid()}.ops.jsonl")
    mod = os.path.join(WORK, f"{unit}.{tier}.{os.getpid()}.model.jsonl")
    t = time.time()
    p = subprocess.run([HBIN, unit, "--seed", str(seed), "--tier", tier, "--out", ops],
                       env=(dict(ENV, AGV_PLANT=PLANT) if PLANT else ENV), stdout=subprocess.PIPE, stderr=subprocess.PIPE, text=True, timeout=timeout)
    if p.returncode != 0:
        return None, None, f"harness unit {unit} rc={p.returncode}: {p.stderr[-2000:]}"
    t1 = time.time()
    with open(ops) as fi, open(mod, "w") as fo:
        q = subprocess.run([DRIVER], stdin=fi, stdout=fo, stderr=subprocess.PIPE, text=True, timeout=timeout)
    if q.returncode != 0:
        return None, None, f"driver rc={q.returncode} on unit {unit}: {q.stderr[-2000:]}"
    log(f"unit {unit}: harness {t1-t:.1f}s driver {time.time()-t1:.1f}s")
    return ops, mod, None


# ops whose model is stated on a restricted alphabet and answers "outside" elsewhere
MODEL_ALPHABET_OPS = {"convert_case"}


def nontrivial(op, rec):
    """an op is non-trivial when the implementation did something beyond the default/none path"""
    r = rec.get("r")
    if r is None or r is False or r == [] or r == "" or r == "nomatch":
        return False
    if isinstance(r, dict) and all(v in (None, [], "", False) for v in r.values()):
        return False
    if isinstance(r, dict) and "mv" in r and r["mv"] is None:
        return False
    if isinstance(r, dict) and "v" in r and r["v"] == []:
        return False
    if isinstance(r, list) and r and r[0] == "err":
        return False
    return True


def load_known():
    known, fixed = [], []
    path = os.path.join(VERIF, "KNOWN_FINDINGS.jsonl")
    if os.path.exists(path):
        for line in open(path):
            line = line.strip()
            if not line or line.startswith("#"):
                continue
            if line.startswith("fixed:"):
                fixed.append(line)
                continue
            known.append(json.loads(line))
    return known, fixed


def write_replay(pid, kind, body):
    d = os.path.join(REPLAYS, pid)
    os.makedirs(d, exist_ok=True)
    h = hashlib.sha1(json.dumps(body, sort_keys=True).encode()).hexdigest()[:10]
    path = os.path.join(d, f"{kind}-{h}.json")
    body = dict(body)
    body["property"] = pid
    body["kind"] = kind
    body.setdefault("how_to_replay", f"python3 checks/check.py {pid} --replay {os.path.relpath(path, VERIF)}")
    with open(path, "w") as f:
        json.dump(body, f, indent=1, ensure_ascii=False)
    return os.path.relpath(path, VERIF)


def replay(pid, path):
    """re-run one recorded op / oracle case on the current implementation and model"""
    body = json.load(open(path))
    ok, err = build_harness()
    if not ok:
        print(err)
        return 2
    lake_build(["agv-driver"])
    lines = []
    if "op" in body:
        lines.append(json.dumps(body["op"]))
    if not lines:
        print(json.dumps(body, indent=1, ensure_ascii=False))
        print("(no executable op in this replay: it names a theorem / correspondence unit)")
        return 1
    p = subprocess.run([DRIVER], input="\n".join(lines) + "\n", stdout=subprocess.PIPE, text=True)
    model = [json.loads(x) for x in p.stdout.splitlines()]
    q = subprocess.run([HBIN, "replay"], input="\n".join(lines) + "\n", stdout=subprocess.PIPE, text=True, env=ENV)
    impl = [json.loads(x) for x in q.stdout.splitlines()] if q.returncode == 0 else None
    print(json.dumps({"recorded": body, "model_now": model, "impl_now": impl}, indent=1, ensure_ascii=False))
    if impl is not None and impl == model and not body.get("oracle_failed"):
        return 0
    return 1


def main():
    ap = argparse.ArgumentParser()
    ap.add_argument("pid")
    ap.add_argument("--tier", default=os.environ.get("VERIF_TIER", "quick"))
    ap.add_argument("--seed", type=int, default=int(os.environ.get("VERIF_SEED", "1")))
    ap.add_argument("--replay")
    ap.add_argument("--selftest", action="store_true",
                    help="plant a corrupted implementation result in every unit and expect the pipeline to report it")
    args = ap.parse_args()
    pid = args.pid
    if pid not in PROPS:
        print(f"unknown property {pid}")
        return 2
    if args.replay:
        return replay(pid, args.replay)
    cfg = PROPS[pid]
    if args.selftest:
        # the same pipeline with one corrupted op per unit: it must end in a VIOLATION
        env = dict(os.environ, AGV_PLANT="7")
        r = subprocess.run([sys.executable, os.path.abspath(__file__), pid, "--tier", "quick", "--seed", str(args.seed)],
                           env=env, stdout=subprocess.PIPE, stderr=subprocess.DEVNULL, text=True)
        ok = r.returncode == 1 and "VIOLATION" in r.stdout
        print(("SELFTEST-OK" if ok else "SELFTEST-FAILED") + f" property={pid}: planted disagreement " + ("was reported" if ok else "was NOT reported"))
        # the planted run rewrote the evidence file: restore it with a clean run
        subprocess.run([sys.executable, os.path.abspath(__file__), pid, "--tier", "quick", "--seed", str(args.seed)],
                       stdout=subprocess.DEVNULL, stderr=subprocess.DEVNULL)
        return 0 if ok else 2
    tier = "thorough" if args.tier == "thorough" else "quick"
    t0 = time.time()
    os.makedirs(WORK, exist_ok=True)
    os.makedirs(EVID, exist_ok=True)
    known, _fixed = load_known()
    # a finding belongs to one property; `also` names other properties whose checks run the same unit
    known = [k for k in known if k["property"] == pid or pid in k.get("also", [])]
    violations = []      # (replay_path, suffix)
    known_hits = {}      # fingerprint -> count
    obligations = []     # (name, discharged: bool)
    samples = []
    stats = {"evaluations": 0, "distinct": set(), "nontrivial": set(), "per_op": {}, "oracle_cases": 0,
             "oracle_failures": 0, "model_disagreements": 0}

    # 1. harness from the working tree
    ok, err = build_harness()
    if not ok:
        # the tree does not build with hooks on: nothing can be shown
        rp = write_replay(pid, "infrastructure", {"error": "harness does not build against /repo", "log": err[-3000:]})
        print(f"VIOLATION property={pid} replay={rp} no-failing-input-found")
        return 1
    # 2. generated tables
    ok, err = gen_tables()
    if not ok:
        # the tables are read out of the code under test (extension table, kinds ...): a generator
        # that crashes is a correspondence that no longer checks, not an error of the caller
        rp = write_replay(pid, "infrastructure", {"error": "Generated/Tables.lean cannot be regenerated from /repo (agv-harness tables failed)", "broken": ["correspondence generated tables"], "log": (err or "")[-3000:]})
        print(f"VIOLATION property={pid} replay={rp} no-failing-input-found")
        return 1
    # 3. proof obligations
    targets = list(cfg["lean_modules"]) + ["AstGrepVerif.Generated.Tables", "agv-driver"]
    ok, out = lake_build(targets)
    proof_broken = None
    if not ok:
        proof_broken = out[-4000:]
        m = re.search(r"error: ([^\n]*)", out)
        log("lean build failed: " + (m.group(1) if m else ""))
        # the driver may still be buildable
        ok2, _ = lake_build(["agv-driver"])
        if not ok2:
            rp = write_replay(pid, "proof-broken", {"theorem_module": cfg["lean_modules"], "log": proof_broken})
            print(f"VIOLATION property={pid} replay={rp} no-failing-input-found")
            return 1
    bad_src = audit_sources()
    theorems = cfg["theorems"]
    ax_rc, axioms, ax_out = (0, {}, "")
    if not proof_broken:
        ax_rc, axioms, ax_out = audit_axioms(theorems, cfg["lean_modules"])
    for t in theorems:
        good = (not proof_broken) and t in axioms and set(axioms[t]) <= ALLOWED_AXIOMS and not bad_src
        obligations.append((f"theorem {t}", good))
    for b in bad_src:
        log("forbidden construct: " + b)
    if tier == "thorough" and not proof_broken:
        # independent re-check of the compiled theorem modules by the toolchain's leanchecker
        for mod_name in cfg["lean_modules"]:
            t0 = time.time()
            lc = subprocess.run(["lake", "env", "leanchecker", mod_name], cwd=LEAN, env=ENV,
                                stdout=subprocess.PIPE, stderr=subprocess.STDOUT, text=True)
            obligations.append((f"leanchecker {mod_name}", lc.returncode == 0))
            log(f"leanchecker {mod_name}: rc={lc.returncode} in {time.time()-t0:.1f}s")
            if lc.returncode != 0:
                proof_broken = (proof_broken or "") + f"\nleanchecker {mod_name}: " + lc.stdout[-2000:]

    # 4. correspondence + 5. oracles
    first_disagreement = {}
    oracle_fail_examples = []
    # thorough tier: every unit under several seeds (AGV_THOROUGH_SEEDS, default 3)
    n_seeds = int(os.environ.get("AGV_THOROUGH_SEEDS", "3")) if tier == "thorough" else 1
    seeds_used = [args.seed + i for i in range(n_seeds)]
    for unit, useed in [(u, sd) for sd in seeds_used for u in cfg["units"]]:
        oname = f"correspondence {unit}" + ("" if useed == args.seed else f" seed={useed}")
        ops, mod, err = run_unit(unit, useed, tier, timeout=cfg.get("timeout", 3600))
        if err:
            log(err)
            obligations.append((oname, False))
            first_disagreement.setdefault(unit, {"error": err, "seed": useed})
            continue
        dis = 0
        with open(ops, errors="replace") as fo, open(mod, errors="replace") as fm:
            for lo, lm in zip(fo, fm):
                rec = json.loads(lo)
                stats["evaluations"] += 1
                if rec["op"] == "oracle":
                    ncases = int(rec.get("detail", {}).get("cases", 1)) if rec["ok"] else 1
                    stats["oracle_cases"] += ncases
                    po = stats.setdefault("per_oracle", {})
                    po[rec["name"]] = po.get(rec["name"], 0) + ncases
                    if not rec["ok"]:
                        stats["oracle_failures"] += 1
                        fp = rec["detail"].get("fp", rec["name"])
                        hit = next((k for k in known if k["fingerprint"] == fp), None)
                        if hit:
                            known_hits[fp] = known_hits.get(fp, 0) + 1
                        else:
                            oracle_fail_examples.append(rec)
                    continue
                if rec["op"].startswith("info:"):
                    # hypothesis / distribution measurements evaluated by the model driver: tallied, never judged
                    key = rec["op"][5:]
                    tally = stats.setdefault("info", {}).setdefault(key, {})
                    val = lm.strip()[:80]
                    tally[val] = tally.get(val, 0) + 1
                    continue
                if rec["op"].startswith("oracle:"):
                    # property oracle evaluated by the model driver on the implementation's output
                    # (`r` = the verdict the property demands); "skip" = outside the quantifier
                    stats["oracle_cases"] += 1
                    try:
                        mv = json.loads(lm)
                    except Exception:
                        mv = {"driver_error": lm[:200]}
                    if mv == "skip":
                        stats["oracle_skipped"] = stats.get("oracle_skipped", 0) + 1
                    elif mv != rec["r"]:
                        stats["oracle_failures"] += 1
                        fp = rec["a"].get("fp", rec["op"])
                        hit = next((k for k in known if k["fingerprint"] == fp), None)
                        if hit:
                            known_hits[fp] = known_hits.get(fp, 0) + 1
                        else:
                            a = {k: v for k, v in rec["a"].items() if k not in ("tree",)}
                            oracle_fail_examples.append({"name": rec["op"], "detail": {"fp": fp, "input": a, "demanded": rec["r"], "observed": mv}})
                    continue
                h = hashlib.sha1(lo.encode()).digest()[:8]
                stats["distinct"].add(h)
                stats["per_op"][rec["op"]] = stats["per_op"].get(rec["op"], 0) + 1
                if nontrivial(rec["op"], rec):
                    stats["nontrivial"].add(h)
                try:
                    m = json.loads(lm)
                except Exception:
                    m = {"driver_error": lm[:200]}
                if m == "outside" and rec["op"] in MODEL_ALPHABET_OPS:
                    # the input lies outside the alphabet the model is stated on: skipped, not judged
                    stats["model_outside"] = stats.get("model_outside", 0) + 1
                    continue
                if m != rec["r"]:
                    dis += 1
                    if unit not in first_disagreement:
                        first_disagreement[unit] = {"op": {"op": rec["op"], "a": rec["a"]}, "impl": rec["r"], "model": m, "seed": useed}
                elif len(samples) < 5 and nontrivial(rec["op"], rec) and (stats["evaluations"] % 997 == 1 or len(samples) == 0):
                    samples.append({"op": rec["op"], "a": rec["a"], "impl": rec["r"], "model": m})
        stats["model_disagreements"] += dis
        obligations.append((oname, dis == 0))
        for p_ in (ops, mod):
            try:
                os.unlink(p_)
            except OSError:
                pass

    # 6. verdict
    for fp, n in sorted(known_hits.items()):
        k = next(k for k in known if k["fingerprint"] == fp)
        print(f"KNOWN-FINDING: property={pid} {k['description']} [{fp}; {n} cases this run]")
    # genuine failing inputs found on the implementation
    seen_fp = set()
    for rec in oracle_fail_examples:
        fp = rec["detail"].get("fp", rec["name"])
        if fp in seen_fp:
            continue
        seen_fp.add(fp)
        rp = write_replay(pid, "impl-vs-oracle", {"oracle": rec["name"], "input": rec["detail"], "oracle_failed": True})
        violations.append((rp, ""))
    broken_units = [u for u in cfg["units"] if u in first_disagreement]
    if (broken_units or proof_broken or bad_src or any(not g for _, g in obligations)) and not violations:
        # the tie or a proof is broken and no failing input of the property was found
        body = {"broken": [n for n, g in obligations if not g]}
        if broken_units:
            body["unit"] = broken_units[0]
            body.update(first_disagreement[broken_units[0]])
        if proof_broken:
            body["lean_log"] = proof_broken
        if bad_src:
            body["forbidden_constructs"] = bad_src
        if ax_out and any(not g for n, g in obligations if n.startswith("theorem")):
            body["axiom_audit"] = ax_out[-2000:]
        rp = write_replay(pid, "model-disagreement" if broken_units else "proof-broken", body)
        violations.append((rp, " no-failing-input-found"))
    elif broken_units:
        # there are failing inputs; still record the disagreement next to them
        write_replay(pid, "model-disagreement", dict(first_disagreement[broken_units[0]], unit=broken_units[0]))

    wall = time.time() - t0
    evidence = {
        "property_id": pid,
        "tier": tier,
        "seed": args.seed,
        "level": "proof",
        "coverage": {
            "obligations": len(obligations),
            "discharged": sum(1 for _, g in obligations if g),
            "obligation_list": [{"name": n, "discharged": g} for n, g in obligations],
            "checker_cmd": f"cd lean && lake build {' '.join(cfg['lean_modules'])} && lake env lean <#print axioms of each listed theorem>; correspondence: harness/target/debug/agv-harness <unit> | lean/.lake/build/bin/agv-driver",
            "trusted_base": cfg.get("trusted_base", []) + [
                "Lean 4.33.0 kernel; axioms allowed: propext, Classical.choice, Quot.sound (audited with #print axioms on every listed theorem)",
                "correspondence check: agv-harness (Rust), agv-driver (Lean, JSON glue), checks/check.py",
            ],
            "axioms": axioms,
            "evaluations": stats["evaluations"],
            "distinct_nontrivial": len(stats["nontrivial"]),
            "distinct_ops": len(stats["distinct"]),
            "rule": cfg.get("rule", "one evaluation = one op replayed on implementation and model; distinct = by content hash of the op line; non-trivial = the implementation's result is not the empty/none/error/no-match default"),
            "per_op": stats["per_op"],
            "oracle_cases": stats["oracle_cases"],
            "oracle_failures": stats["oracle_failures"],
            "oracle_cases_by_name": stats.get("per_oracle", {}),
            "vacuous_oracles": sorted(k for k, v in stats.get("per_oracle", {}).items() if v == 0),
            "oracle_skipped_outside_quantifier": stats.get("oracle_skipped", 0),
            "hypothesis_measurements": stats.get("info", {}),
            "known_finding_hits": known_hits,
            "model_disagreements": stats["model_disagreements"],
            "model_outside_alphabet_skipped": stats.get("model_outside", 0),
            "samples": samples or [{"note": "no sample captured"}],
            "exhaustive": False,
            "seeds": seeds_used,
        },
        "assumptions": cfg.get("assumptions", []),
        "wall_s": round(wall, 2),
        "violations": len(violations),
    }
    with open(os.path.join(EVID, f"{pid}.json"), "w") as f:
        json.dump(evidence, f, indent=1, ensure_ascii=False)
    for rp, suffix in violations:
        print(f"VIOLATION property={pid} replay={rp}{suffix}")
    if violations:
        return 1
    print(f"OK property={pid} tier={tier} obligations={len(obligations)} evaluations={stats['evaluations']} wall={wall:.1f}s")
    return 0


if __name__ == "__main__":
    try:
        rc = main()
    except SystemExit:
        raise
    except Exception:
        # the checker itself failed (an input produced by the code under test it could not digest):
        # the property is not shown to hold on this tree — say so in the interface's terms
        import traceback
        tb = traceback.format_exc()
        pid = next((a for a in sys.argv[1:] if re.fullmatch(r"C\d\d", a)), "C00")
        try:
            rp = write_replay(pid, "infrastructure", {"error": "checks/check.py failed", "traceback": tb[-3000:]})
        except Exception:
            rp = "replays/none"
        sys.stderr.write(tb)
        print(f"VIOLATION property={pid} replay={rp} no-failing-input-found")
        rc = 1
    sys.exit(rc)
