#!/usr/bin/env python3
"""Run every claimed check once on the current tree (quick tier by default) and print a summary."""
import json, os, subprocess, sys, time
VERIF = os.path.dirname(os.path.dirname(os.path.abspath(__file__)))
tier = sys.argv[sys.argv.index("--tier") + 1] if "--tier" in sys.argv else "quick"
m = json.load(open(os.path.join(VERIF, "MANIFEST.json")))
bad = 0
for c in m["checks"]:
    pid = c["property_id"]
    t = time.time()
    r = subprocess.run(["python3", "checks/check.py", pid, "--tier", tier], cwd=VERIF, capture_output=True, text=True)
    last = [l for l in r.stdout.splitlines() if l.startswith(("OK", "VIOLATION"))]
    print(f"{pid} rc={r.returncode} {time.time()-t:.0f}s {' | '.join(last)[:200]}", flush=True)
    bad += r.returncode != 0
sys.exit(1 if bad else 0)
