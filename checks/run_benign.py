#!/usr/bin/env python3
"""Apply every behaviour-preserving change of /verif/benign/<id>/patch.diff to /repo in turn, run
the quick checks of the properties it could touch (the ones named in meta.json `properties` plus
every property whose anchor files the patch edits), record whether any check raised an alarm, and
undo the change straight afterwards. The expected result for every one of them is: no alarm.

  python3 checks/run_benign.py [id ...] [--tier quick|thorough] [--all]

Writes benign/RESULTS.json. /repo must be clean before and is left clean after.
"""
import json
import os
import re
import subprocess
import sys
import time

VERIF = os.path.dirname(os.path.dirname(os.path.abspath(__file__)))
BENIGN = os.path.join(VERIF, "benign")
# the checks build against ../../repo relative to the harness: a scratch copy of /verif next to a
# worktree of /repo can run these without occupying /repo itself
REPO = os.environ.get("AGV_REPO", "/repo")


def sh(cmd, **kw):
    return subprocess.run(cmd, text=True, capture_output=True, **kw)


def all_replays():
    out = []
    for root, _, files in os.walk(os.path.join(VERIF, "replays")):
        out += [os.path.join(root, f) for f in files]
    return out


def anchors():
    res = {}
    for l in open(os.path.join(VERIF, "properties.jsonl")):
        p = json.loads(l)
        res[p["id"]] = set(p["anchors"]["files"])
    return res


def main():
    args = [a for a in sys.argv[1:] if not a.startswith("--")]
    tier = "quick"
    if "--tier" in sys.argv:
        tier = sys.argv[sys.argv.index("--tier") + 1]
        args = [a for a in args if a != tier]
    every = "--all" in sys.argv
    ids = args or sorted(d for d in os.listdir(BENIGN) if os.path.isfile(os.path.join(BENIGN, d, "patch.diff")))
    st = sh(["git", "-C", REPO, "status", "--porcelain"]).stdout.strip()
    if st:
        print("refusing: /repo has uncommitted changes:\n" + st)
        return 2
    anc = anchors()
    results_path = os.path.join(BENIGN, "RESULTS.json")
    results = json.load(open(results_path)) if os.path.exists(results_path) else {}
    claimed = [p["property_id"] for p in json.load(open(os.path.join(VERIF, "MANIFEST.json")))["checks"]]
    for bid in ids:
        d = os.path.join(BENIGN, bid)
        meta = json.load(open(os.path.join(d, "meta.json")))
        patch = os.path.join(d, "patch.diff")
        touched = set(re.findall(r"^\+\+\+ b/(\S+)", open(patch).read(), re.M))
        pids = list(meta.get("properties", []))
        for pid, files in sorted(anc.items()):
            if pid not in pids and (every or files & touched):
                pids.append(pid)
        pids = [p for p in pids if p in claimed]
        ap = sh(["git", "-C", REPO, "apply", patch])
        if ap.returncode != 0:
            # the patch was made against an earlier HEAD: try a three-way merge before giving up
            sh(["git", "-C", REPO, "checkout", "--", "."])
            ap = sh(["git", "-C", REPO, "apply", "--3way", patch])
            if ap.returncode != 0:
                # a conflicted three-way merge leaves unmerged paths behind: clear them
                sh(["git", "-C", REPO, "reset", "-q", "HEAD", "--", "."])
        if ap.returncode != 0:
            print(f"{bid}: patch does not apply: {ap.stderr[:300]}")
            results[bid] = {"applied": False, "error": ap.stderr[:500]}
            sh(["git", "-C", REPO, "checkout", "--", "."])
            continue
        entry = {"applied": True, "files": sorted(touched), "checks": {}}
        saved = {}
        for pid in pids:
            ev = os.path.join(VERIF, "evidence", f"{pid}.json")
            if os.path.exists(ev):
                saved[ev] = open(ev).read()
        before = set(all_replays())
        untracked_before = set(sh(["git", "-C", REPO, "ls-files", "--others", "--exclude-standard"]).stdout.split())
        try:
            for pid in pids:
                t = time.time()
                r = sh(["python3", os.path.join(VERIF, "checks", "check.py"), pid, "--tier", tier], cwd=VERIF)
                vio = [l for l in r.stdout.splitlines() if l.startswith("VIOLATION")]
                entry["checks"][pid] = {"rc": r.returncode, "violations": vio, "wall_s": round(time.time() - t, 1)}
                flag = "ok" if r.returncode == 0 and not vio else "ALARM"
                print(f"{bid}: check {pid} {flag} rc={r.returncode} {vio[:2]}", flush=True)
                if flag == "ALARM":
                    # keep the replays for the investigation
                    keep = os.path.join(d, "alarms")
                    os.makedirs(keep, exist_ok=True)
                    for l in vio[:2]:
                        rp = [w.split("=", 1)[1] for w in l.split() if w.startswith("replay=")]
                        if rp and os.path.exists(os.path.join(VERIF, rp[0])):
                            subprocess.run(["cp", os.path.join(VERIF, rp[0]), keep])
                    if not vio:
                        open(os.path.join(keep, f"{pid}.log"), "w").write(r.stdout[-8000:] + r.stderr[-4000:])
        finally:
            sh(["git", "-C", REPO, "reset", "-q", "HEAD", "--", "."])
            sh(["git", "-C", REPO, "checkout", "--", "."])
            for f in set(sh(["git", "-C", REPO, "ls-files", "--others", "--exclude-standard"]).stdout.split()) - untracked_before:
                os.remove(os.path.join(REPO, f))
        for ev, txt in saved.items():
            open(ev, "w").write(txt)
        for f in set(all_replays()) - before:
            os.remove(f)
        entry["alarm"] = any(c["rc"] != 0 or c["violations"] for c in entry["checks"].values())
        results[bid] = entry
        json.dump(results, open(results_path, "w"), indent=1, sort_keys=True)
    bad = [b for b in ids if results.get(b, {}).get("alarm")]
    print(f"benign changes run: {len(ids)}; alarms: {bad}")
    return 0


if __name__ == "__main__":
    sys.exit(main())
