"""Per-property configuration of checks/check.py, loaded from checks/props.d/<ID>.py.
Each file defines ENTRY (lean modules, theorems = proof obligations, harness units) and
MANIFEST (texts for MANIFEST.json)."""
import glob
import importlib.util
import os

COMMON_ASSUME = [
    "the theorems are about the hand-written Lean model; only the correspondence run ties it to /repo",
]

PROPS = {}
MANIFEST_TEXT = {}
NOT_YET = {}
_d = os.path.join(os.path.dirname(os.path.abspath(__file__)), "props.d")
for _p in sorted(glob.glob(os.path.join(_d, "C*.py"))):
    _id = os.path.basename(_p)[:-3]
    _spec = importlib.util.spec_from_file_location("props_" + _id, _p)
    _m = importlib.util.module_from_spec(_spec)
    _spec.loader.exec_module(_m)
    _e = dict(_m.ENTRY)
    _e["assumptions"] = COMMON_ASSUME + _e.get("assumptions", [])
    PROPS[_id] = _e
    MANIFEST_TEXT[_id] = _m.MANIFEST
