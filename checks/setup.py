#!/usr/bin/env python3
"""MANIFEST.setup_cmd: build the Lean project (all property modules + driver) and the
harness once, offline, from files on disk only."""
import os, subprocess, sys, shutil
VERIF = os.path.dirname(os.path.dirname(os.path.abspath(__file__)))
env = dict(os.environ, CARGO_NET_OFFLINE="true")
def sh(cmd, cwd):
    print("+", " ".join(cmd), flush=True)
    r = subprocess.run(cmd, cwd=cwd, env=env)
    if r.returncode != 0:
        sys.exit(r.returncode)
os.makedirs(os.path.join(VERIF, "work"), exist_ok=True)
os.makedirs(os.path.join(VERIF, "evidence"), exist_ok=True)
h = os.path.join(VERIF, "harness")
shutil.copy("/repo/Cargo.lock", os.path.join(h, "Cargo.lock"))
sh(["cargo", "build", "--offline"], h)
gen = os.path.join(VERIF, "lean", "AstGrepVerif", "Generated", "Tables.lean")
out = subprocess.run([os.path.join(h, "target", "debug", "agv-harness"), "tables"], capture_output=True, text=True, env=env)
if out.returncode == 0 and (not os.path.exists(gen) or open(gen).read() != out.stdout):
    open(gen, "w").write(out.stdout)
sh(["lake", "build"], os.path.join(VERIF, "lean"))
print("setup ok")
