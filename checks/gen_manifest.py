#!/usr/bin/env python3
"""Writes MANIFEST.json from checks/props.py (claimed properties) — keeps the manifest in
step with what the orchestrator actually knows how to check."""
import json, os, sys, subprocess
sys.path.insert(0, os.path.dirname(os.path.abspath(__file__)))
from props import PROPS, MANIFEST_TEXT, NOT_YET

VERIF = os.path.dirname(os.path.dirname(os.path.abspath(__file__)))
ids = [json.loads(l)["id"] for l in open(os.path.join(VERIF, "properties.jsonl"))]
hook_commits = subprocess.run(["git", "-C", "/repo", "log", "--format=%H %s"], capture_output=True, text=True).stdout.splitlines()
hook_commits = [l.split()[0] for l in hook_commits if " verif:" in " " + l]
checks = []
for pid in ids:
    if pid not in PROPS:
        continue
    t = MANIFEST_TEXT[pid]
    checks.append({
        "property_id": pid,
        "quick_cmd": f"python3 checks/check.py {pid} --tier quick",
        "thorough_cmd": f"python3 checks/check.py {pid} --tier thorough",
        "evidence_file": f"/verif/evidence/{pid}.json",
        "replay_cmd_template": f"python3 checks/check.py {pid} --replay {{path}}",
        "engine": "lean-model+agv-harness",
        "level_claimed": {"category": "proof", "text": t["text"], "design_ref": t.get("design_ref", "DESIGN.md section 6, " + pid)},
        "level_note": t["note"],
        "technique": t["technique"],
    })
manifest = {
    "version": 1,
    "setup_cmd": "python3 checks/setup.py",
    "hooks": {
        "guard": "cargo feature `verif-hooks` (crates core, config, cli, lsp); off by default",
        "enable": "the harness crate /verif/harness depends on /repo/crates/* by path with features = [\"verif-hooks\"] and its own target directory; /repo/target is never built with the feature",
        "baseline_off_cmd": "cd /repo && cargo nextest run --workspace --no-fail-fast --tool-config-file pb:/w/lib/nextest.toml --profile pb --test-threads 8 --offline || cargo test --workspace --no-fail-fast --offline",
        "source_commits": hook_commits,
        "add_only": True,
    },
    "engines": [
        {"name": "lean-model", "path": "lean/", "serves_properties": [c["property_id"] for c in checks],
         "kind_free_text": "Lean 4 executable model (AstGrepVerif/Model), specifications, property theorems (AstGrepVerif/Props), native model driver agv-driver"},
        {"name": "agv-harness", "path": "harness/", "serves_properties": [c["property_id"] for c in checks],
         "kind_free_text": "Rust harness linking /repo's crates by path: generates inputs from one seeded PRNG, runs the real functions, emits ops for the Lean driver, evaluates property oracles, regenerates the finite tables"},
    ],
    "checks": checks,
    "notes": "All checks: checks/check.py <ID>. A check passes iff the property's theorems build and pass the axiom audit, the correspondence (implementation vs Lean model, op by op) shows no disagreement, and the property oracle on the implementation finds no violation outside KNOWN_FINDINGS.jsonl.",
    "not_applicable": [{"property_id": pid, "reason": NOT_YET.get(pid, "check not built yet in this session; see DESIGN.md section 6 for the planned model and theorems")} for pid in ids if pid not in PROPS],
}
json.dump(manifest, open(os.path.join(VERIF, "MANIFEST.json"), "w"), indent=1)
print("claimed:", [c["property_id"] for c in checks])
