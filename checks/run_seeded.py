#!/usr/bin/env python3
"""Apply every seeded change of /verif/seeded/<id>/patch.diff to /repo in turn, run the quick
check of the property it breaks (plus any extra checks named in meta.json `also`), record
whether a VIOLATION was reported, and undo the change straight afterwards.

  python3 checks/run_seeded.py [id ...] [--tier quick|thorough]

Writes seeded/RESULTS.json. /repo must be clean before and is left clean after.
"""
import json
import os
import shutil
import subprocess
import sys
import time

VERIF = os.path.dirname(os.path.dirname(os.path.abspath(__file__)))
SEEDED = os.path.join(VERIF, "seeded")
# (a scratch copy of /verif next to a worktree of /repo can run this without occupying /repo itself)
REPO = os.environ.get("AGV_REPO", "/repo")


def sh(cmd, **kw):
    return subprocess.run(cmd, text=True, capture_output=True, **kw)


def all_replays():
    out = []
    for root, _, files in os.walk(os.path.join(VERIF, "replays")):
        out += [os.path.join(root, f) for f in files]
    return out


def main():
    args = [a for a in sys.argv[1:] if not a.startswith("--")]
    tier = "quick"
    if "--tier" in sys.argv:
        tier = sys.argv[sys.argv.index("--tier") + 1]
        args = [a for a in args if a != tier]
    ids = args or sorted(d for d in os.listdir(SEEDED) if os.path.isfile(os.path.join(SEEDED, d, "patch.diff")))
    st = sh(["git", "-C", REPO, "status", "--porcelain"]).stdout.strip()
    if st:
        print("refusing: /repo has uncommitted changes:\n" + st)
        return 2
    results_path = os.path.join(SEEDED, "RESULTS.json")
    results = json.load(open(results_path)) if os.path.exists(results_path) else {}
    for sid in ids:
        d = os.path.join(SEEDED, sid)
        meta = json.load(open(os.path.join(d, "meta.json")))
        patch = os.path.join(d, "patch.diff")
        ap = sh(["git", "-C", REPO, "apply", patch])
        if ap.returncode != 0:
            ap = sh(["git", "-C", REPO, "apply", "--3way", patch])
        if ap.returncode != 0:
            print(f"{sid}: patch does not apply: {ap.stderr[:300]}")
            results[sid] = {"applied": False, "error": ap.stderr[:500]}
            sh(["git", "-C", REPO, "reset", "-q", "HEAD", "--", "."])
            sh(["git", "-C", REPO, "checkout", "--", "."])
            continue
        entry = {"applied": True, "property": meta["property"], "checks": {}}
        # evidence files are rewritten by every check run: keep the ones of the unchanged tree
        saved = {}
        for pid in [meta["property"]] + meta.get("also", []):
            ev = os.path.join(VERIF, "evidence", f"{pid}.json")
            if os.path.exists(ev):
                saved[ev] = open(ev).read()
        before = set(all_replays())
        try:
            for pid in [meta["property"]] + meta.get("also", []):
                t = time.time()
                r = sh(["python3", os.path.join(VERIF, "checks", "check.py"), pid, "--tier", tier], cwd=VERIF)
                vio = [l for l in r.stdout.splitlines() if l.startswith("VIOLATION")]
                entry["checks"][pid] = {"rc": r.returncode, "violations": vio, "wall_s": round(time.time() - t, 1)}
                print(f"{sid}: check {pid} rc={r.returncode} {vio[:2]}")
                # keep the first replay of this check next to the seeded change
                for l in vio[:1]:
                    rp = [w.split("=", 1)[1] for w in l.split() if w.startswith("replay=")]
                    if rp and os.path.exists(os.path.join(VERIF, rp[0])):
                        shutil.copy(os.path.join(VERIF, rp[0]), os.path.join(d, f"caught-by-{pid}.json"))
        finally:
            sh(["git", "-C", REPO, "reset", "-q", "HEAD", "--", "."])
            sh(["git", "-C", REPO, "checkout", "--", "."])
            sh(["git", "-C", REPO, "clean", "-fdq", "crates"])
            for ev, content in saved.items():
                open(ev, "w").write(content)
            # replays written while the seeded change was applied do not describe /repo
            for f in set(all_replays()) - before:
                os.unlink(f)
        entry["caught"] = any(c["rc"] == 1 and c["violations"] for c in entry["checks"].values())
        own = entry["checks"].get(meta["property"], {})
        entry["caught_by_own_property"] = bool(own.get("rc") == 1 and own.get("violations"))
        # a catch must come from a check that ran: a harness that does not build reports `infrastructure`
        entry["infrastructure_only"] = bool(entry["caught"]) and all(
            all("infrastructure" in v for v in c["violations"]) for c in entry["checks"].values() if c["violations"])
        if meta.get("equivalent_since"):
            # the change breaks nothing on the current HEAD (see meta.json): no alarm is the right answer
            entry["equivalent_since"] = meta["equivalent_since"]
            entry["expected"] = "no alarm"
        results[sid] = entry
        json.dump(results, open(results_path, "w"), indent=1)
    # sanity: the unchanged tree must be quiet again
    print(json.dumps({k: v.get("caught") for k, v in results.items()}, indent=1))
    return 0


if __name__ == "__main__":
    sys.exit(main())
