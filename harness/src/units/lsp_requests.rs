//! Slice "lsp_requests" (C06 / C08 / C09): whole SESSIONS against the real language server
//! (`ast_grep_lsp::Backend` behind tower-lsp's `LspService`/`Server`, in-process over a duplex
//! stream, `concurrency_level(1)` as `sg lsp` runs it): didOpen / didChange / didClose mixed with
//! `textDocument/codeAction` (quick fix, `source.fixAll`, other `only` values, client diagnostics
//! that are fresh / stale / foreign / damaged) and `workspace/executeCommand`
//! (`ast-grep.applyAllFixes`, other commands, good / bad / missing arguments, unknown uris).
//!
//! * `lsp_session` (correspondence): every publish, every code-action response and every
//!   `workspace/applyEdit` / error log of a session is compared with `Model/LspRequests.run`.  The
//!   analysis of a text (the model's parameter `analyse`) is the REAL `get_diagnostics`, obtained
//!   from a second server instance with the same rules in which each distinct text is opened once.
//! * oracles on the implementation alone: `req_edits_ordered` (C06), `req_fixall_eq_cli` (fix-all /
//!   applyAllFixes applied to the highest-version text of the document = what `scan -U` writes),
//!   `req_quickfix_eq_cli` (quick fixes of fresh diagnostics = the edits `scan --json` announces),
//!   `req_fixall_eq_execute`, `req_no_side_effect`, `req_only_hierarchy` (LSP kind hierarchy: the
//!   fix-all action is offered iff a kind of `context.only` selects `source.fixAll.ast-grep` and the
//!   document has an actionable fix; regression oracle for FIX_lsp_only_kinds, witness = session 0).
use super::Ctx;
use crate::util::*;
use ast_grep_config::{from_yaml_string, GlobalRules, RuleCollection, RuleConfig};
use ast_grep_language::SupportLang;
use ast_grep_lsp::{Backend, LspService, Server};
use serde_json::{json, Value};
use std::collections::{BTreeMap, BTreeSet};
use std::path::Path;
use std::time::Duration;
use tokio::io::{duplex, AsyncReadExt, AsyncWriteExt, DuplexStream};

// ---------------------------------------------------------------------------------------------
// rule sets (JavaScript).  Within one set no two rules match the same node: the order of the
// published diagnostics of DIFFERENT rules comes from a HashMap and is not reproducible.

const RS0: &str = r#"id: no-zero
language: JavaScript
severity: warning
message: zero
rule: {kind: number, regex: '^0$'}
fix:
  template: ''
  expandEnd: {regex: '^,$'}
---
id: no-console
language: JavaScript
severity: error
message: no console
rule: {pattern: console.log($$$A)}
fix: logger.info($$$A)
---
id: foo-call
language: JavaScript
severity: hint
message: foo is called
rule: {kind: identifier, regex: '^foo$'}
"#;

const RS1: &str = r#"id: zero-both
language: JavaScript
severity: warning
message: zero
rule: {kind: number, regex: '^0$'}
fix:
  template: ''
  expandStart: {regex: '^,$'}
  expandEnd: {regex: '^,$'}
---
id: nest
language: JavaScript
severity: info
message: statement or call
rule:
  any: [{kind: expression_statement}, {kind: call_expression}]
fix: 'X'
"#;

const RS2: &str = r#"id: zero-left
language: JavaScript
severity: warning
message: zero
rule: {kind: number, regex: '^0$'}
fix:
  template: ''
  expandStart: {regex: '^,$'}
---
id: one-right
language: JavaScript
severity: warning
message: one
rule: {kind: number, regex: '^1$'}
fix:
  template: ''
  expandEnd: {regex: '^,$'}
---
id: log-stmt
language: JavaScript
severity: error
message: no console
rule: {pattern: console.log($A)}
fix:
  template: 'log($A)'
  expandEnd: {regex: '^;$'}
"#;

const RULESETS: [&str; 3] = [RS0, RS1, RS2];

/// (uri, language inferable, has rules)
const URIS: [(&str, bool, bool); 6] = [
  ("file:///ws/a.js", true, true),
  ("file:///ws/sub/b.js", true, true),
  ("file:///ws/c.ts", true, false),
  ("file:///ws/notes.zzz", false, false),
  ("file:///elsewhere/d.js", true, true),
  ("file:///ws/never.js", true, true),
];
const WS: &str = "file:///ws";

const APPLY_ALL: &str = "ast-grep.applyAllFixes";

fn load(yaml: &str) -> Vec<RuleConfig<SupportLang>> {
  from_yaml_string(yaml, &GlobalRules::default()).expect("fixture rules load")
}

// ---------------------------------------------------------------------------------------------
// JSON-RPC client over the duplex stream

struct Client {
  tx: DuplexStream,
  rx: DuplexStream,
  buf: Vec<u8>,
  ws: Option<&'static str>,
  id: i64,
  barrier_seen: usize,
  /// what arrived since the last `take()`
  pubs: Vec<Value>,
  logs: Vec<String>,
  applied: Vec<Value>,
}

impl Client {
  async fn send(&mut self, v: &Value) -> bool {
    let body = v.to_string();
    let msg = format!("Content-Length: {}\r\n\r\n{}", body.len(), body);
    self.tx.write_all(msg.as_bytes()).await.is_ok()
  }

  fn try_parse(&mut self) -> Option<Value> {
    let hay = &self.buf;
    let pos = hay.windows(4).position(|w| w == b"\r\n\r\n")?;
    let head = std::str::from_utf8(&hay[..pos]).ok()?;
    let len: usize = head.split("\r\n").find_map(|l| l.strip_prefix("Content-Length: ")).and_then(|n| n.trim().parse().ok())?;
    let start = pos + 4;
    if hay.len() < start + len {
      return None;
    }
    let body = hay[start..start + len].to_vec();
    self.buf.drain(..start + len);
    serde_json::from_slice(&body).ok()
  }

  async fn read_msg(&mut self) -> Option<Value> {
    loop {
      if let Some(v) = self.try_parse() {
        return Some(v);
      }
      let mut chunk = [0u8; 8192];
      match self.rx.read(&mut chunk).await {
        Ok(0) | Err(_) => return None,
        Ok(n) => self.buf.extend_from_slice(&chunk[..n]),
      }
    }
  }

  /// everything that is not the answer to one of our requests
  async fn handle(&mut self, msg: &Value) {
    let method = msg["method"].as_str().unwrap_or("");
    match method {
      "textDocument/publishDiagnostics" => self.pubs.push(msg["params"].clone()),
      "workspace/workspaceFolders" if !msg["id"].is_null() => {
        let result = match self.ws {
          Some(w) => json!([{"uri": w, "name": "ws"}]),
          None => Value::Null,
        };
        self.send(&json!({"jsonrpc": "2.0", "id": msg["id"], "result": result})).await;
      }
      "workspace/applyEdit" if !msg["id"].is_null() => {
        self.applied.push(msg["params"].clone());
        self.send(&json!({"jsonrpc": "2.0", "id": msg["id"], "result": {"applied": true}})).await;
      }
      "window/logMessage" => {
        let m = msg["params"]["message"].as_str().unwrap_or("");
        if m == "configuration changed!" {
          self.barrier_seen += 1;
        } else {
          self.logs.push(m.to_string());
        }
      }
      _ => {}
    }
  }

  /// wait until the server has completely handled everything sent so far
  async fn barrier(&mut self) -> bool {
    let want = self.barrier_seen + 1;
    let n = json!({"jsonrpc": "2.0", "method": "workspace/didChangeConfiguration", "params": {"settings": {}}});
    if !self.send(&n).await {
      return false;
    }
    while self.barrier_seen < want {
      match self.read_msg().await {
        Some(m) => self.handle(&m).await,
        None => return false,
      }
    }
    true
  }

  /// a request; `Err` = the server is gone; the whole JSON-RPC answer (result or error)
  async fn request(&mut self, method: &str, params: Value) -> Result<Value, ()> {
    self.id += 1;
    let id = self.id;
    if !self.send(&json!({"jsonrpc": "2.0", "id": id, "method": method, "params": params})).await {
      return Err(());
    }
    loop {
      match self.read_msg().await {
        Some(m) if m.get("method").is_none() && m["id"] == json!(id) => return Ok(m),
        Some(m) => self.handle(&m).await,
        None => return Err(()),
      }
    }
  }

  async fn initialize(&mut self) -> bool {
    let caps = json!({"capabilities": {"workspace": {"workspaceFolders": true, "applyEdit": true},
      "textDocument": {"codeAction": {"codeActionLiteralSupport": {"codeActionKind": {"valueSet": ["quickfix", "source.fixAll"]}}}}}});
    if self.request("initialize", caps).await.is_err() {
      return false;
    }
    self.send(&json!({"jsonrpc": "2.0", "method": "initialized", "params": {}})).await && self.barrier().await
  }

  fn take(&mut self) -> (Vec<Value>, Vec<String>, Vec<Value>) {
    (std::mem::take(&mut self.pubs), std::mem::take(&mut self.logs), std::mem::take(&mut self.applied))
  }
}

fn spawn_server(ruleset: usize, ws: Option<&'static str>) -> (Client, tokio::task::JoinHandle<()>) {
  let rc: RuleCollection<SupportLang> = RuleCollection::try_new(load(RULESETS[ruleset])).expect("rule collection");
  let rc_result: std::result::Result<_, String> = Ok(rc);
  let base = Path::new("./").to_path_buf();
  let (service, socket) = LspService::build(|client| Backend::new(client, base, rc_result)).finish();
  let (req_client, req_server) = duplex(1 << 20);
  let (resp_server, resp_client) = duplex(1 << 20);
  let h = tokio::spawn(Server::new(req_server, resp_server, socket).concurrency_level(1).serve(service));
  (Client { tx: req_client, rx: resp_client, buf: vec![], ws, id: 0, barrier_seen: 0, pubs: vec![], logs: vec![], applied: vec![] }, h)
}

// ---------------------------------------------------------------------------------------------
// the analysis of a text: the real `get_diagnostics`, from a server of its own

struct Analyser {
  rt: tokio::runtime::Runtime,
  clients: Vec<Option<Client>>,
  cache: BTreeMap<(usize, String), Vec<Value>>,
  serial: usize,
}

impl Analyser {
  fn new() -> Self {
    let rt = tokio::runtime::Builder::new_multi_thread().worker_threads(1).enable_all().build().unwrap();
    Analyser { rt, clients: vec![None, None, None], cache: BTreeMap::new(), serial: 0 }
  }

  /// the diagnostics the server publishes for `text` opened as a JavaScript file under `ruleset`
  fn analyse(&mut self, ruleset: usize, text: &str) -> Vec<Value> {
    if let Some(d) = self.cache.get(&(ruleset, text.to_string())) {
      return d.clone();
    }
    if self.clients[ruleset].is_none() {
      let c = self.rt.block_on(async {
        let (mut c, _h) = spawn_server(ruleset, None);
        assert!(c.initialize().await, "analysis server initializes");
        c
      });
      self.clients[ruleset] = Some(c);
    }
    self.serial += 1;
    let uri = format!("file:///an/t{}.js", self.serial);
    let c = self.clients[ruleset].as_mut().unwrap();
    let diags = self.rt.block_on(async {
      c.take();
      let open = json!({"jsonrpc": "2.0", "method": "textDocument/didOpen", "params": {
        "textDocument": {"uri": uri, "languageId": "javascript", "version": 0, "text": text}}});
      let close = json!({"jsonrpc": "2.0", "method": "textDocument/didClose", "params": {"textDocument": {"uri": uri}}});
      assert!(c.send(&open).await && c.send(&close).await && c.barrier().await, "analysis server answers");
      let (pubs, _, _) = c.take();
      assert!(pubs.len() == 1, "one publish per analysed text");
      pubs[0]["diagnostics"].as_array().cloned().unwrap_or_default()
    });
    self.cache.insert((ruleset, text.to_string()), diags.clone());
    diags
  }
}

// ---------------------------------------------------------------------------------------------
// sessions

#[derive(Clone, Debug)]
enum ROp {
  Open(usize, i64, String),
  Change(usize, i64, Vec<String>),
  Close(usize),
  CodeAction { u: usize, only: Option<Vec<String>>, diags: Vec<Value> },
  Exec { command: String, args: Vec<Value> },
}

fn op_json(op: &ROp) -> Value {
  match op {
    ROp::Open(u, v, t) => json!({"k": "open", "u": u, "v": v, "t": t}),
    ROp::Change(u, v, ts) => json!({"k": "change", "u": u, "v": v, "ts": ts}),
    ROp::Close(u) => json!({"k": "close", "u": u}),
    ROp::CodeAction { u, only, diags } => json!({"k": "codeAction", "u": u, "only": only, "diags": diags}),
    ROp::Exec { command, args } => json!({"k": "exec", "command": command, "args": args}),
  }
}

fn op_from_json(j: &Value) -> Option<ROp> {
  let strs = |v: &Value| -> Option<Vec<String>> { Some(v.as_array()?.iter().filter_map(|x| x.as_str().map(String::from)).collect()) };
  Some(match j["k"].as_str()? {
    "open" => ROp::Open(j["u"].as_u64()? as usize, j["v"].as_i64()?, j["t"].as_str()?.to_string()),
    "change" => ROp::Change(j["u"].as_u64()? as usize, j["v"].as_i64()?, strs(&j["ts"])?),
    "close" => ROp::Close(j["u"].as_u64()? as usize),
    "codeAction" => ROp::CodeAction {
      u: j["u"].as_u64()? as usize,
      only: if j["only"].is_null() { None } else { Some(strs(&j["only"])?) },
      diags: j["diags"].as_array()?.clone(),
    },
    "exec" => ROp::Exec { command: j["command"].as_str()?.to_string(), args: j["args"].as_array()?.clone() },
    _ => return None,
  })
}

struct Session {
  ws: bool,
  ruleset: usize,
  /// indices into URIS; ops refer to positions in this list
  uris: Vec<usize>,
  ops: Vec<ROp>,
}

const LINES: &[&str] = &[
  "f(0, 0)",
  "f(0, 0, 0);",
  "g(0, #, 0)",
  "f(\"日本\", 0, #)",
  "h(\"é\", 1, 0, #);",
  "k(1, 0)",
  "k(#, 1, 0, 1)",
  "console.log(#)",
  "console.log(\"é\", #);",
  "console.log(#); f(0, #)",
  "foo(#)",
  "foo(#);",
  "h(foo(0, #), 0)",
  "// note #",
  "",
  "let x = #",
  "/* ü */ f(#, 0)",
  // suppression comments: one silencing a rule WITHOUT fix, one silencing a fixable rule, one unused
  "// ast-grep-ignore: foo-call\nfoo(#)",
  "// ast-grep-ignore: no-zero, zero-both, zero-left\nf(0, #)",
  "// ast-grep-ignore: foo-call\nlet y = #",
];

fn gen_text(rng: &mut Rng, serial: &mut u64) -> String {
  let n = 1 + rng.below(4);
  let mut lines = vec![];
  for _ in 0..n {
    *serial += 1;
    lines.push(rng.pick(LINES).replace('#', &format!("{}", *serial + 1)));
  }
  let sep = if rng.chance(1, 8) { "\r\n" } else { "\n" };
  lines.join(sep)
}

fn range_json(a: (u64, u64), b: (u64, u64)) -> Value {
  json!({"start": {"line": a.0, "character": a.1}, "end": {"line": b.0, "character": b.1}})
}

/// what a client may send back for a published diagnostic
fn damage(rng: &mut Rng, d: &Value) -> Value {
  let mut d = d.clone();
  let o = d.as_object_mut().unwrap();
  match rng.below(14) {
    0 => {
      o.remove("source");
    }
    1 => {
      o.insert("source".into(), json!("eslint"));
    }
    2 => {
      o.insert("source".into(), json!("my-ast-grep-fork"));
    }
    3 => {
      o.insert("source".into(), json!("ast-gre"));
    }
    4 => {
      o.remove("code");
    }
    5 => {
      o.insert("code".into(), json!(7));
    }
    6 => {
      o.remove("data");
    }
    7 => {
      o.insert("data".into(), Value::Null);
    }
    8 => {
      o.insert("data".into(), rng.pick(&[json!({"fixed": 3}), json!("text"), json!([1, 2]), json!({"range": range_json((0, 0), (0, 1))}),
        json!({"fixed": "Z", "range": {"start": {"line": 0}}}), json!({"fixed": "Z", "range": "all"})]).clone());
    }
    9 => {
      // a hand-made fix without / with a range of its own, unknown fields are ignored by serde
      o.insert("data".into(), json!({"fixed": "Z", "extra": true}));
    }
    10 => {
      o.insert("data".into(), json!({"fixed": "ZZ", "range": range_json((0, 1), (0, 2))}));
    }
    11 => {
      o.insert("data".into(), json!({"fixed": "Z", "range": null}));
    }
    12 => {
      // the editor moved the diagnostic
      o.insert("range".into(), range_json((3, 1), (3, 4)));
    }
    _ => {
      o.insert("code".into(), json!("renamed-rule"));
    }
  }
  d
}

fn gen_session(rng: &mut Rng, an: &mut Analyser, first: bool) -> Session {
  let ws = rng.chance(1, 2);
  let ruleset = rng.below(RULESETS.len());
  let nu = 1 + rng.below(3);
  let mut pool: Vec<usize> = vec![0, 1, 0, 1, 2, 3, 4];
  let mut uris = vec![];
  while uris.len() < nu {
    let k = pool.remove(rng.below(pool.len()));
    if !uris.contains(&k) {
      uris.push(k);
    }
  }
  // one uri that only requests mention
  uris.push(5);
  let len = 1 + rng.below(12);
  let mut serial = 0u64;
  let mut maxv: Vec<i64> = vec![0; nu];
  // the texts ever sent per uri (for stale client diagnostics) and the reference's current text
  let mut sent: Vec<Vec<String>> = vec![vec![]; nu + 1];
  let mut ops: Vec<ROp> = vec![];
  let mut open_now: Vec<bool> = vec![false; nu];
  let len = if first { 1 } else { len };
  if first || rng.chance(3, 4) {
    let u = rng.below(nu);
    let t = if first { "f(0, 0)".to_string() } else { gen_text(rng, &mut serial) };
    sent[u].push(t.clone());
    maxv[u] = 1;
    open_now[u] = true;
    ops.push(ROp::Open(u, 1, t));
  }
  while ops.len() < len {
    let u = rng.below(nu);
    let mut version = |rng: &mut Rng| -> i64 {
      let v = match rng.below(10) {
        0..=5 => maxv[u] + 1,
        6 | 7 => rng.range(0, 6),
        8 => maxv[u],
        _ => *rng.pick(&[i32::MAX as i64, -1, 0, 1000]),
      };
      if v > maxv[u] && v < 1_000_000 {
        maxv[u] = v;
      }
      v
    };
    // a document that is not open is opened first, most of the time
    let roll = if !open_now[u] && rng.chance(2, 3) { 0 } else { rng.below(20) };
    let op = match roll {
      0 | 1 => {
        open_now[u] = true;
        let t = gen_text(rng, &mut serial);
        sent[u].push(t.clone());
        ROp::Open(u, version(rng), t)
      }
      2 => {
        open_now[u] = false;
        ROp::Close(u)
      }
      3..=6 => {
        let k = if rng.chance(1, 10) { rng.below(3) } else { 1 };
        let ts: Vec<String> = (0..k).map(|_| gen_text(rng, &mut serial)).collect();
        if let Some(t) = ts.last() {
          sent[u].push(t.clone());
        }
        ROp::Change(u, version(rng), ts)
      }
      7..=14 => {
        // a code action for any uri of the session, the request-only one included
        let u = if rng.chance(1, 8) { nu } else { u };
        let only = match rng.below(13) {
          0 | 1 | 2 => None,
          3 | 4 => Some(vec!["quickfix".to_string()]),
          5 | 6 | 7 => Some(vec!["source.fixAll".to_string()]),
          8 => Some(vec![rng.pick(&["refactor", "", "quickfix.ast-grep", "source.fixAllx", "source.", "source.fix", "source.fixAll.ast-grep.x", ".", "source.fixAll."]).to_string()]),
          11 => Some(vec![rng.pick(&["source", "source.fixAll.ast-grep"]).to_string()]),
          9 => Some(vec!["quickfix".to_string(), "source.fixAll".to_string()]),
          10 => Some(vec![]),
          _ => Some(vec!["source.organizeImports".to_string(), "source.fixAll.ast-grep".to_string()]),
        };
        // client diagnostics: fresh (the last text sent for the uri), stale (an older one), foreign
        let src_u = if rng.chance(1, 10) { rng.below(nu) } else { u.min(nu - 1) };
        let texts = &sent[src_u];
        let mut diags: Vec<Value> = vec![];
        if !texts.is_empty() && !rng.chance(1, 8) {
          let t = if rng.chance(2, 3) { texts.last().unwrap() } else { rng.pick(texts) };
          let has_rules = URIS[uris[src_u]].2;
          let all = if has_rules { an.analyse(ruleset, t) } else { vec![] };
          let whole = rng.chance(1, 3);
          for d in all {
            if whole {
              diags.push(d);
            } else if rng.chance(4, 5) {
              diags.push(if rng.chance(1, 5) { damage(rng, &d) } else { d });
            }
          }
          if rng.chance(1, 6) {
            diags.reverse();
          }
        }
        ROp::CodeAction { u, only, diags }
      }
      _ => {
        let command = match rng.below(8) {
          0 => "ast-grep.other".to_string(),
          1 => rng.pick(&["", "ast-grep.applyAllFixes ", "applyAllFixes"]).to_string(),
          _ => APPLY_ALL.to_string(),
        };
        let u = if rng.chance(1, 8) { nu } else { u };
        let name = URIS[uris[u]].0;
        // the argument's own version / text are whatever the client has: often not the server's
        let item = json!({"uri": name, "languageId": "javascript", "version": rng.range(0, 9), "text": if rng.chance(1, 2) { "f(0, 0)".to_string() } else { gen_text(rng, &mut serial) }});
        let args = match rng.below(12) {
          0 => vec![],
          1 => vec![json!({"uri": name})],
          2 => vec![json!("file:///ws/a.js")],
          3 => vec![json!({"uri": "not a uri", "languageId": "javascript", "version": 1, "text": ""})],
          4 => vec![item, json!(42)],
          5 => vec![json!({"uri": name, "languageId": "javascript", "version": "1", "text": ""})],
          6 => vec![Value::Null, item],
          _ => vec![item],
        };
        ROp::Exec { command, args }
      }
    };
    ops.push(op);
  }
  if first {
    // the documented witness: the rule deleting `0` and its comma, quick fix then fix-all then the command
    let d = an.analyse(ruleset, "f(0, 0)");
    ops.push(ROp::CodeAction { u: 0, only: None, diags: d.clone() });
    ops.push(ROp::CodeAction { u: 0, only: Some(vec!["source.fixAll".into()]), diags: vec![] });
    ops.push(ROp::Change(0, 2, vec!["f(0, 0, 0)".into()]));
    ops.push(ROp::CodeAction { u: 0, only: Some(vec!["source.fixAll".into()]), diags: d });
    ops.push(ROp::Exec { command: APPLY_ALL.into(), args: vec![json!({"uri": URIS[uris[0]].0, "languageId": "javascript", "version": 1, "text": "f(0, 0)"})] });
    // the witness of FIX_lsp_only_kinds: the server's own fix-all kind and its ancestor select the
    // fix-all action, a kind that merely starts with the same letters and the empty kind do not
    let d = an.analyse(ruleset, "f(0, 0, 0)");
    for k in ["source.fixAll.ast-grep", "source", "source.fixAllx", "", "refactor"] {
      ops.push(ROp::CodeAction { u: 0, only: Some(vec![k.into()]), diags: d.clone() });
    }
  }
  Session { ws, ruleset, uris, ops }
}

fn outside(s: &Session, k: usize) -> bool {
  s.ws && !URIS[k].0.starts_with("file:///ws/")
}

fn cfg_json(s: &Session) -> Value {
  json!({
    "ws": s.ws,
    "ruleset": s.ruleset,
    "uris": s.uris.iter().map(|&k| json!({"uri": URIS[k].0, "lang": URIS[k].1, "rules": URIS[k].2, "outside": outside(s, k)})).collect::<Vec<_>>(),
  })
}

// ---------------------------------------------------------------------------------------------
// canonical JSON of what the client saw

fn pos4(r: &Value) -> Vec<Value> {
  vec![r["start"]["line"].clone(), r["start"]["character"].clone(), r["end"]["line"].clone(), r["end"]["character"].clone()]
}

/// `[sl, sc, el, ec, code, fixed|null, esl, esc, eel, eec]` of a published diagnostic; the edit
/// range is `data.range` when present, the diagnostic's own range otherwise
fn diag_canon(d: &Value) -> Value {
  let mut v = pos4(&d["range"]);
  v.push(d["code"].clone());
  v.push(d["data"]["fixed"].clone());
  let er = if d["data"]["range"].is_object() { &d["data"]["range"] } else { &d["range"] };
  v.extend(pos4(er));
  Value::Array(v)
}

fn sort_canon(v: &mut Vec<Value>) {
  v.sort_by_key(|x| x.to_string());
}

fn uri_index(s: &Session, uri: &str) -> Value {
  s.uris.iter().position(|&k| URIS[k].0 == uri).map(|x| json!(x)).unwrap_or(json!(uri))
}

fn edits_canon(edits: &Value) -> Value {
  json!(edits
    .as_array()
    .map(|es| es.iter().map(|e| { let mut v = pos4(&e["range"]); v.push(e["newText"].clone()); Value::Array(v) }).collect::<Vec<_>>())
    .unwrap_or_default())
}

/// `{uri index: edits}` of a `WorkspaceEdit.changes`, as a sorted list of pairs
fn changes_canon(s: &Session, changes: &Value) -> Value {
  let mut v: Vec<Value> = changes.as_object().map(|m| m.iter().map(|(k, es)| json!([uri_index(s, k), edits_canon(es)])).collect()).unwrap_or_default();
  sort_canon(&mut v);
  json!(v)
}

fn pubs_canon(s: &Session, pubs: &[Value]) -> Value {
  json!(pubs
    .iter()
    .map(|p| {
      let mut ds: Vec<Value> = p["diagnostics"].as_array().map(|a| a.iter().map(diag_canon).collect()).unwrap_or_default();
      // canonical order (the driver sorts with the same key): range, then rule id, then fixed text, bytewise
      ds.sort_by_key(|d| {
        let n: Vec<u64> = (0..4).map(|k| d[k].as_u64().unwrap_or(0)).collect();
        (n, d[4].as_str().unwrap_or("").as_bytes().to_vec(), d[5].as_str().unwrap_or("").as_bytes().to_vec())
      });
      json!([uri_index(s, p["uri"].as_str().unwrap_or("")), p["version"], ds])
    })
    .collect::<Vec<_>>())
}

fn classify_cmd(s: &Session, logs: &[String], applied: &[Value]) -> Value {
  if applied.len() > 1 {
    return json!({"several_apply_edits": applied.len()});
  }
  if let Some(a) = applied.first() {
    if !a["edit"]["documentChanges"].is_null() || !a["edit"]["changeAnnotations"].is_null() {
      return json!({"unexpected_edit": a});
    }
    return json!({"applied": changes_canon(s, &a["edit"]["changes"])});
  }
  let has = |p: &str| logs.iter().any(|l| l.starts_with(p));
  let running = has("Running ExecuteCommand");
  if has("Unrecognized command") && !running {
    json!("unrecognized")
  } else if !running {
    json!({"unexpected_logs": logs})
  } else if has("JSON deserialization error") {
    json!("jsonError")
  } else if has("Unsupported file type") {
    json!("unsupported")
  } else if has("No actionable fix") {
    json!("noFix")
  } else {
    json!("noArgs")
  }
}

async fn run_session(s: &Session) -> Value {
  let (mut c, server) = spawn_server(s.ruleset, if s.ws { Some(WS) } else { None });
  if !c.initialize().await {
    return json!({"harness_error": "initialize failed"});
  }
  c.take();
  let names: Vec<&str> = s.uris.iter().map(|&k| URIS[k].0).collect();
  let mut outs: Vec<Value> = vec![];
  for op in &s.ops {
    let gone = json!("server gone");
    let r = match op {
      ROp::Open(u, v, t) => {
        let n = json!({"jsonrpc": "2.0", "method": "textDocument/didOpen", "params": {
          "textDocument": {"uri": names[*u], "languageId": "javascript", "version": v, "text": t}}});
        if c.send(&n).await && c.barrier().await { let (p, _, a) = c.take(); json!({"pubs": pubs_canon(s, &p), "applied": a.len()}) } else { gone }
      }
      ROp::Change(u, v, ts) => {
        let n = json!({"jsonrpc": "2.0", "method": "textDocument/didChange", "params": {
          "textDocument": {"uri": names[*u], "version": v},
          "contentChanges": ts.iter().map(|t| json!({"text": t})).collect::<Vec<_>>()}});
        if c.send(&n).await && c.barrier().await { let (p, _, a) = c.take(); json!({"pubs": pubs_canon(s, &p), "applied": a.len()}) } else { gone }
      }
      ROp::Close(u) => {
        let n = json!({"jsonrpc": "2.0", "method": "textDocument/didClose", "params": {"textDocument": {"uri": names[*u]}}});
        if c.send(&n).await && c.barrier().await { let (p, _, a) = c.take(); json!({"pubs": pubs_canon(s, &p), "applied": a.len()}) } else { gone }
      }
      ROp::CodeAction { u, only, diags } => {
        let mut ctx = json!({"diagnostics": diags});
        if let Some(k) = only {
          ctx["only"] = json!(k);
        }
        let p = json!({"textDocument": {"uri": names[*u]}, "range": range_json((0, 0), (0, 0)), "context": ctx});
        match c.request("textDocument/codeAction", p).await {
          Err(()) => gone,
          Ok(m) => {
            // the barrier makes sure nothing else (a publish, an applyEdit) was caused by the request
            let alive = c.barrier().await;
            let (pubs, _, applied) = c.take();
            let actions = if let Some(e) = m.get("error") {
              json!({"error": e["code"]})
            } else if let Some(acts) = m["result"].as_array() {
              json!(acts
                .iter()
                .map(|a| json!({
                  "kind": a["kind"], "title": a["title"], "preferred": a["isPreferred"],
                  "changes": changes_canon(s, &a["edit"]["changes"]),
                  "other": a.get("command").is_some() || a.get("diagnostics").is_some() || a.get("data").is_some() || a.get("disabled").is_some(),
                }))
                .collect::<Vec<_>>())
            } else {
              m["result"].clone()
            };
            json!({"actions": actions, "pubs": pubs.len(), "applied": applied.len(), "alive": alive})
          }
        }
      }
      ROp::Exec { command, args } => match c.request("workspace/executeCommand", json!({"command": command, "arguments": args})).await {
        Err(()) => gone,
        Ok(m) => {
          let alive = c.barrier().await;
          let (pubs, logs, applied) = c.take();
          let resp = if let Some(e) = m.get("error") { json!({"error": e["code"]}) } else { m["result"].clone() };
          json!({"cmd": classify_cmd(s, &logs, &applied), "resp": resp, "pubs": pubs.len(), "alive": alive})
        }
      },
    };
    let stop = r == json!("server gone");
    outs.push(r);
    if stop {
      break;
    }
  }
  let _ = c.send(&json!({"jsonrpc": "2.0", "id": 9999, "method": "shutdown"})).await;
  drop(c.tx);
  let joined = tokio::time::timeout(Duration::from_secs(5), server).await;
  let panicked = matches!(joined, Ok(Err(ref e)) if e.is_panic());
  json!({"outs": outs, "panicked": panicked})
}

fn block_on_session(rt: &tokio::runtime::Runtime, s: &Session) -> Value {
  rt.block_on(async {
    match tokio::time::timeout(Duration::from_secs(30), run_session(s)).await {
      Ok(v) => v,
      Err(_) => json!("hang"),
    }
  })
}

/// the analysis table handed to the model: every text of the session → its published diagnostics
fn analysis_table(s: &Session, an: &mut Analyser) -> Value {
  let mut texts: BTreeSet<String> = BTreeSet::new();
  for op in &s.ops {
    match op {
      ROp::Open(_, _, t) => {
        texts.insert(t.clone());
      }
      ROp::Change(_, _, ts) => {
        if let Some(t) = ts.last() {
          texts.insert(t.clone());
        }
      }
      _ => {}
    }
  }
  json!(texts.iter().map(|t| json!([t, an.analyse(s.ruleset, t)])).collect::<Vec<_>>())
}

fn session_args(s: &Session, an: &mut Analyser) -> Value {
  json!({"cfg": cfg_json(s), "an": analysis_table(s, an), "session": s.ops.iter().map(op_json).collect::<Vec<_>>()})
}

// ---------------------------------------------------------------------------------------------
// oracles (references written from the LSP specification and the property texts)

fn pos_lt(a: (u64, u64), b: (u64, u64)) -> bool {
  a.0 < b.0 || (a.0 == b.0 && a.1 < b.1)
}

fn edit_pos(e: &Value) -> Option<((u64, u64), (u64, u64))> {
  Some(((e[0].as_u64()?, e[1].as_u64()?), (e[2].as_u64()?, e[3].as_u64()?)))
}

/// ordered and pairwise disjoint in (line, character) order
fn ordered_disjoint(edits: &[Value]) -> bool {
  let mut last: Option<(u64, u64)> = None;
  for e in edits {
    let Some((a, b)) = edit_pos(e) else { return false };
    if pos_lt(b, a) || last.map(|l| pos_lt(a, l)).unwrap_or(false) {
      return false;
    }
    last = Some(b);
  }
  true
}

/// byte offset of an LSP position (zero-based line, column in characters; a position may sit at the
/// end of a line, i.e. before its `\n`)
fn off_of(src: &str, line: u64, col: u64) -> Option<usize> {
  let mut start = 0usize;
  for _ in 0..line {
    start += src[start..].find('\n')? + 1;
  }
  let mut n = 0u64;
  for (i, ch) in src[start..].char_indices() {
    if n == col {
      return Some(start + i);
    }
    if ch == '\n' {
      return None;
    }
    n += 1;
  }
  if n == col { Some(src.len()) } else { None }
}

fn apply_edits(src: &str, edits: &[Value]) -> Option<String> {
  let mut bytes: Vec<(usize, usize, String)> = vec![];
  for e in edits {
    let (a, b) = edit_pos(e)?;
    bytes.push((off_of(src, a.0, a.1)?, off_of(src, b.0, b.1)?, e[4].as_str()?.to_string()));
  }
  let mut cur = src.to_string();
  let mut bound = usize::MAX;
  for (s, e, rep) in bytes.iter().rev() {
    if *e > bound || s > e || !cur.is_char_boundary(*s) || !cur.is_char_boundary(*e) {
      return None;
    }
    cur = format!("{}{}{}", &cur[..*s], rep, &cur[*e..]);
    bound = *s;
  }
  Some(cur)
}

/// reference document tracking, from the LSP specification and the property: per uri the text of
/// the highest version received since the document was last opened (latest among equals; a
/// didChange carries the text of its last content change), nothing once closed / never opened /
/// not servable
struct RefDocs {
  cur: Vec<Option<(i64, String)>>,
}

impl RefDocs {
  fn feed(&mut self, s: &Session, op: &ROp) {
    let servable = |u: usize| URIS[s.uris[u]].1 && !outside(s, s.uris[u]);
    match op {
      ROp::Open(u, v, t) if servable(*u) => self.cur[*u] = Some((*v, t.clone())),
      ROp::Change(u, v, ts) if servable(*u) => {
        if let (Some(t), Some((cv, _))) = (ts.last(), self.cur[*u].as_ref()) {
          if *v >= *cv {
            self.cur[*u] = Some((*v, t.clone()));
          }
        }
      }
      ROp::Close(u) => self.cur[*u] = None,
      _ => {}
    }
  }
}

/// LSP kind hierarchy: `requested` selects `kind` when it is that kind or one of its ancestors
/// (`source` selects `source.fixAll.ast-grep`); the empty kind selects nothing
fn selects_kind(requested: &str, kind: &str) -> bool {
  requested == kind || kind.starts_with(&format!("{requested}."))
}

#[derive(Default)]
struct CliWork {
  /// per rule set: texts whose fix-all result (edits, possibly none) is to be compared with `scan -U`
  fixall: Vec<BTreeMap<String, Value>>,
  /// per rule set: texts whose fresh quick fixes (edits) are to be compared with `scan --json`
  quick: Vec<BTreeMap<String, Vec<Value>>>,
}

/// the oracles of one session, on the implementation's outputs alone; returns failures (name, fp, detail)
fn session_oracles(s: &Session, an: &mut Analyser, outs: &[Value], work: &mut CliWork) -> Vec<(&'static str, String, Value)> {
  let mut bad = vec![];
  let mut docs = RefDocs { cur: vec![None; s.uris.len()] };
  for (i, (op, out)) in s.ops.iter().zip(outs).enumerate() {
    docs.feed(s, op);
    match op {
      ROp::CodeAction { u, only, diags } => {
        if out["pubs"] != json!(0) || out["applied"] != json!(0) {
          bad.push(("req_no_side_effect", "codeAction causes a publish / an applyEdit".to_string(), json!({"at": i})));
        }
        let acts = out["actions"].as_array().cloned().unwrap_or_default();
        // the request selects the server's fix-all kind (LSP kind hierarchy)
        let selects = only.as_ref().map(|k| k.iter().any(|x| selects_kind(x, "source.fixAll.ast-grep"))).unwrap_or(false);
        let has_fixall = acts.iter().any(|a| a["kind"] == json!("source.fixAll.ast-grep"));
        // whether the answer is of the fix-all sort at all is `req_only_hierarchy`'s business: the other
        // oracles judge the answer for what it is
        let latest = docs.cur[*u].as_ref().map(|x| x.1.clone());
        let fixable = latest.as_ref().map(|t| URIS[s.uris[*u]].2 && an.analyse(s.ruleset, t).iter().any(|d| d["data"]["fixed"].is_string())).unwrap_or(false);
        let wants_fixall = has_fixall || (selects && acts.is_empty() && !fixable);
        let fixall_edits: Vec<Vec<Value>> = acts
          .iter()
          .filter(|a| a["kind"] == json!("source.fixAll.ast-grep"))
          .map(|a| a["changes"][0][1].as_array().cloned().unwrap_or_default())
          .collect();
        for es in &fixall_edits {
          if !ordered_disjoint(es) {
            bad.push(("req_edits_ordered", "fix-all code action: edits not ordered / disjoint".to_string(), json!({"at": i, "edits": es})));
          }
        }
        if wants_fixall {
          // the fix-all answer is about the latest text of the document (none: no action)
          match &latest {
            None => {
              if !acts.is_empty() {
                bad.push(("req_fixall_latest", "fix-all for a document that is not open".to_string(), json!({"at": i})));
              }
            }
            Some(t) => {
              if URIS[s.uris[*u]].2 {
                work.fixall[s.ruleset].insert(t.clone(), json!(fixall_edits.first().cloned()));
              } else if !acts.is_empty() {
                bad.push(("req_fixall_latest", "fix-all for a document without rules".to_string(), json!({"at": i})));
              }
            }
          }
        } else {
          // quick fixes: none invented — each is (replaced range := fixed) of a diagnostic sent
          for a in &acts {
            let e = &a["changes"][0][1][0];
            let found = diags.iter().any(|d| {
              let dc = diag_canon(d);
              d["data"]["fixed"].is_string() && e[4] == d["data"]["fixed"] && (0..4).all(|k| e[k] == dc[6 + k])
                && a["title"] == json!(format!("Fix `{}` with ast-grep", d["code"].as_str().unwrap_or("\u{0}")))
            });
            if a["kind"] != json!("quickfix") || !found || a["changes"][0][0] != json!(u) || a["changes"].as_array().map(|c| c.len()) != Some(1) {
              bad.push(("req_quickfix_of_diagnostic", "quick fix that is not the fix of a diagnostic sent".to_string(), json!({"at": i, "action": a})));
            }
          }
          // fresh, undamaged diagnostics of the latest text: the quick fixes are the CLI's edits
          if let Some(t) = &latest {
            if URIS[s.uris[*u]].2 && !diags.is_empty() {
              let mut fresh = an.analyse(s.ruleset, t);
              let mut sent = diags.clone();
              sort_canon(&mut fresh);
              sort_canon(&mut sent);
              if fresh == sent {
                let es: Vec<Value> = acts.iter().map(|a| a["changes"][0][1][0].clone()).collect();
                work.quick[s.ruleset].insert(t.clone(), es);
              }
            }
          }
        }
        // the LSP kind hierarchy: the fix-all action is offered iff a requested kind selects the
        // server's fix-all kind and the latest text of the document has a finding with a fix
        if selects && fixable && !has_fixall {
          bad.push((
            "req_only_hierarchy",
            "codeAction only=[a kind containing source.fixAll.ast-grep other than source.fixAll]: no fix-all action".to_string(),
            json!({"at": i, "only": only, "text": latest}),
          ));
        }
        if has_fixall && !(selects && fixable) {
          bad.push((
            "req_only_hierarchy",
            "codeAction: a fix-all action although no requested kind selects source.fixAll.ast-grep / nothing to fix".to_string(),
            json!({"at": i, "only": only, "text": latest}),
          ));
        }
      }
      ROp::Exec { command, args } => {
        if out["pubs"] != json!(0) {
          bad.push(("req_no_side_effect", "executeCommand causes a publish".to_string(), json!({"at": i})));
        }
        if !out["resp"].is_null() {
          bad.push(("req_exec_response", "executeCommand answers something else than null".to_string(), json!({"at": i, "resp": out["resp"]})));
        }
        let applied = out["cmd"]["applied"].as_array().cloned();
        if let Some(ch) = &applied {
          let es = ch.first().map(|c| c[1].as_array().cloned().unwrap_or_default()).unwrap_or_default();
          if !ordered_disjoint(&es) || ch.len() != 1 {
            bad.push(("req_edits_ordered", "applyAllFixes: edits not ordered / disjoint".to_string(), json!({"at": i, "edits": es})));
          }
        }
        // the command works on the server's latest text of the document named by its first argument
        if command == APPLY_ALL {
          let target = args.first().and_then(|a| {
            let ok = a["uri"].is_string() && a["languageId"].is_string() && a["version"].is_i64() && a["text"].is_string();
            if ok { s.uris.iter().position(|&k| Some(URIS[k].0) == a["uri"].as_str()) } else { None }
          });
          match target.and_then(|u| docs.cur[u].as_ref().map(|x| (u, x.1.clone()))) {
            Some((u, t)) if URIS[s.uris[u]].2 => {
              let es = applied.as_ref().map(|ch| ch[0][1].clone());
              if applied.as_ref().map(|ch| ch[0][0] != json!(u)).unwrap_or(false) {
                bad.push(("req_fixall_latest", "applyAllFixes edits another document".to_string(), json!({"at": i})));
              }
              work.fixall[s.ruleset].insert(t, json!(es));
            }
            _ => {
              if applied.is_some() {
                bad.push(("req_fixall_latest", "applyAllFixes edits a document that is not open / not named".to_string(), json!({"at": i})));
              }
            }
          }
        } else if applied.is_some() {
          bad.push(("req_fixall_latest", "an unknown command applies an edit".to_string(), json!({"at": i})));
        }
      }
      _ => {}
    }
  }
  // fix-all and the command agree on the same state: ask both at the end of the session
  bad
}

/// the CLI on the collected texts: `scan --json=stream` (announced edits) and `scan -U` (written text)
fn cli_oracles(work: &CliWork, o: &mut Out) -> (usize, usize) {
  let (mut n_fix, mut n_quick) = (0usize, 0usize);
  for rs in 0..RULESETS.len() {
    let mut texts: BTreeSet<&String> = work.fixall[rs].keys().collect();
    texts.extend(work.quick[rs].keys());
    if texts.is_empty() {
      continue;
    }
    let dir = tempfile::tempdir().expect("tempdir");
    let root = dir.path();
    std::fs::create_dir_all(root.join("rules")).unwrap();
    std::fs::create_dir_all(root.join("src")).unwrap();
    std::fs::write(root.join("sgconfig.yml"), "ruleDirs: [rules]\n").unwrap();
    std::fs::write(root.join("rules/r.yml"), RULESETS[rs]).unwrap();
    let names: BTreeMap<&String, String> = texts.iter().enumerate().map(|(i, t)| (*t, format!("src/t{i:04}.js"))).collect();
    for (t, n) in &names {
      std::fs::write(root.join(n), t.as_bytes()).unwrap();
    }
    let run = |args: &[&str]| -> (String, String) {
      let args: Vec<String> = args.iter().map(|a| a.to_string()).collect();
      let out = super::worker::run_cli(&args, root, None, &[], Duration::from_secs(60));
      let st = if out.hang { "hang".to_string() } else { out.code.map(|c| c.to_string()).unwrap_or_else(|| "signal".into()) };
      (st, String::from_utf8_lossy(&out.stdout).to_string())
    };
    let (st, json_out) = run(&["scan", "--json=stream", "src"]);
    let mut announced: BTreeMap<String, Vec<(usize, usize, String)>> = BTreeMap::new();
    for line in json_out.lines() {
      if let Ok(r) = serde_json::from_str::<Value>(line) {
        if let (Some(f), Some(rep)) = (r["file"].as_str(), r["replacement"].as_str()) {
          let (a, b) = (r["replacementOffsets"]["start"].as_u64().unwrap_or(0) as usize, r["replacementOffsets"]["end"].as_u64().unwrap_or(0) as usize);
          announced.entry(f.to_string()).or_default().push((a, b, rep.to_string()));
        }
      }
    }
    for (t, es) in &work.quick[rs] {
      n_quick += 1;
      let mut lsp: Vec<(usize, usize, String)> = es
        .iter()
        .filter_map(|e| {
          let (a, b) = edit_pos(e)?;
          Some((off_of(t, a.0, a.1)?, off_of(t, b.0, b.1)?, e[4].as_str()?.to_string()))
        })
        .collect();
      let mut cli = announced.get(&names[t]).cloned().unwrap_or_default();
      lsp.sort();
      cli.sort();
      if lsp != cli || lsp.len() != es.len() {
        o.oracle("req_quickfix_eq_cli", false, json!({"fp": format!("quick fixes of fresh diagnostics differ from scan --json (rule set {rs})"),
          "text": t, "lsp": lsp, "cli": cli, "status": st}));
      }
    }
    let (st_u, _) = run(&["scan", "-U", "src"]);
    for (t, es) in &work.fixall[rs] {
      n_fix += 1;
      let written = std::fs::read_to_string(root.join(&names[t])).unwrap_or_default();
      let expected = match es.as_array() {
        Some(es) => apply_edits(t, es),
        None => Some(t.clone()),
      };
      if expected.as_ref() != Some(&written) {
        o.oracle("req_fixall_eq_cli", false, json!({"fp": format!("fix-all on the latest text differs from scan -U (rule set {rs})"),
          "text": t, "lsp_edits": es, "lsp_applied": expected, "cli_written": written, "status": st_u}));
      }
    }
  }
  (n_fix, n_quick)
}

pub fn lsp_requests(ctx: &Ctx, rng: &mut Rng, o: &mut Out) {
  let rt = tokio::runtime::Builder::new_multi_thread().worker_threads(2).enable_all().build().unwrap();
  let mut an = Analyser::new();
  let n = if ctx.thorough { 12000 } else { 1000 };
  let mut work = CliWork { fixall: vec![BTreeMap::new(); RULESETS.len()], quick: vec![BTreeMap::new(); RULESETS.len()] };
  let (mut sessions, mut nops, mut requests, mut actions, mut applied, mut stale) = (0usize, 0usize, 0usize, 0usize, 0usize, 0usize);
  let mut known: BTreeSet<String> = BTreeSet::new();
  for i in 0..n {
    let mut s = gen_session(rng, &mut an, i == 0);
    // fix-all and the command on the same state (the property `fixall_eq_execute`): for an open uri
    // ask both in a row now and then
    if i % 2 == 0 {
      let name = URIS[s.uris[0]].0;
      s.ops.push(ROp::CodeAction { u: 0, only: Some(vec!["source.fixAll".into()]), diags: vec![] });
      s.ops.push(ROp::Exec { command: APPLY_ALL.into(), args: vec![json!({"uri": name, "languageId": "javascript", "version": 0, "text": ""})] });
    }
    let args = session_args(&s, &mut an);
    let r = block_on_session(&rt, &s);
    sessions += 1;
    nops += s.ops.len();
    if let Some(outs) = r["outs"].as_array() {
      if r["panicked"] == json!(true) || outs.len() != s.ops.len() {
        o.oracle("req_no_crash", false, json!({"fp": "lsp session: server stopped", "session": args["session"], "cfg": args["cfg"]}));
      } else {
        for (name, fp, detail) in session_oracles(&s, &mut an, outs, &mut work) {
          // one line per (oracle, input class) and session
          if known.insert(format!("{name}/{fp}/{i}")) {
            o.oracle(name, false, json!({"fp": fp, "detail": detail, "session": args["session"], "cfg": args["cfg"]}));
          }
        }
        if i % 2 == 0 {
          let k = outs.len();
          let a = &outs[k - 2]["actions"];
          let fix = if a.is_null() { Value::Null } else { a[0]["changes"].clone() };
          let cmd = &outs[k - 1]["cmd"]["applied"];
          if fix != *cmd {
            o.oracle("req_fixall_eq_execute", false, json!({"fp": "source.fixAll and applyAllFixes differ on the same state", "fixall": fix, "command": cmd,
              "session": args["session"], "cfg": args["cfg"]}));
          }
        }
        for (op, out) in s.ops.iter().zip(outs) {
          match op {
            ROp::CodeAction { .. } => {
              requests += 1;
              actions += out["actions"].as_array().map(|a| a.len()).unwrap_or(0);
            }
            ROp::Exec { .. } => {
              requests += 1;
              if out["cmd"]["applied"].is_array() {
                applied += 1;
              }
            }
            ROp::Change(_, _, _) if out["pubs"].as_array().map(|p| p.is_empty()).unwrap_or(false) => stale += 1,
            _ => {}
          }
        }
      }
    } else {
      o.oracle("req_no_hang", false, json!({"fp": "lsp session: no answer", "result": r, "session": args["session"], "cfg": args["cfg"]}));
    }
    o.op("lsp_session", args, r);
  }
  let (n_fix, n_quick) = cli_oracles(&work, o);
  o.oracle("req_sessions", true, json!({"cases": sessions, "ops": nops, "requests": requests, "actions_returned": actions,
    "apply_edits": applied, "ignored_changes": stale, "texts_vs_scan_U": n_fix, "texts_vs_scan_json": n_quick}));
  rt.shutdown_background();
}

pub fn exec(op: &str, a: &Value) -> Option<Value> {
  if op != "lsp_session" {
    return None;
  }
  let ws = a["cfg"]["ws"].as_bool()?;
  let ruleset = a["cfg"]["ruleset"].as_u64()? as usize;
  let uris: Vec<usize> = a["cfg"]["uris"].as_array()?.iter().filter_map(|u| URIS.iter().position(|x| Some(x.0) == u["uri"].as_str())).collect();
  let ops: Vec<ROp> = a["session"].as_array()?.iter().filter_map(op_from_json).collect();
  let s = Session { ws, ruleset, uris, ops };
  let rt = tokio::runtime::Builder::new_multi_thread().worker_threads(2).enable_all().build().ok()?;
  let r = block_on_session(&rt, &s);
  rt.shutdown_background();
  Some(r)
}
