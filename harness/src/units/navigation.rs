//! C19 unit `navigation`: tree navigation, traversals and positions of the real `Node` API on
//! corpus trees (+ mutated variants), dumped as lists of pre-order ids for the Lean model, and
//! the property oracle on the implementation alone (recursive baselines over `children()`).
//!
//! ops (all with `t` = registered document, `node` = pre-order id; for replay the document may be
//! given inline as `lang` + `src` + `tree`):
//!  * `contract:wf`    the tree-sitter contract of DESIGN 5.2 that is decidable on the dump
//!  * `nav_pre` / `nav_post` / `nav_level`     `dfs()`, `Post::new`, `Level::new`
//!  * `nav_visit`      `Visitor::new(KindMatcher).algorithm::<A>().reentrant(r).named_only(k)`
//!  * `nav_node`       `parent()`, `children()`, `next()`, `prev()`
//!  * `nav_ancestors` / `nav_next_all` / `nav_prev_all`
//!  * `nav_pos`        `start_pos()` / `end_pos()` as `[line, column(&node)]`
use super::Ctx;
use crate::corpus::{self, Source};
use crate::treedump::Ids;
use crate::units::matching::register_tree;
use crate::util::*;
use ast_grep_core::matcher::KindMatcher;
use ast_grep_core::traversal::{Level, Post, PostOrder, Visitor};
use ast_grep_core::{Language, Node, StrDoc};
use ast_grep_language::SupportLang;
use serde_json::{json, Value};
use std::collections::{HashMap, HashSet};

type N<'r> = Node<'r, StrDoc<SupportLang>>;

fn idl<'r>(it: impl Iterator<Item = N<'r>>, ids: &Ids) -> Value {
  json!(it.map(|n| ids.of(&n)).collect::<Vec<_>>())
}

fn opt_id(n: Option<N>, ids: &Ids) -> Value {
  match n {
    Some(n) => json!(ids.of(&n)),
    None => Value::Null,
  }
}

/// the real functions, one op each
pub fn real(op: &str, a: &Value, node: &N, ids: &Ids) -> Value {
  guard(|| match op {
    "nav_pre" => idl(node.dfs(), ids),
    "nav_post" => idl(Post::new(node), ids),
    "nav_level" => idl(Level::new(node), ids),
    "nav_visit" => {
      let kind = a["kind"].as_u64().unwrap_or(0) as u16;
      let m = KindMatcher::<SupportLang>::from_id(kind);
      let re = a["reentrant"].as_bool().unwrap_or(true);
      let named = a["named"].as_bool().unwrap_or(false);
      if a["algo"] == json!("post") {
        let v = Visitor::new(m).algorithm::<PostOrder>().reentrant(re).named_only(named);
        idl(v.visit(node.clone()).map(|nm| nm.get_node().clone()), ids)
      } else {
        let v = Visitor::new(m).reentrant(re).named_only(named);
        idl(v.visit(node.clone()).map(|nm| nm.get_node().clone()), ids)
      }
    }
    "nav_replace_all" => {
      let kind = a["kind"].as_u64().unwrap_or(0) as u16;
      let m = KindMatcher::<SupportLang>::from_id(kind);
      json!(node.replace_all(m, "X").iter().map(|e| json!([e.position, e.deleted_length, e.inserted_text.len()])).collect::<Vec<_>>())
    }
    "nav_node" => json!({
      "parent": opt_id(node.parent(), ids),
      "children": idl(node.children(), ids),
      "next": opt_id(node.next(), ids),
      "prev": opt_id(node.prev(), ids),
    }),
    "nav_ancestors" => idl(node.ancestors(), ids),
    "nav_next_all" => idl(node.next_all(), ids),
    "nav_prev_all" => idl(node.prev_all(), ids),
    "nav_pos" => {
      let (s, e) = (node.start_pos(), node.end_pos());
      json!([s.line(), s.column(node), e.line(), e.column(node)])
    }
    _ => json!({"harness_error": format!("unknown nav op {op}")}),
  })
}

// ---------------------------------------------------------------------------------------------
// independent baselines (recursion over `children()` only)

fn pre_rec<'r>(n: &N<'r>, out: &mut Vec<N<'r>>) {
  out.push(n.clone());
  for c in n.children() {
    pre_rec(&c, out);
  }
}
fn post_rec<'r>(n: &N<'r>, out: &mut Vec<N<'r>>) {
  for c in n.children() {
    post_rec(&c, out);
  }
  out.push(n.clone());
}
fn at_depth<'r>(n: &N<'r>, d: usize, out: &mut Vec<N<'r>>) {
  if d == 0 {
    out.push(n.clone());
  } else {
    for c in n.children() {
      at_depth(&c, d - 1, out);
    }
  }
}
fn level_rec<'r>(n: &N<'r>) -> Vec<N<'r>> {
  let mut out = vec![];
  let mut d = 0;
  loop {
    let before = out.len();
    at_depth(n, d, &mut out);
    if out.len() == before {
      return out;
    }
    d += 1;
  }
}
/// outermost matches in document order (what "do not visit a match nested in another match"
/// means for a top-down visit)
fn outermost<'r>(n: &N<'r>, m: &dyn Fn(&N<'r>) -> bool, out: &mut Vec<N<'r>>) {
  if m(n) {
    out.push(n.clone());
  } else {
    for c in n.children() {
      outermost(&c, m, out);
    }
  }
}
/// innermost matches in post-order (a bottom-up visit reports a match only when nothing inside it
/// was reported)
fn innermost<'r>(n: &N<'r>, m: &dyn Fn(&N<'r>) -> bool, out: &mut Vec<N<'r>>) {
  let before = out.len();
  for c in n.children() {
    innermost(&c, m, out);
  }
  if out.len() == before && m(n) {
    out.push(n.clone());
  }
}

fn id_vec(ns: &[N], ids: &Ids) -> Vec<usize> {
  ns.iter().map(|n| ids.of(n)).collect()
}

// ---------------------------------------------------------------------------------------------
// contract (DESIGN 5.2) evaluated on the real tree; the driver evaluates it on the dump

struct Contract {
  ordered: bool,
  nested: bool,
  zw_parents: usize,
}

fn contract(all: &[N]) -> Contract {
  let mut c = Contract { ordered: true, nested: true, zw_parents: 0 };
  for n in all {
    let r = n.range();
    if r.start > r.end {
      c.ordered = false;
    }
    let mut pos: Option<usize> = None;
    let mut zw = false;
    for k in n.children() {
      let kr = k.range();
      if matches!(pos, Some(p) if kr.start < p) {
        c.ordered = false;
      }
      if kr.start < r.start || kr.end > r.end {
        c.nested = false;
      }
      if kr.start >= kr.end {
        zw = true;
      }
      pos = Some(pos.map(|p| p.max(kr.end)).unwrap_or(kr.end));
    }
    if zw {
      c.zw_parents += 1;
    }
  }
  c
}

/// the raw tree-sitter cursor on the children of `p`: forwards with `goto_next_sibling`, then
/// backwards from the last child with `goto_previous_sibling` (ids of the nodes stood on)
fn cursor_walk(p: &N, ids: &Ids) -> (Vec<usize>, Vec<usize>, bool) {
  let ts = p.get_ts_node();
  let mut cursor = ts.walk();
  let mut fwd = vec![];
  let mut bwd = vec![];
  let mut parent_ok = true;
  macro_rules! of {
    ($c:expr) => {
      ids.0.get(&$c.node().id()).copied().unwrap_or(usize::MAX)
    };
  }
  if cursor.goto_first_child() {
    loop {
      fwd.push(of!(cursor));
      if !cursor.goto_next_sibling() {
        break;
      }
    }
    loop {
      bwd.push(of!(cursor));
      if !cursor.goto_previous_sibling() {
        break;
      }
      if bwd.len() > fwd.len() + 64 {
        break;
      }
    }
    parent_ok = cursor.goto_parent() && cursor.node().id() == ts.id() && !cursor.goto_parent() && !cursor.goto_next_sibling();
  }
  (fwd, bwd, parent_ok)
}

/// the raw tree-sitter calls behind `next_all` / `prev_all`: a cursor on `p`,
/// `goto_first_child_for_byte(byte)`, then sibling moves (one cursor per direction):
/// `(node landed on | null, forward walk, backward walk)`
fn raw_byte_walk(p: &N, byte: usize, ids: &Ids) -> (Value, Vec<usize>, Vec<usize>) {
  let ts = p.get_ts_node();
  macro_rules! of {
    ($c:expr) => {
      ids.0.get(&$c.node().id()).copied().unwrap_or(usize::MAX)
    };
  }
  let mut c1 = ts.walk();
  let landed = if c1.goto_first_child_for_byte(byte as u32).is_some() { json!(of!(c1)) } else { Value::Null };
  let mut fwd = vec![];
  while c1.goto_next_sibling() && fwd.len() < 100_000 {
    fwd.push(of!(c1));
  }
  let mut c2 = ts.walk();
  c2.goto_first_child_for_byte(byte as u32);
  let mut bwd = vec![];
  while c2.goto_previous_sibling() && bwd.len() < 100_000 {
    bwd.push(of!(c2));
  }
  (landed, fwd, bwd)
}

/// the same walk on the zipper over `children()`: the first child that ends after `byte`
fn zipper_byte_walk(p: &N, byte: usize, ids: &Ids) -> (Value, Vec<usize>, Vec<usize>) {
  let kids: Vec<N> = p.children().collect();
  match kids.iter().position(|k| k.range().end > byte) {
    Some(i) => (
      json!(ids.of(&kids[i])),
      kids[i + 1..].iter().map(|k| ids.of(k)).collect(),
      kids[..i].iter().rev().map(|k| ids.of(k)).collect(),
    ),
    None => (Value::Null, vec![], vec![]),
  }
}

fn all_nonzero_children(p: &N) -> bool {
  p.children().all(|c| c.range().start < c.range().end)
}

// ---------------------------------------------------------------------------------------------

struct Stats {
  cases: HashMap<&'static str, usize>,
  skipped_zero_width: usize,
  zero_width_mismatch: usize,
}

fn bump(st: &mut Stats, k: &'static str) {
  *st.cases.entry(k).or_insert(0) += 1;
}

fn shape_fp(n: &N) -> String {
  let kids = n.children().len();
  let zw = n.range().start == n.range().end;
  format!(
    "{}{}{}",
    if n.parent().is_none() { "root" } else { "inner" },
    if kids == 0 { " leaf" } else if kids == 1 { " 1-child" } else { " n-children" },
    if zw { " zero-width" } else { "" }
  )
}

fn fail(o: &mut Out, name: &str, fp: String, src: &Source, n: &N, ids: &Ids, extra: Value) {
  o.oracle(
    name,
    false,
    json!({"fp": fp, "lang": src.lang.to_string(), "file": src.name, "node": ids.of(n), "kind": n.kind(),
           "range": [n.range().start, n.range().end], "detail": extra,
           "src": if src.text.len() <= 400 { json!(src.text) } else { Value::Null }}),
  );
}

/// the property's clauses on one node, implementation only
fn oracle_node(o: &mut Out, st: &mut Stats, src: &Source, n: &N, ids: &Ids, cursor_broken_next: bool, cursor_broken_prev: bool) {
  let me = ids.of(n);
  // children / parent, ranges nested
  bump(st, "children-parent");
  let r = n.range();
  for c in n.children() {
    let p = guard(|| opt_id(c.parent(), ids));
    if p != json!(me) {
      fail(o, "children-parent", format!("children-parent zero-width={}", c.range().is_empty()), src, n, ids, json!({"child": ids.of(&c), "parent_of_child": p}));
    }
    let cr = c.range();
    if cr.start < r.start || cr.end > r.end {
      fail(o, "child-range-nested", format!("child-range-nested missing={} error={}", c.get_ts_node().is_missing(), n.is_error()), src, n, ids, json!({"child": ids.of(&c), "child_range": [cr.start, cr.end]}));
    }
  }
  // ancestors = chain of parents
  bump(st, "ancestors-chain");
  let mut chain = vec![];
  let mut cur = n.parent();
  while let Some(p) = cur {
    chain.push(ids.of(&p));
    cur = p.parent();
    if chain.len() > 100_000 {
      break;
    }
  }
  let anc = real("nav_ancestors", &Value::Null, n, ids);
  if anc != json!(chain) {
    fail(o, "ancestors-chain", format!("ancestors-chain {}", shape_fp(n)), src, n, ids, json!({"ancestors": anc, "parents": chain}));
  }
  // next_all / prev_all = iterated next / prev, for parents without zero-width children
  let in_quantifier = match n.parent() {
    Some(p) => all_nonzero_children(&p),
    None => true,
  };
  if in_quantifier {
    bump(st, "siblings");
    let mut nx = vec![];
    let mut cur = n.next();
    while let Some(s) = cur {
      nx.push(ids.of(&s));
      cur = s.next();
      if nx.len() > 100_000 {
        break;
      }
    }
    let mut pv = vec![];
    let mut cur = n.prev();
    while let Some(s) = cur {
      pv.push(ids.of(&s));
      cur = s.prev();
      if pv.len() > 100_000 {
        break;
      }
    }
    let na = real("nav_next_all", &Value::Null, n, ids);
    if na != json!(nx) {
      let fp = if cursor_broken_next {
        "next_all tree-sitter-cursor-is-not-a-zipper".to_string()
      } else if n.parent().is_none() {
        "next_all node-without-parent".to_string()
      } else {
        format!("next_all {}", shape_fp(n))
      };
      fail(o, "next-all", fp, src, n, ids, json!({"next_all": na, "iterated_next": nx}));
    }
    let pa = real("nav_prev_all", &Value::Null, n, ids);
    if pa != json!(pv) {
      let fp = if cursor_broken_prev {
        "prev_all tree-sitter-cursor-is-not-a-zipper".to_string()
      } else if n.parent().is_none() {
        "prev_all node-without-parent".to_string()
      } else {
        format!("prev_all {}", shape_fp(n))
      };
      fail(o, "prev-all", fp, src, n, ids, json!({"prev_all": pa, "iterated_prev": pv}));
    }
  } else {
    // outside the quantifier: count how often the byte-positioned cursor really goes wrong there
    // (the real-code face of `zero_width_counterexample`)
    st.skipped_zero_width += 1;
    let nx: Vec<usize> = std::iter::successors(n.next(), |s| s.next()).take(100_000).map(|s| ids.of(&s)).collect();
    let pv: Vec<usize> = std::iter::successors(n.prev(), |s| s.prev()).take(100_000).map(|s| ids.of(&s)).collect();
    if real("nav_next_all", &Value::Null, n, ids) != json!(nx) || real("nav_prev_all", &Value::Null, n, ids) != json!(pv) {
      st.zero_width_mismatch += 1;
    }
  }
  // positions
  bump(st, "positions");
  let text = src.text.as_bytes();
  let got = real("nav_pos", &Value::Null, n, ids);
  let want = |off: usize| -> Option<(usize, usize)> {
    if off > text.len() || !src.text.is_char_boundary(off) {
      return None;
    }
    let line = text[..off].iter().filter(|b| **b == b'\n').count();
    let ls = text[..off].iter().rposition(|b| *b == b'\n').map(|i| i + 1).unwrap_or(0);
    Some((line, src.text[ls..off].chars().count()))
  };
  match (want(r.start), want(r.end)) {
    (Some(s), Some(e)) => {
      if got != json!([s.0, s.1, e.0, e.1]) {
        fail(o, "positions", format!("positions ascii={} crlf={}", src.text.is_ascii(), src.text.contains('\r')), src, n, ids, json!({"got": got, "want": [s.0, s.1, e.0, e.1]}));
      }
    }
    _ => fail(o, "positions", "positions offset-not-on-char-boundary".to_string(), src, n, ids, json!({"got": got})),
  }
}

fn oracle_traversals(o: &mut Out, st: &mut Stats, src: &Source, n: &N, ids: &Ids) {
  let mut pre = vec![];
  pre_rec(n, &mut pre);
  let mut post = vec![];
  post_rec(n, &mut post);
  let level = level_rec(n);
  for (name, op, base) in [("pre-order", "nav_pre", &pre), ("post-order", "nav_post", &post), ("level-order", "nav_level", &level)] {
    bump(st, name);
    let got = real(op, &Value::Null, n, ids);
    if got != json!(id_vec(base, ids)) {
      fail(o, name, format!("{name} {}", shape_fp(n)), src, n, ids, json!({"got_len": got.as_array().map(|a| a.len()), "want_len": base.len()}));
    }
  }
}

/// visitor clauses: reentrant = filter of the traversal; non-reentrant = no reported match is
/// nested in another reported match, pre-order reports the outermost, post-order the innermost
fn oracle_visit(o: &mut Out, st: &mut Stats, src: &Source, n: &N, ids: &Ids, a: &Value, got: &Value) {
  bump(st, "visit");
  let kind = a["kind"].as_u64().unwrap() as u16;
  let named = a["named"].as_bool().unwrap();
  let re = a["reentrant"].as_bool().unwrap();
  let post = a["algo"] == json!("post");
  let m = move |x: &N| (!named || x.is_named()) && x.kind_id() == kind;
  let mut want = vec![];
  if re {
    let mut all = vec![];
    if post {
      post_rec(n, &mut all);
    } else {
      pre_rec(n, &mut all);
    }
    want = all.into_iter().filter(|x| m(x)).collect();
  } else if post {
    innermost(n, &m, &mut want);
  } else {
    outermost(n, &m, &mut want);
  }
  if *got != json!(id_vec(&want, ids)) {
    // input class: algorithm, reentrancy, and whether a matching node has a matching last child
    let mut all = vec![];
    pre_rec(n, &mut all);
    let last_child_match = all.iter().any(|x| m(x) && x.children().last().map(|c| m(&c)).unwrap_or(false));
    let matching_last_child = all.iter().any(|x| x.children().last().map(|c| m(&c)).unwrap_or(false));
    fail(
      o,
      "visit",
      format!("visit algo={} reentrant={re} a-match-is-a-last-child={matching_last_child} a-match-has-a-matching-last-child={last_child_match}", if post { "post" } else { "pre" }),
      src,
      n,
      ids,
      json!({"args": a, "got": got, "want": id_vec(&want, ids)}),
    );
  }
}

/// C06 on the library's overlap-free mode: the edits of `replace_all` are those of the outermost
/// matches — ordered, disjoint (touching allowed), inside the node, one per outermost match
fn oracle_replace_all(o: &mut Out, st: &mut Stats, src: &Source, n: &N, ids: &Ids, kind: u16, got: &Value) {
  bump(st, "replace-all");
  let m = move |x: &N| x.kind_id() == kind;
  let mut want = vec![];
  outermost(n, &m, &mut want);
  let want: Vec<Value> = want.iter().map(|x| json!([x.range().start, x.range().len(), 1])).collect();
  let mut ordered = true;
  let mut lo = n.range().start;
  if let Some(es) = got.as_array() {
    for e in es {
      let (p, d) = (e[0].as_u64().unwrap_or(0) as usize, e[1].as_u64().unwrap_or(0) as usize);
      if p < lo || p + d > n.range().end {
        ordered = false;
      }
      lo = p + d;
    }
  }
  if *got != json!(want) || !ordered {
    let touching = want.windows(2).any(|w| w[0][0].as_u64().unwrap_or(0) + w[0][1].as_u64().unwrap_or(0) == w[1][0].as_u64().unwrap_or(1));
    fail(o, "replace-all", format!("replace_all ordered={ordered} touching-matches={touching}"), src, n, ids, json!({"kind": kind, "got": got, "want": want}));
  }
}

fn pick_nodes<'r>(all: &[N<'r>], rng: &mut Rng, budget: usize) -> Vec<N<'r>> {
  if all.len() <= budget {
    return all.to_vec();
  }
  let mut seen = HashSet::new();
  let mut out = vec![];
  let mut push = |n: &N<'r>, out: &mut Vec<N<'r>>| {
    if seen.insert(n.node_id()) {
      out.push(n.clone());
    }
  };
  // the root, its children, every zero-width / error / missing node with its neighbourhood
  push(&all[0], &mut out);
  for c in all[0].children() {
    push(&c, &mut out);
  }
  for n in all {
    if out.len() >= budget / 2 {
      break;
    }
    if n.range().is_empty() || n.is_error() || n.get_ts_node().is_missing() {
      push(n, &mut out);
      if let Some(p) = n.parent() {
        push(&p, &mut out);
        for s in p.children() {
          push(&s, &mut out);
        }
      }
    }
  }
  while out.len() < budget {
    let n = rng.pick(all).clone();
    push(&n, &mut out);
  }
  out
}

pub fn navigation(ctx: &Ctx, rng: &mut Rng, o: &mut Out) {
  let sources = corpus::load();
  let variants = if ctx.thorough { 24 } else { 6 };
  let budget = if ctx.thorough { 600 } else { 250 };
  let trav_budget = if ctx.thorough { 120 } else { 50 };
  let mut st = Stats { cases: HashMap::new(), skipped_zero_width: 0, zero_width_mismatch: 0 };
  let mut contract_fail = 0usize;
  let mut cursor_fail = 0usize;
  let mut trees = 0usize;
  let mut ti = 0usize;
  // hand-written shapes first: the witnesses of the Lean counter-examples on the real code
  let mut extra: Vec<Source> = vec![
    Source { lang: SupportLang::JavaScript, name: "witness/assign-chain.js".into(), text: "a = b = c".into() },
    Source { lang: SupportLang::JavaScript, name: "witness/two-statements.js".into(), text: "a; b; c".into() },
    Source { lang: SupportLang::JavaScript, name: "witness/empty.js".into(), text: "".into() },
    Source { lang: SupportLang::JavaScript, name: "witness/missing.js".into(), text: "foo(a, ".into() },
    Source { lang: SupportLang::C, name: "witness/missing.c".into(), text: "int f( { return 1 }".into() },
    Source { lang: SupportLang::Python, name: "witness/nested-call.py".into(), text: "f(g(h(1)), g(2))\n".into() },
    Source { lang: SupportLang::Tsx, name: "witness/multibyte.tsx".into(), text: "let é = '中𝒳';\r\nlet b = <a>ü</a>;".into() },
    // a tall tree: depth counters, the cursor's parent steps and the traversal budgets scale with height
    Source { lang: SupportLang::JavaScript, name: "witness/deep-chain.js".into(), text: format!("let s = {};\n[{}1{}];\n", (0..45).map(|i| format!("x{i}")).collect::<Vec<_>>().join(" + "), "[".repeat(40), "]".repeat(40)) },
    // error recovery that wraps a MISSING token in its parent rules: zero-width nodes WITH children
    Source { lang: SupportLang::Bash, name: "witness/zero-width-parent-1.sh".into(), text: "a |".into() },
    Source { lang: SupportLang::Bash, name: "witness/zero-width-parent-2.sh".into(), text: "a &&\nx=$()".into() },
    Source { lang: SupportLang::Lua, name: "witness/zero-width-parent.lua".into(), text: "x = ".into() },
    Source { lang: SupportLang::Css, name: "witness/zero-width-parent.css".into(), text: " { }".into() },
    Source { lang: SupportLang::CSharp, name: "witness/zero-width-parent.cs".into(), text: "var x = new ;".into() },
    // every UTF-8 lead-byte class boundary (DF, E0, E1, EF, F0, F4) before later nodes of the line
    Source { lang: SupportLang::JavaScript, name: "witness/utf8-classes.js".into(), text: "let s = 'ก'; foo(s)\nlet t = '\u{7FF}\u{800}\u{FFF}\u{1000}\u{FFFD}\u{10000}\u{10FFFF}'; bar(t);\n// ก ࠀ ก\nbaz('ก', \"ก\")".into() },
  ];
  // documents embedded in a host file (`get_injections`: script and style of an HTML page): their
  // nodes live in the host text, rows and columns are those of the FILE — also when the start tag
  // of the element is spread over several lines or the page begins with multi-byte text
  let mut injected: HashMap<String, ast_grep_core::AstGrep<ast_grep_core::StrDoc<SupportLang>>> = HashMap::new();
  let pages = [
    "<script\n  type=\"module\"\n  defer>\nalert(1)\nlet é = '中𝒳'; foo(é)\n</script>\n<script>alert(2)</script>\n",
    "<!-- é 中 -->\n<html>\n<head>\n<style\n  media=\"print\"\n>\na { color: red }\n.b { margin: 0 }\n</style>\n</head>\n<body>\n<p>𝒳</p><script type=\"module\"\r\n>f(g(h(1)), g(2))</script>\n</body>\n</html>\n",
    "<script>a = b = c</script><style>a{color:red}</style>",
  ];
  for (pi, page) in pages.iter().enumerate() {
    let host = SupportLang::Html.ast_grep(page);
    for (di, doc) in host.inner.get_injections(|s| s.parse::<SupportLang>().ok()).into_iter().enumerate() {
      let name = format!("witness/injected-{pi}-{di}.html");
      extra.push(Source { lang: *doc.lang(), name: name.clone(), text: page.to_string() });
      injected.insert(name, ast_grep_core::AstGrep { inner: doc });
    }
  }
  extra.extend(sources);
  for src0 in extra.iter() {
    for v in 0..=variants {
      if v > 0 && injected.contains_key(&src0.name) {
        break;
      }
      let text = if v == 0 {
        src0.text.clone()
      } else if v == 1 || v % 5 == 0 {
        // cut the text right after an unnamed token (operator, bracket, keyword): the recovery of
        // the parser then tends to invent MISSING tokens wrapped in zero-width parent nodes
        let g0 = src0.lang.ast_grep(&src0.text);
        let ends: Vec<usize> = g0.root().dfs().filter(|n| !n.is_named() && n.children().len() == 0 && n.range().len() > 0).map(|n| n.range().end).collect();
        if ends.is_empty() { corpus::mutate(&src0.text, rng) } else { src0.text[..*rng.pick(&ends)].to_string() }
      } else {
        corpus::mutate(&src0.text, rng)
      };
      let src = Source { lang: src0.lang, name: format!("{}#{v}", src0.name), text };
      let grep = match injected.get(&src0.name) {
        Some(g) => g.clone(),
        None => src.lang.ast_grep(&src.text),
      };
      let root = grep.root();
      let tid = format!("V{ti}");
      ti += 1;
      trees += 1;
      let ids = register_tree(o, &tid, &src, &root);
      let mut all: Vec<N> = vec![];
      pre_rec(&root, &mut all);
      // contract
      let c = contract(&all);
      if !(c.ordered && c.nested) {
        contract_fail += 1;
      }
      o.op("contract:wf", json!({"t": tid}), json!({"ordered": c.ordered, "nested": c.nested, "zw_parents": c.zw_parents, "nodes": all.len()}));
      // the raw cursor against the dump (zipper contract), every parent
      for p in &all {
        if p.children().len() == 0 {
          continue;
        }
        let (fwd, bwd, parent_ok) = cursor_walk(p, &ids);
        let kids: Vec<usize> = p.children().map(|c| ids.of(&c)).collect();
        let mut rev = kids.clone();
        rev.reverse();
        let (fwd_ok, bwd_ok) = (fwd == kids, bwd == rev);
        if !(fwd_ok && bwd_ok && parent_ok) {
          cursor_fail += 1;
          o.op("contract:cursor", json!({"t": tid, "node": ids.of(p), "fwd": fwd, "bwd": bwd, "parent_ok": parent_ok}),
               json!({"fwd_ok": fwd_ok, "bwd_ok": bwd_ok, "parent_ok": parent_ok}));
        }
      }
      // per-node ops
      let nodes = pick_nodes(&all, rng, budget);
      for n in &nodes {
        let a = json!({"t": tid, "node": ids.of(n)});
        // the raw cursor calls of `next_all` / `prev_all` against the zipper: where tree-sitter's
        // cursor is not the zipper on the dumped tree the case is outside the contract (the driver
        // re-checks the claim with the model's cursor)
        let pnode = n.parent().unwrap_or_else(|| n.clone());
        let byte = n.range().start;
        let raw = raw_byte_walk(&pnode, byte, &ids);
        let zip = zipper_byte_walk(&pnode, byte, &ids);
        // (a node without parent never moves its cursor: `has_parent && ...`)
        let has_parent = n.parent().is_some();
        let broken_next = has_parent && (raw.0 != zip.0 || raw.1 != zip.1);
        let broken_prev = has_parent && (raw.0 != zip.0 || raw.2 != zip.2);
        if broken_next || broken_prev {
          cursor_fail += 1;
          o.op("contract:cursor_for_byte", json!({"t": tid, "node": ids.of(&pnode), "byte": byte, "landed": raw.0, "fwd": raw.1, "bwd": raw.2}),
               json!({"landed_ok": raw.0 == zip.0, "fwd_ok": raw.1 == zip.1, "bwd_ok": raw.2 == zip.2}));
        }
        for op in ["nav_node", "nav_ancestors", "nav_next_all", "nav_prev_all", "nav_pos"] {
          if (op == "nav_prev_all" && broken_prev) || (op == "nav_next_all" && broken_next) {
            let walk = if op == "nav_prev_all" { &raw.2 } else { &raw.1 };
            o.op(&format!("contract:{op}"), json!({"t": tid, "node": ids.of(n), "parent": ids.of(&pnode), "byte": byte, "landed": raw.0, "walk": walk, "real": real(op, &a, n, &ids)}), json!({"outside": true}));
            continue;
          }
          // node-level `next()` / `prev()` next to zero-width siblings: outside the contract
          // (the parser library disagrees with itself there); parent / children still compared
          if op == "nav_node" && !n.parent().map(|p| all_nonzero_children(&p)).unwrap_or(true) {
            let r = real(op, &a, n, &ids);
            o.op("contract:nav_node", json!({"t": tid, "node": ids.of(n), "real": r}),
                 json!({"outside": true, "parent": r["parent"], "children": r["children"]}));
            continue;
          }
          o.op(op, a.clone(), real(op, &a, n, &ids));
        }
        oracle_node(o, &mut st, &src, n, &ids, broken_next, broken_prev);
      }
      // traversals: the root, then sampled start nodes (prefer inner nodes)
      let mut starts: Vec<N> = vec![root.clone()];
      let inner: Vec<&N> = nodes.iter().filter(|n| n.children().len() > 0).collect();
      for _ in 0..trav_budget.min(nodes.len()) {
        if !inner.is_empty() && rng.chance(3, 4) {
          starts.push((*rng.pick(&inner)).clone());
        } else {
          starts.push(rng.pick(&nodes).clone());
        }
      }
      // kinds that nest (an ancestor with the same kind exists) make the visits interesting
      let mut nesting: Vec<u16> = vec![];
      for n in all.iter().take(4000) {
        if n.ancestors().any(|p| p.kind_id() == n.kind_id()) && !nesting.contains(&n.kind_id()) {
          nesting.push(n.kind_id());
        }
      }
      for (si, s) in starts.iter().enumerate() {
        let a = json!({"t": tid, "node": ids.of(s)});
        for op in ["nav_pre", "nav_post", "nav_level"] {
          o.op(op, a.clone(), real(op, &a, s, &ids));
        }
        oracle_traversals(o, &mut st, &src, s, &ids);
        let nvis = if si == 0 { 6 } else { 2 };
        for _ in 0..nvis {
          let kind = if !nesting.is_empty() && rng.chance(1, 2) {
            *rng.pick(&nesting)
          } else {
            let mut sub = vec![];
            pre_rec(s, &mut sub);
            rng.pick(&sub).kind_id()
          };
          let a = json!({"t": tid, "node": ids.of(s), "kind": kind, "algo": if rng.chance(1, 2) { "post" } else { "pre" },
                         "reentrant": rng.chance(1, 3), "named": rng.chance(1, 3)});
          let got = real("nav_visit", &a, s, &ids);
          o.op("nav_visit", a.clone(), got.clone());
          oracle_visit(o, &mut st, &src, s, &ids, &a, &got);
        }
      }
    }
  }
  let mut cases: Vec<(&&str, &usize)> = st.cases.iter().collect();
  cases.sort();
  let total: usize = cases.iter().map(|(_, n)| **n).sum();
  o.oracle(
    "navigation-done",
    true,
    json!({"cases": total, "per_clause": cases.iter().map(|(k, n)| json!([k, n])).collect::<Vec<_>>(), "trees": trees,
           "contract_failures": contract_fail, "cursor_contract_failures": cursor_fail, "sibling_clause_skipped_zero_width_parent": st.skipped_zero_width,
           "zero_width_parent_sibling_mismatches": st.zero_width_mismatch}),
  );
}

/// C06 unit `replace_all`: `Node::replace_all` (the library's overlap-free mode) with a kind matcher on
/// documents of every language — the model's `replaceAll` on the dumped tree, and the property's
/// clause (edits ordered, disjoint, inside the node, one per outermost match) on the implementation
pub fn replace_all_unit(ctx: &Ctx, rng: &mut Rng, o: &mut Out) {
  let sources = corpus::load();
  let variants = if ctx.thorough { 8 } else { 2 };
  let per_start = if ctx.thorough { 8 } else { 4 };
  let mut st = Stats { cases: HashMap::new(), skipped_zero_width: 0, zero_width_mismatch: 0 };
  let mut extra: Vec<Source> = vec![
    // matches with no byte between them (minified statements, callee + arguments, adjacent elements)
    Source { lang: SupportLang::JavaScript, name: "witness/touching-statements.js".into(), text: "foo(1);foo(2);foo(3);".into() },
    Source { lang: SupportLang::JavaScript, name: "witness/callee-args.js".into(), text: "f(x)(y)(z)".into() },
    Source { lang: SupportLang::Tsx, name: "witness/adjacent-jsx.tsx".into(), text: "let a = <p><a/><b/><a/></p>;".into() },
    Source { lang: SupportLang::JavaScript, name: "witness/nested-some.js".into(), text: "Some(Some(1)); Some(2);Some(Some(Some(3)))".into() },
    Source { lang: SupportLang::JavaScript, name: "witness/empty.js".into(), text: "".into() },
    Source { lang: SupportLang::Python, name: "witness/nested-call.py".into(), text: "f(g(h(1)), g(2))\n".into() },
  ];
  extra.extend(sources);
  let mut ti = 0usize;
  let mut trees = 0usize;
  let mut with_touching = 0usize;
  let mut with_nested = 0usize;
  for src0 in extra.iter() {
    for v in 0..variants {
      let text = if v == 0 { src0.text.clone() } else { corpus::mutate(&src0.text, rng) };
      let src = Source { lang: src0.lang, name: format!("{}#{v}", src0.name), text };
      let grep = src.lang.ast_grep(&src.text);
      let root = grep.root();
      let tid = format!("RA{ti}");
      ti += 1;
      trees += 1;
      let ids = register_tree(o, &tid, &src, &root);
      let mut all: Vec<N> = vec![];
      pre_rec(&root, &mut all);
      // kinds whose nodes nest, and kinds with two nodes that touch
      let mut nesting: Vec<u16> = vec![];
      let mut touching: Vec<u16> = vec![];
      for n in all.iter().take(4000) {
        if n.ancestors().any(|p| p.kind_id() == n.kind_id()) && !nesting.contains(&n.kind_id()) {
          nesting.push(n.kind_id());
        }
        if let Some(nx) = n.next() {
          if nx.kind_id() == n.kind_id() && nx.range().start == n.range().end && !n.range().is_empty() && !touching.contains(&n.kind_id()) {
            touching.push(n.kind_id());
          }
        }
      }
      let inner: Vec<&N> = all.iter().filter(|n| n.children().len() > 1).collect();
      let mut starts: Vec<N> = vec![root.clone()];
      for _ in 0..3 {
        if !inner.is_empty() {
          starts.push((*rng.pick(&inner)).clone());
        }
      }
      for s in &starts {
        let mut sub = vec![];
        pre_rec(s, &mut sub);
        let mut kinds: Vec<u16> = vec![];
        kinds.extend(touching.iter().take(2));
        kinds.extend(nesting.iter().take(2));
        while kinds.len() < per_start + 2 {
          kinds.push(rng.pick(&sub).kind_id());
        }
        for kind in kinds {
          let ra = json!({"t": tid, "node": ids.of(s), "kind": kind});
          let edits = real("nav_replace_all", &ra, s, &ids);
          o.op("nav_replace_all", ra.clone(), edits.clone());
          if touching.contains(&kind) {
            with_touching += 1;
          }
          if nesting.contains(&kind) {
            with_nested += 1;
          }
          oracle_replace_all(o, &mut st, &src, s, &ids, kind, &edits);
        }
      }
    }
  }
  let total: usize = st.cases.values().sum();
  o.oracle("replace-all-done", true, json!({"cases": total, "trees": trees, "kinds_with_touching_nodes": with_touching, "kinds_that_nest": with_nested}));
}

/// replay of a self-contained op (`lang`, `src` inline)
pub fn exec(op: &str, a: &Value) -> Option<Value> {
  if !(op.starts_with("nav_") || op == "contract:wf") {
    return None;
  }
  let lang: SupportLang = a["lang"].as_str()?.parse().ok()?;
  let text = a["src"].as_str()?.to_string();
  let grep = lang.ast_grep(&text);
  let root = grep.root();
  let (_, ids) = crate::treedump::dump(&root);
  let mut all: Vec<N> = vec![];
  pre_rec(&root, &mut all);
  if op == "contract:wf" {
    let c = contract(&all);
    return Some(json!({"ordered": c.ordered, "nested": c.nested, "zw_parents": c.zw_parents, "nodes": all.len()}));
  }
  let node = all.get(a["node"].as_u64()? as usize)?;
  Some(real(op, a, node, &ids))
}

