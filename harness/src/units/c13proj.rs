//! C13 whole-process differential oracle: "findings, fixes and messages of a project are a
//! function of the rule documents and the source texts only".  Per generated project the real
//! CLI (`agv-sg`, always under a timeout) is launched many times on fresh copies of the project:
//! repeated (new hash seeds), with permuted YAML map keys, with the rule documents distributed
//! over other files, with the sources created in another order, and through `test -U` / `test`.
//! Outputs are canonicalised (records with sorted keys, sorted lines) and must be identical.
use super::Ctx;
use crate::util::*;
use serde_json::{json, Map, Value};
use std::collections::{BTreeMap, BTreeSet};
use std::path::{Path, PathBuf};
use std::process::{Command, Stdio};
use std::time::{Duration, Instant};

const HANG: i32 = -999;
const TIMEOUT: Duration = Duration::from_secs(20);
const CONFIG: &str = "ruleDirs: [rules]\nutilDirs: [utils]\ntestConfigs:\n  - testDir: tests\n";
const FNAMES: [&str; 12] = [
  "log", "warn", "send", "emit", "push", "call", "exec", "load", "save", "draw", "fold", "sift",
];
const IDENTS: [&str; 6] = ["alpha", "banana", "cargoShip", "delta_x", "fooBar", "zeta"];
const CASES: [&str; 7] =
  ["upperCase", "lowerCase", "capitalize", "snakeCase", "kebabCase", "camelCase", "pascalCase"];
const DIRS: [&str; 6] = ["src", "src/a", "src/a/b", "lib", "lib/x/y", "app"];

struct RuleSpec {
  id: String,
  lang: &'static str,
  doc: Value,
  feats: Vec<&'static str>,
  shared: bool,
  hits: Vec<String>,
  misses: Vec<String>,
}
struct Project {
  idx: usize,
  rules: Vec<RuleSpec>,
  globals: Vec<(String, Value)>,
  files: Vec<(String, String)>,
}
/// how a project is laid out on disk; `perm` = seed of the key permutation (None: base order)
#[derive(Clone)]
struct Layout {
  perm: Option<u64>,
  groups: Vec<(String, Vec<usize>)>,
  util_files: Vec<(String, usize)>,
  src_order: Vec<usize>,
}

fn shuffle<T>(rng: &mut Rng, v: &mut [T]) {
  for i in (1..v.len()).rev() {
    v.swap(i, rng.below(i + 1));
  }
}
fn obj(kv: Vec<(&str, Value)>) -> Value {
  Value::Object(kv.into_iter().map(|(k, v)| (k.to_string(), v)).collect())
}

// ---------------------------------------------------------------- YAML emission
/// JSON -> YAML value; with `perm` every mapping (top-level, utils, transform, constraints, rule
/// objects, ...) and the list of rewriter definitions is emitted in a random order.
fn to_yaml(v: &Value, perm: &mut Option<Rng>, key: &str) -> serde_yaml::Value {
  match v {
    Value::Object(m) => {
      let mut es: Vec<(&String, &Value)> = m.iter().collect();
      if let Some(r) = perm {
        shuffle(r, &mut es);
      }
      let mut out = serde_yaml::Mapping::new();
      for (k, x) in es {
        out.insert(serde_yaml::Value::String(k.clone()), to_yaml(x, perm, k));
      }
      serde_yaml::Value::Mapping(out)
    }
    Value::Array(a) => {
      let mut es: Vec<&Value> = a.iter().collect();
      if let (Some(r), true) = (perm.as_mut(), key == "rewriters" && a.iter().all(|x| x.is_object())) {
        shuffle(r, &mut es);
      }
      serde_yaml::Value::Sequence(es.into_iter().map(|x| to_yaml(x, perm, "")).collect())
    }
    other => serde_yaml::to_value(other).unwrap(),
  }
}
fn doc_yaml(v: &Value, perm: &mut Option<Rng>) -> String {
  serde_yaml::to_string(&to_yaml(v, perm, "")).unwrap()
}

// ---------------------------------------------------------------- generator
fn gen_op(rng: &mut Rng, src: &str) -> Value {
  match rng.below(3) {
    0 => {
      let mut m = Map::new();
      m.insert("source".into(), json!(src));
      m.insert("startChar".into(), json!(rng.range(0, 2)));
      if rng.chance(1, 2) {
        m.insert("endChar".into(), json!(-rng.range(1, 2)));
      }
      json!({ "substring": m })
    }
    1 => {
      let (re, by) = *rng.pick(&[("[aeiou]", "_"), ("a", "A4"), ("^.", ""), ("[0-9]+", "N")]);
      json!({"replace": {"source": src, "replace": re, "by": by}})
    }
    _ => json!({"convert": {"source": src, "toCase": *rng.pick(&CASES)}}),
  }
}
/// `n` transform entries forming a chain/tree rooted at `root`; returns (map, names in dependency order)
fn gen_transform(rng: &mut Rng, root: &str, first: Option<Value>, n: usize) -> (Value, Vec<String>) {
  let mut pool: Vec<String> = "PQRSTUVW".chars().map(|c| format!("N{c}")).collect();
  shuffle(rng, &mut pool);
  let mut m = Map::new();
  let mut names: Vec<String> = vec![];
  for j in 0..n {
    let src = if j == 0 || (names.len() > 1 && rng.chance(1, 3) && first.is_none()) {
      if j == 0 { root.to_string() } else { format!("${}", rng.pick(&names)) }
    } else {
      format!("${}", names[j - 1])
    };
    let op = match (&first, j) {
      (Some(f), 0) => f.clone(),
      _ => gen_op(rng, &src),
    };
    // every other name extends the one before it (`NP`, `NP_UP`, `NP_UP2`): a template scanner
    // must take the longest name, whichever order the keys of the `transform` map come in
    let name = if j > 0 && rng.chance(1, 2) { format!("{}{}", names[j - 1], rng.pick(&["_UP", "2", "X", "_"])) } else { pool[j].clone() };
    m.insert(name.clone(), op);
    names.push(name);
  }
  (Value::Object(m), names)
}

/// global utils of one language: a dependency DAG (`pfx-lit` -> num/str, `pfx-call` -> haslit -> lit, diamond `pfx-arg`)
fn gen_globals(rng: &mut Rng, lang: &'static str, pfx: &str, depth: usize) -> Vec<(String, Value)> {
  let id = |s: &str| format!("{pfx}-{s}");
  let inner = if rng.chance(1, 2) { id("lit") } else { id("num") };
  let rules = vec![
    ("num", json!({"kind": "number"})),
    ("str", json!({"kind": "string"})),
    ("lit", json!({"any": [{"matches": id("num")}, {"matches": id("str")}]})),
    // the reference sits inside a relation (not ordered by the loader's dependency sort) and is
    // wrapped / accompanied by another matcher, so that a kind cache is built around it whichever
    // utility happens to be constructed first
    ("haslit", match rng.below(3) {
      0 => json!({"has": {"matches": inner, "stopBy": "end"}}),
      1 => json!({"has": {"all": [{"matches": inner}], "stopBy": "end"}}),
      _ => json!({"has": {"matches": inner, "regex": "^[0-9'\"]", "stopBy": "end"}}),
    }),
    ("call", json!({"kind": "call_expression", "matches": id("haslit")})),
    ("arg", json!({"any": [{"matches": id("call")}, {"matches": id("lit")}]})),
  ];
  let take = rules.into_iter().take(depth);
  take.map(|(n, r)| (id(n), json!({"id": id(n), "language": lang, "rule": r}))).collect()
}

fn pfx(lang: &str) -> &'static str {
  if lang == "JavaScript" { "js" } else { "ts" }
}
fn severity(rng: &mut Rng) -> &'static str {
  *rng.pick(&["hint", "info", "warning", "error"])
}

/// local utils chain/diamond + disjoint constraints + transform chain + fix/message
fn chain_rule(rng: &mut Rng, id: String, lang: &'static str, f: &str, nglob: usize) -> RuleSpec {
  let mut feats = vec!["constraints-disjoint", "transform-chain"];
  let p = pfx(lang);
  let arity3 = rng.chance(1, 2);
  let pat = if arity3 { format!("{f}($A, $B, $C)") } else { format!("{f}($A, $B)") };
  let mut doc = Map::new();
  doc.insert("id".into(), json!(id));
  doc.insert("language".into(), json!(lang));
  doc.insert("severity".into(), json!(severity(rng)));
  if rng.chance(3, 4) {
    feats.push("local-utils");
    let mut names: Vec<String> = "abcdef".chars().map(|c| format!("u{c}")).collect();
    shuffle(rng, &mut names);
    let k = 1 + rng.below(3);
    let total = k + 1 + rng.below(2);
    let mut utils = Map::new();
    for j in 0..k {
      let mut ms = vec![json!({"matches": names[j + 1]})];
      if j + 2 < total && rng.chance(1, 2) {
        let t = j + 2 + rng.below(total - j - 2);
        ms.push(json!({"matches": names[t]}));
        if !feats.contains(&"local-utils-diamond") {
          feats.push("local-utils-diamond");
        }
      }
      if rng.chance(1, 2) {
        ms.reverse();
      }
      let body = if ms.len() == 1 && rng.chance(1, 2) { ms[0].clone() } else { json!({ "all": ms }) };
      utils.insert(names[j].clone(), body);
    }
    utils.insert(names[k].clone(), json!({ "pattern": pat }));
    if total > k + 1 {
      utils.insert(names[k + 1].clone(), json!({"kind": "call_expression"}));
    }
    doc.insert("utils".into(), Value::Object(utils));
    doc.insert("rule".into(), json!({"matches": names[0]}));
  } else {
    doc.insert("rule".into(), json!({ "pattern": pat }));
  }
  // relational conjuncts that hold for every call: the match set is unchanged, but each of them
  // records a secondary label on a different node, in the order the relations are evaluated
  // (snapshots of `sg test` list the labels; their order must not depend on the process)
  if rng.chance(2, 3) {
    feats.push("several-relations");
    let r = doc.get_mut("rule").unwrap();
    r["has"] = json!({"kind": "identifier", "stopBy": "end"});
    r["inside"] = json!({"kind": "program", "stopBy": "end"});
    if rng.chance(1, 2) {
      r["not"] = json!({"follows": {"kind": "import_statement", "stopBy": "end"}});
    }
  }
  // constraints on disjoint variables; B's constraint decides which argument texts match
  let mut cons = Map::new();
  cons.insert("A".into(), if rng.chance(1, 2) { json!({"kind": "identifier"}) } else { json!({"regex": "^[a-zA-Z_]+$"}) });
  let mut msg_extra = String::new();
  let bargs: &[&str] = match rng.below(4) {
    0 => {
      feats.push("global-utils");
      let cands: Vec<usize> = [0usize, 2, 3, 4, 5].into_iter().filter(|i| *i < nglob).collect();
      let g = *rng.pick(&cands);
      let name = ["num", "str", "lit", "haslit", "call", "arg"][g];
      cons.insert("B".into(), json!({"matches": format!("{p}-{name}")}));
      if g <= 2 { &["7", "42"] } else { &["g(1)", "h(x, 2)"] }
    }
    1 => {
      cons.insert("B".into(), json!({"kind": "call_expression"}));
      &["g(1)", "h(x)"]
    }
    2 => {
      cons.insert("B".into(), json!({"has": {"kind": "number", "stopBy": "end"}}));
      &["g(1)", "h(x, k(2))"]
    }
    _ => {
      feats.push("constraint-binds-new-var");
      cons.insert("B".into(), json!({"pattern": "$FN($$$REST)"}));
      msg_extra = " fn=$FN".into();
      &["g(1)", "h(x, 2)"]
    }
  };
  if arity3 {
    if rng.chance(1, 2) {
      if !feats.contains(&"global-utils") {
        feats.push("global-utils");
      }
      cons.insert("C".into(), json!({"matches": format!("{p}-str")}));
    } else {
      cons.insert("C".into(), json!({"kind": "string"}));
    }
  }
  doc.insert("constraints".into(), Value::Object(cons));
  let n = 2 + rng.below(3);
  let (tr, names) = gen_transform(rng, "$A", None, n);
  doc.insert("transform".into(), tr);
  let (t0, tl) = (&names[0], names.last().unwrap());
  doc.insert("message".into(), json!(format!("{f}: $A -> ${tl} [${t0}]{msg_extra}")));
  if rng.chance(3, 4) {
    feats.push("fix");
    doc.insert("fix".into(), json!(format!("{f}_new(${tl}, $B)")));
  }
  let mk = |rng: &mut Rng, a: &str| {
    let tail = if arity3 { format!(", {}", rng.pick(&["'s'", "'some text'"])) } else { String::new() };
    format!("{f}({a}, {}{tail});", rng.pick(bargs))
  };
  let hits = (0..5).map(|_| { let a = *rng.pick(&IDENTS); mk(rng, a) }).collect();
  let misses = vec![mk(rng, "1"), format!("other_{f}(alpha, g(1));")];
  feats.sort();
  RuleSpec { id, lang, doc: Value::Object(doc), feats, shared: false, hits, misses }
}

/// rewriters + a `rewrite` transform using them, then a chain on the rewritten text
fn rew_rule(rng: &mut Rng, id: String, lang: &'static str, f: &str) -> RuleSpec {
  let mut defs = vec![
    json!({"id": format!("{id}-rw-num"), "rule": {"kind": "number", "pattern": "$N"}, "fix": "($N)"}),
    json!({"id": format!("{id}-rw-str"), "rule": {"kind": "string", "pattern": "$S"},
      "transform": {"SS": {"substring": {"source": "$S", "startChar": 1, "endChar": -1}}}, "fix": "`$SS`"}),
    json!({"id": format!("{id}-rw-id"), "rule": {"kind": "identifier", "pattern": "$I"},
      "transform": {"IU": {"convert": {"source": "$I", "toCase": "upperCase"}},
                    "IV": {"replace": {"source": "$IU", "replace": "A", "by": "4"}}}, "fix": "$IV"}),
  ];
  shuffle(rng, &mut defs);
  defs.truncate(2 + rng.below(2));
  // a rewriter that itself rewrites with ANOTHER rewriter of the list (arrays: their elements go
  // through the number rewriter): the list may name the user before or after the one it uses
  if rng.chance(1, 2) {
    let num_id = format!("{id}-rw-num");
    if !defs.iter().any(|d| d["id"] == json!(num_id)) {
      defs.push(json!({"id": num_id, "rule": {"kind": "number", "pattern": "$N"}, "fix": "($N)"}));
    }
    defs.push(json!({"id": format!("{id}-rw-arr"), "rule": {"kind": "array", "pattern": "[$$$EL]"},
      "transform": {"ELS": {"rewrite": {"source": "$$$EL", "rewriters": [num_id], "joinBy": "; "}}}, "fix": "list($ELS)"}));
    shuffle(rng, &mut defs);
  }
  let mut used: Vec<Value> = defs.iter().map(|d| d["id"].clone()).collect();
  shuffle(rng, &mut used);
  let first = json!({"rewrite": {"source": "$$$ARGS", "rewriters": used, "joinBy": *rng.pick(&[" + ", ", ", " | "])}});
  let n = 2 + rng.below(2);
  let (tr, names) = gen_transform(rng, "$$$ARGS", Some(first), n);
  let (t0, tl) = (&names[0], names.last().unwrap());
  let doc = obj(vec![
    ("id", json!(id)),
    ("language", json!(lang)),
    ("severity", json!(severity(rng))),
    ("rewriters", Value::Array(defs)),
    ("rule", json!({"pattern": format!("{f}($A, $$$ARGS)")})),
    ("constraints", json!({"A": {"kind": "identifier"}})),
    ("transform", tr),
    ("message", json!(format!("{f}: rewritten ${t0} => ${tl}"))),
    ("fix", json!(format!("{f}($A, ${tl})"))),
  ]);
  let hits = (0..5)
    .map(|_| {
      let n = 2 + rng.below(3);
      let args: Vec<&str> = (0..n).map(|_| *rng.pick(&["1", "42", "'two'", "'s'", "x", "yy", "g(3)", "[1, 2, x]", "[7]"])).collect();
      format!("{f}({}, {});", rng.pick(&IDENTS), args.join(", "))
    })
    .collect();
  let misses = vec![format!("{f}(1, 2);"), format!("other_{f}(alpha, 1);")];
  let feats = vec!["fix", "rewriters", "transform-chain"];
  RuleSpec { id, lang, doc, feats, shared: false, hits, misses }
}

/// a language whose meta-variable sigil is rewritten to another character inside the parser
/// (Python: `$` -> `µ`): a chain of inter-dependent transformations, written with `$` in the YAML
fn py_chain_rule(rng: &mut Rng, id: String, f: &str) -> RuleSpec {
  let n = 3 + rng.below(2);
  let (tr, names) = gen_transform(rng, "$A", None, n);
  let (t0, tl) = (&names[0], names.last().unwrap());
  let doc = obj(vec![
    ("id", json!(id)),
    ("language", json!("Python")),
    ("severity", json!(severity(rng))),
    ("rule", json!({"pattern": format!("{f}($A, $B)")})),
    ("transform", tr),
    ("message", json!(format!("{f}: ${t0} => ${tl}"))),
    ("fix", json!(format!("{f}(${tl}, $B)"))),
  ]);
  let hits = (0..4).map(|_| format!("{f}({}, {})", rng.pick(&IDENTS), rng.pick(&["1", "x", "'s'"]))).collect();
  let misses = vec![format!("{f}(1)"), format!("other_{f}(alpha, 1)")];
  RuleSpec { id, lang: "Python", doc, feats: vec!["fix", "transform-chain", "expando-language"], shared: false, hits, misses }
}

/// hypothesis H20: two constraints bind the same NEW meta-variable; the result depends on map order
fn shared_rule(rng: &mut Rng, id: String, lang: &'static str, f: &str) -> RuleSpec {
  let doc = obj(vec![
    ("id", json!(id)),
    ("language", json!(lang)),
    ("rule", json!({"pattern": format!("{f}($A, $B)")})),
    ("constraints", json!({"A": {"has": {"kind": "number", "pattern": "$X", "stopBy": "end"}}, "B": {"pattern": "g($X)"}})),
    ("message", json!("shared $X")),
  ]);
  // Since ec1c602 the constraints run in the order of the variable names (A, then B): `$X` is the
  // first number below `$A`, and `$B` must be `g` of it. `hits` match under that order (and under
  // any other). The order-sensitive snippets — the number `g` is applied to occurs below `$A`, but
  // not first — do NOT match under the fixed order and would match if B ran first: they are what a
  // regression to hash-order iteration makes unstable (scan records, `test -U` / `test`).
  let hits = (0..5).map(|_| { let (a, b) = (rng.range(1, 4), rng.range(5, 9)); format!("{f}(q({b}, {a}), g({b}));") }).collect();
  let mut misses = vec![format!("{f}(1, 2);")];
  for _ in 0..3 {
    let (a, b) = (rng.range(1, 4), rng.range(5, 9));
    misses.push(format!("{f}(q({a}, {b}), g({b}));"));
  }
  RuleSpec { id, lang, doc, feats: vec!["constraints-shared-var"], shared: true, hits, misses }
}

/// a fix that erases the whole match: for a test case that consists of the match alone the fixed
/// text is the empty document (a snapshot must say `fixed: ''`, and say it again when it is read)
fn erase_rule(rng: &mut Rng, id: String, lang: &'static str, f: &str) -> RuleSpec {
  let doc = obj(vec![
    ("id", json!(id)),
    ("language", json!(lang)),
    ("severity", json!(severity(rng))),
    ("rule", json!({"kind": "expression_statement", "has": {"pattern": format!("{f}_gone($$$A)")}})),
    ("message", json!(format!("{f}_gone is gone"))),
    ("fix", json!("")),
  ]);
  let hits = vec![format!("{f}_gone();"), format!("{f}_gone(1, 2);"), format!("{f}_gone(alpha)")];
  let misses = vec![format!("{f}_here();"), format!("let z = {f}_gone(1);")];
  RuleSpec { id, lang, doc, feats: vec!["fix", "erasing-fix"], shared: false, hits, misses }
}

fn gen_project(idx: usize, rng: &mut Rng) -> (Project, Layout) {
  let nrules = 3 + rng.below(8);
  let with_shared = rng.chance(1, 4);
  let mut fnames = FNAMES.to_vec();
  shuffle(rng, &mut fnames);
  let nglob = [3 + rng.below(4), 3 + rng.below(4)];
  let mut rules = vec![];
  for i in 0..nrules {
    let lang = if rng.chance(2, 3) { "JavaScript" } else { "TypeScript" };
    let ng = nglob[(lang == "TypeScript") as usize];
    let f = fnames[i];
    let id = format!("r{i}-{f}");
    rules.push(match i {
      0 => chain_rule(rng, id, lang, f, ng),
      1 => rew_rule(rng, id, lang, f),
      2 if with_shared => shared_rule(rng, id, lang, f),
      _ if rng.chance(1, 4) => rew_rule(rng, id, lang, f),
      _ => chain_rule(rng, id, lang, f, ng),
    });
  }
  if rng.chance(1, 2) {
    let f = fnames[nrules % fnames.len()];
    rules.push(py_chain_rule(rng, format!("r{nrules}-{f}-py"), f));
  }
  if rng.chance(1, 2) {
    let f = fnames[(nrules + 1) % fnames.len()];
    let lang = if rng.chance(1, 2) { "JavaScript" } else { "TypeScript" };
    rules.push(erase_rule(rng, format!("r{}-{f}-erase", nrules + 1), lang, f));
  }
  let nrules = rules.len();
  shuffle(rng, &mut rules);
  let mut langs: Vec<&'static str> = rules.iter().map(|r| r.lang).collect();
  langs.sort();
  langs.dedup();
  let mut globals = vec![];
  for l in &langs {
    if *l == "Python" {
      continue; // no global utilities for the Python rule
    }
    globals.extend(gen_globals(rng, l, pfx(l), nglob[(*l == "TypeScript") as usize]));
  }
  // sources: 5..20 files in nested dirs, languages round-robin; every rule gets lines in 2..4 files
  let nfiles = 5 + rng.below(16);
  let mut files: Vec<(String, String, &'static str)> = (0..nfiles)
    .map(|i| {
      let l = langs[i % langs.len()];
      let ext = if l == "JavaScript" { "js" } else if l == "Python" { "py" } else { "ts" };
      let head = if l == "Python" { format!("# file {i}\nv{i} = {i}\n") } else { format!("// file {i}\nconst v{i} = {i};\n") };
      (format!("{}/f{i}.{ext}", rng.pick(&DIRS)), head, l)
    })
    .collect();
  for r in &rules {
    let mine: Vec<usize> = (0..nfiles).filter(|i| files[*i].2 == r.lang).collect();
    for _ in 0..2 + rng.below(3) {
      let fi = *rng.pick(&mine);
      for _ in 0..1 + rng.below(3) {
        files[fi].1 += &format!("{}\n", rng.pick(&r.hits));
      }
      if rng.chance(1, 2) {
        files[fi].1 += &format!("{}\n", rng.pick(&r.misses));
      }
    }
  }
  let mut files: Vec<(String, String)> = files.into_iter().map(|(p, c, _)| (p, c)).collect();
  // an HTML page that embeds JavaScript under every name the language has (`<script>`, `lang="js"`,
  // `lang="javascript"`): each script is a document of its own, all of them are searched, in
  // every process
  if let Some(r) = rules.iter().find(|r| r.lang == "JavaScript") {
    let h = |i: usize| r.hits[i % r.hits.len()].clone();
    files.push((
      "web/names.html".to_string(),
      format!("<p>names</p>\n<script>\n{}\n</script>\n<script lang=\"javascript\">{}</script>\n<script lang=\"js\">\n  {}\n</script>\n", h(0), h(1), h(2)),
    ));
  }
  let nfiles = files.len();
  let ngroups = 1 + rng.below(nrules);
  let mut groups: Vec<(String, Vec<usize>)> = (0..ngroups).map(|k| (format!("rules/r{k}.yml"), vec![])).collect();
  for i in 0..nrules {
    groups[rng.below(ngroups)].1.push(i);
  }
  groups.retain(|g| !g.1.is_empty());
  let util_files = globals.iter().enumerate().map(|(i, g)| (format!("utils/{}.yml", g.0), i)).collect();
  let base = Layout { perm: None, groups, util_files, src_order: (0..nfiles).collect() };
  (Project { idx, rules, globals, files }, base)
}

/// same documents, other rule/util file names, other grouping, other `---` order, other creation order
fn permute_files(p: &Project, base: &Layout, rng: &mut Rng) -> Layout {
  let mut order: Vec<usize> = (0..p.rules.len()).collect();
  shuffle(rng, &mut order);
  let ngroups = 1 + rng.below(p.rules.len());
  let names = |k: usize| match k % 3 {
    0 => format!("rules/zz{k}.yml"),
    1 => format!("rules/nested/deep/m{k}.yaml"),
    _ => format!("rules/nested/a{k}.yml"),
  };
  let mut groups: Vec<(String, Vec<usize>)> = (0..ngroups).rev().map(|k| (names(k), vec![])).collect();
  for i in order {
    groups[rng.below(ngroups)].1.push(i);
  }
  groups.retain(|g| !g.1.is_empty());
  let n = p.globals.len();
  let mut util_files: Vec<(String, usize)> = (0..n).map(|i| (format!("utils/sub{}/x{}.yaml", i % 2, n - i), i)).collect();
  shuffle(rng, &mut util_files);
  Layout { perm: None, groups, util_files, src_order: base.src_order.clone() }
}

fn write(root: &Path, rel: &str, content: &str) {
  let p = root.join(rel);
  std::fs::create_dir_all(p.parent().unwrap()).unwrap();
  std::fs::write(p, content).unwrap();
}
fn rules_yaml(p: &Project, l: &Layout, perm: &mut Option<Rng>) -> Vec<(String, String)> {
  let mut out = vec![];
  for (name, gi) in &l.util_files {
    out.push((name.clone(), doc_yaml(&p.globals[*gi].1, perm)));
  }
  for (name, idxs) in &l.groups {
    let docs: Vec<String> = idxs.iter().map(|i| doc_yaml(&p.rules[*i].doc, perm)).collect();
    out.push((name.clone(), docs.join("---\n")));
  }
  out
}
fn materialize(p: &Project, l: &Layout) -> tempfile::TempDir {
  let d = tempfile::Builder::new().prefix("c13p").tempdir().unwrap();
  let root = d.path();
  write(root, "sgconfig.yml", CONFIG);
  for (name, text) in rules_yaml(p, l, &mut l.perm.map(Rng)) {
    write(root, &name, &text);
  }
  for i in &l.src_order {
    write(root, &p.files[*i].0, &p.files[*i].1);
  }
  for (k, r) in p.rules.iter().enumerate() {
    if k % 3 == 1 {
      // the cases of one rule spread over two test files with the same id: their snapshots share
      // one snapshot file
      let t1 = json!({"id": r.id, "valid": r.misses, "invalid": r.hits[..1]});
      let t2 = json!({"id": r.id, "invalid": r.hits[1..3]});
      write(root, &format!("tests/{}-test.yml", r.id), &serde_yaml::to_string(&t1).unwrap());
      write(root, &format!("tests/more/{}-more-test.yml", r.id), &serde_yaml::to_string(&t2).unwrap());
      continue;
    }
    let t = json!({"id": r.id, "valid": r.misses, "invalid": r.hits[..3]});
    write(root, &format!("tests/{}-test.yml", r.id), &serde_yaml::to_string(&t).unwrap());
  }
  d
}

// ---------------------------------------------------------------- running the CLI
struct Run {
  code: i32,
  out: String,
  err: String,
}
struct Sg {
  bin: PathBuf,
  scratch: tempfile::TempDir,
  launches: usize,
}
impl Sg {
  /// one fresh process, stdout/stderr to files (no pipe dead-lock), killed after TIMEOUT -> code HANG
  fn run(&mut self, cwd: &Path, args: &[&str]) -> Run {
    self.launches += 1;
    let (so, se) = (self.scratch.path().join("stdout"), self.scratch.path().join("stderr"));
    let mut child = Command::new(&self.bin)
      .args(args)
      .current_dir(cwd)
      .stdin(Stdio::null())
      .stdout(std::fs::File::create(&so).unwrap())
      .stderr(std::fs::File::create(&se).unwrap())
      .spawn()
      .expect("spawn agv-sg");
    let t0 = Instant::now();
    let code = loop {
      match child.try_wait() {
        Ok(Some(st)) => break st.code().unwrap_or(-1),
        Ok(None) if t0.elapsed() > TIMEOUT => {
          let _ = child.kill();
          let _ = child.wait();
          break HANG;
        }
        _ => std::thread::sleep(Duration::from_millis(4)),
      }
    };
    let rd = |p: &Path| String::from_utf8_lossy(&std::fs::read(p).unwrap_or_default()).into_owned();
    Run { code, out: rd(&so), err: rd(&se) }
  }
}

fn canon(v: &Value, out: &mut String) {
  match v {
    Value::Object(m) => {
      let mut ks: Vec<&String> = m.keys().collect();
      ks.sort();
      out.push('{');
      for (i, k) in ks.into_iter().enumerate() {
        if i > 0 {
          out.push(',');
        }
        out.push_str(&Value::String(k.clone()).to_string());
        out.push(':');
        canon(&m[k], out);
      }
      out.push('}');
    }
    Value::Array(a) => {
      out.push('[');
      for (i, x) in a.iter().enumerate() {
        if i > 0 {
          out.push(',');
        }
        canon(x, out);
      }
      out.push(']');
    }
    other => out.push_str(&other.to_string()),
  }
}

/// canonical result of one `scan --json=stream`: exit code + sorted (canonical record, rule id)
struct Scan {
  code: i32,
  recs: Vec<(String, String)>,
  load_err: Option<String>,
}
fn scan(sg: &mut Sg, root: &Path) -> Scan {
  let r = sg.run(root, &["scan", "--json=stream"]);
  let mut recs = vec![];
  for line in r.out.lines().filter(|l| !l.trim().is_empty()) {
    match serde_json::from_str::<Value>(line) {
      Ok(v) => {
        let mut s = String::new();
        canon(&v, &mut s);
        recs.push((s, v["ruleId"].as_str().unwrap_or("?").to_string()));
      }
      Err(_) => recs.push((format!("unparsable: {line}"), "?".into())),
    }
  }
  recs.sort();
  let failed = r.code != 0 && r.code != HANG && r.out.trim().is_empty() && !r.err.contains("found in code");
  let load_err = (failed || (2..=126).contains(&r.code)).then(|| r.err.lines().filter(|l| l.starts_with("Error") || l.contains('\u{25bb}')).collect::<Vec<_>>().join(" | "));
  if load_err.is_some() {
    recs.push(("load-error".into(), "<load>".into()));
  }
  Scan { code: r.code, recs, load_err }
}

/// accumulated differences of one oracle family on one project
#[derive(Default)]
struct Cmp {
  ids: BTreeSet<String>,
  first: Option<String>,
  hang: bool,
  class: String,
}
impl Cmp {
  fn note(&mut self, class: &str, id: Option<&str>, what: String) {
    if let Some(id) = id {
      self.ids.insert(id.to_string());
    }
    if self.first.is_none() {
      self.first = Some(what.chars().take(400).collect());
      self.class = class.to_string();
    }
  }
  fn scans(&mut self, class: &str, label: &str, base: &Scan, other: &Scan) {
    if base.code == HANG || other.code == HANG {
      self.hang = true;
      return self.note(class, None, format!("{label}: hang"));
    }
    let mut cnt: BTreeMap<&str, (i64, &str)> = BTreeMap::new();
    for (s, id) in &base.recs {
      cnt.entry(s).or_insert((0, id)).0 += 1;
    }
    for (s, id) in &other.recs {
      cnt.entry(s).or_insert((0, id)).0 -= 1;
    }
    let mut any = false;
    for (s, (n, id)) in cnt.iter().filter(|(_, v)| v.0 != 0) {
      any = true;
      let side = if *n > 0 { "only in baseline run 0" } else { "only in this run" };
      let err = other.load_err.as_deref().or(base.load_err.as_deref()).unwrap_or("");
      self.note(class, Some(id), format!("{label}: {side}: {} {err}", brief(s)));
    }
    if !any && base.code != other.code {
      self.note(class, None, format!("{label}: exit code {} vs {}", base.code, other.code));
    }
  }
  fn ok(&self) -> bool {
    self.first.is_none()
  }
}
fn brief(rec: &str) -> String {
  match serde_json::from_str::<Value>(rec) {
    Ok(v) => format!("ruleId={} file={} line={} text={} message={}", v["ruleId"], v["file"], v["range"]["start"]["line"], v["text"], v["message"]),
    Err(_) => rec.to_string(),
  }
}

fn strip_ansi(s: &str) -> String {
  let mut out = String::new();
  let mut it = s.chars();
  while let Some(c) = it.next() {
    if c == '\u{1b}' {
      for d in it.by_ref() {
        if d.is_ascii_alphabetic() {
          break;
        }
      }
    } else {
      out.push(c);
    }
  }
  out
}
fn snapshots(root: &Path) -> BTreeMap<String, Vec<u8>> {
  let mut m = BTreeMap::new();
  if let Ok(rd) = std::fs::read_dir(root.join("tests/__snapshots__")) {
    for e in rd.flatten() {
      m.insert(e.file_name().to_string_lossy().into_owned(), std::fs::read(e.path()).unwrap_or_default());
    }
  }
  m
}
/// the documented shape of a snapshot file: the `snapshots` map is written sorted by source text
/// (byte-wise), whatever order the HashMap had; returns the files that are not
fn unsorted_snapshots(snaps: &BTreeMap<String, Vec<u8>>) -> (usize, Vec<String>) {
  let mut bad = vec![];
  let mut entries = 0;
  for (name, bytes) in snaps {
    let Ok(doc) = serde_yaml::from_slice::<serde_yaml::Value>(bytes) else {
      bad.push(format!("{name}: not YAML"));
      continue;
    };
    let keys: Vec<String> = doc
      .get("snapshots")
      .and_then(|m| m.as_mapping())
      .map(|m| m.keys().filter_map(|k| k.as_str().map(String::from)).collect())
      .unwrap_or_default();
    entries += keys.len();
    if keys.windows(2).any(|w| w[0].as_bytes() >= w[1].as_bytes()) {
      bad.push(name.clone());
    }
  }
  (entries, bad)
}
fn failed_rules(r: &Run) -> Vec<String> {
  let txt = strip_ansi(&r.out);
  txt.lines().filter_map(|l| l.strip_prefix("FAIL ")).filter_map(|l| l.split_whitespace().next().map(String::from)).collect()
}
fn cmp_snaps(c: &mut Cmp, class: &str, label: &str, a: &BTreeMap<String, Vec<u8>>, b: &BTreeMap<String, Vec<u8>>) {
  let names: BTreeSet<&String> = a.keys().chain(b.keys()).collect();
  for n in names {
    if a.get(n) != b.get(n) {
      let id = n.trim_end_matches("-snapshot.yml");
      let show = |x: Option<&Vec<u8>>| x.map(|v| String::from_utf8_lossy(v).replace('\n', "\\n")).unwrap_or("<absent>".into());
      c.note(class, Some(id), format!("{label}: snapshot {n} differs: {:.150} VS {:.150}", show(a.get(n)), show(b.get(n))));
    }
  }
}

// ---------------------------------------------------------------- the oracle
fn verdict(o: &mut Out, family: &str, p: &Project, base: &Layout, c: &Cmp, runs: usize, stats: Value) {
  if c.ok() {
    return o.oracle(&format!("c13-{family}"), true, json!({"project": p.idx, "runs": runs, "stats": stats}));
  }
  let shared: BTreeSet<&str> = p.rules.iter().filter(|r| r.shared).map(|r| r.id.as_str()).collect();
  let fp = if c.hang {
    "c13 hang".to_string()
  } else if !c.ids.is_empty() && c.ids.iter().all(|i| shared.contains(i.as_str())) {
    "c13 constraints=shared-var".to_string()
  } else {
    let mut fs: BTreeSet<&str> = BTreeSet::new();
    for r in p.rules.iter().filter(|r| c.ids.contains(&r.id)) {
      fs.extend(r.feats.iter());
    }
    if fs.is_empty() {
      fs.insert("unattributed");
    }
    format!("c13 {family} features={}", fs.into_iter().collect::<Vec<_>>().join(","))
  };
  let yaml: BTreeMap<String, String> = rules_yaml(p, base, &mut None).into_iter().collect();
  let src: Vec<&String> = p.rules.iter().filter(|r| c.ids.contains(&r.id)).flat_map(|r| r.hits.iter()).collect();
  o.oracle(
    &format!("c13-{family}"),
    false,
    json!({"fp": fp, "project": p.idx, "class": c.class, "rules": c.ids, "first_diff": c.first, "runs": runs, "yaml": yaml, "src": src}),
  );
}

pub fn process(ctx: &Ctx, rng: &mut Rng, o: &mut Out) {
  let bin = std::env::current_exe().unwrap().parent().unwrap().join("agv-sg");
  let mut sg = Sg { bin, scratch: tempfile::Builder::new().prefix("c13s").tempdir().unwrap(), launches: 0 };
  let nproj = if ctx.thorough { 120 } else { 12 };
  let mut cases = [0usize; 4];
  let mut snap_entries = 0usize;
  for idx in 0..nproj {
    let mut r = rng.fork();
    let (p, base) = gen_project(idx, &mut r);
    let mut keys = base.clone();
    keys.perm = Some(r.next());
    let files = permute_files(&p, &base, &mut r);
    let mut srcs = base.clone();
    shuffle(&mut r, &mut srcs.src_order);
    if srcs.src_order == base.src_order {
      srcs.src_order.reverse();
    }
    if std::env::var("C13_SELFTEST").is_ok() {
      srcs.src_order.pop(); // non-vacuity check of the oracle: a lost source file must be reported
    }

    if std::env::var("C13_DUMP").is_ok() && idx == 0 {
      for (n, t) in rules_yaml(&p, &keys, &mut keys.perm.map(Rng)).into_iter().chain(rules_yaml(&p, &files, &mut None)) {
        eprintln!("##### {n}\n{t}");
      }
    }
    // 2. baseline: 8 fresh processes on one copy
    let d0 = materialize(&p, &base);
    let l0 = sg.launches;
    let runs: Vec<Scan> = (0..8).map(|_| scan(&mut sg, d0.path())).collect();
    if let Some(e) = &runs[0].load_err {
      let yaml: BTreeMap<String, String> = rules_yaml(&p, &base, &mut None).into_iter().collect();
      o.oracle("c13-generator", false, json!({"fp": "c13 generator-invalid-project", "project": idx, "stderr": e, "exit": runs[0].code, "yaml": yaml}));
      continue;
    }
    let mut c = Cmp::default();
    for (k, s) in runs.iter().enumerate().skip(1) {
      c.scans("repeat", &format!("baseline run {k}"), &runs[0], s);
    }
    // generator self-check: every rule (but the order-dependent one) has findings, in several files
    let per_rule = |id: &str| runs[0].recs.iter().filter(|r| r.1 == id).count();
    let unmatched: Vec<&String> = p.rules.iter().filter(|r| per_rule(&r.id) < 2).map(|r| &r.id).collect();
    if !unmatched.is_empty() {
      let yaml: BTreeMap<String, String> = rules_yaml(&p, &base, &mut None).into_iter().collect();
      o.oracle("c13-generator", false, json!({"fp": "c13 generator-rule-without-findings", "project": idx, "rules": unmatched, "yaml": yaml}));
    }
    let mut feats: BTreeSet<&str> = p.rules.iter().flat_map(|r| r.feats.iter().copied()).collect();
    feats.insert(if p.rules.iter().any(|r| r.lang == "TypeScript") { "lang-ts" } else { "lang-js-only" });
    let stats = json!({"rules": p.rules.len(), "global_utils": p.globals.len(), "files": p.files.len(), "records": runs[0].recs.len(),
      "rule_files": base.groups.len(), "exit": runs[0].code, "features": feats});
    verdict(o, "scan-stable", &p, &base, &c, sg.launches - l0, stats);
    cases[0] += sg.launches - l0;

    // 3. variants, each in a fresh copy, 2 processes each
    let variant = |sg: &mut Sg, c: &mut Cmp, class: &str, l: &Layout| {
      let d = materialize(&p, l);
      for k in 0..2 {
        let s = scan(sg, d.path());
        c.scans(class, &format!("{class} run {k}"), &runs[0], &s);
      }
    };
    let (mut ck, l0) = (Cmp::default(), sg.launches);
    variant(&mut sg, &mut ck, "permuted-keys", &keys);
    verdict(o, "permute-keys", &p, &base, &ck, sg.launches - l0, Value::Null);
    cases[1] += sg.launches - l0;
    let (mut cf, l0) = (Cmp::default(), sg.launches);
    variant(&mut sg, &mut cf, "rule-files", &files);
    variant(&mut sg, &mut cf, "source-order", &srcs);
    verdict(o, "permute-files", &p, &base, &cf, sg.launches - l0, Value::Null);
    cases[2] += sg.launches - l0;

    // 4. snapshots: test -U, test, 3 more fresh copies, and the permuted-keys copy
    let (mut cs, l0) = (Cmp::default(), sg.launches);
    // every third project has a snapshot file left behind by a test case that no longer exists:
    // it belongs to no test directory, `test -U` leaves it alone and writes the others
    let stale = idx % 3 == 0;
    if stale {
      let dir = d0.path().join("tests/__snapshots__");
      let _ = std::fs::create_dir_all(&dir);
      let _ = std::fs::write(dir.join("gone-rule-snapshot.yml"), "id: gone-rule\nsnapshots:\n  gone(1):\n    labels:\n    - source: gone(1)\n      style: primary\n      start: 0\n      end: 7\n");
    }
    let u0 = sg.run(d0.path(), &["test", "-U"]);
    let mut snap0 = snapshots(d0.path());
    if stale {
      match snap0.remove("gone-rule-snapshot.yml") {
        Some(b) if b.starts_with(b"id: gone-rule") => {}
        other => o.oracle("c13-snapshot-order", false, json!({"fp": "c13 a snapshot without test case was touched by test -U", "project": idx, "present": other.is_some()})),
      }
    }
    let (entries, bad) = unsorted_snapshots(&snap0);
    snap_entries += entries;
    if !bad.is_empty() {
      o.oracle("c13-snapshot-order", false, json!({"fp": "c13 snapshot-keys-not-sorted", "project": idx, "files": bad}));
    }
    if u0.code != 0 && u0.code != HANG {
      // the generated `valid` / `invalid` expectations hold for the code as it is; a failure that
      // only concerns the shared-variable rule is what a regression to hash-order iteration of the
      // constraints looks like (class shared-var), anything else is a generator bug
      let failed = failed_rules(&u0);
      let shared_only = !failed.is_empty() && failed.iter().all(|id| p.rules.iter().any(|r| r.shared && r.id == *id));
      if shared_only {
        cs.note("update-fails", failed.first().map(|s| s.as_str()), format!("`test -U` exits {}; failed rules {:?}", u0.code, failed));
        cs.ids.extend(failed);
      } else {
        let yaml: BTreeMap<String, String> = rules_yaml(&p, &base, &mut None).into_iter().collect();
        o.oracle("c13-generator", false, json!({"fp": "c13 generator-invalid-project", "project": idx, "what": "test -U fails", "exit": u0.code,
          "failed": failed, "stdout": strip_ansi(&u0.out).chars().take(1500).collect::<String>(), "yaml": yaml}));
      }
    }
    let t0 = sg.run(d0.path(), &["test"]);
    for (lbl, r) in [("test -U", &u0), ("test after -U", &t0)] {
      if r.code == HANG {
        cs.hang = true;
        cs.note("snapshot", None, format!("{lbl}: hang"));
      }
    }
    if t0.code != 0 {
      let failed = failed_rules(&t0);
      cs.note("test-after-update", failed.first().map(|s| s.as_str()), format!("`test` after `test -U` exits {} (test -U exited {}); failed rules {:?}", t0.code, u0.code, failed));
      cs.ids.extend(failed);
    }
    let mut after_test = snapshots(d0.path());
    if stale {
      after_test.remove("gone-rule-snapshot.yml");
    }
    cmp_snaps(&mut cs, "test-rewrites-snapshot", "after `test`", &snap0, &after_test);
    let mut copies: Vec<(String, Layout)> = (1..=3).map(|k| (format!("fresh copy {k}"), base.clone())).collect();
    copies.push(("permuted-keys copy".into(), keys.clone()));
    for (lbl, l) in &copies {
      let d = materialize(&p, l);
      let u = sg.run(d.path(), &["test", "-U"]);
      if u.code == HANG {
        cs.hang = true;
        cs.note("snapshot", None, format!("{lbl}: hang"));
      } else if u.code != u0.code {
        let mut failed = failed_rules(&u);
        failed.extend(failed_rules(&u0));
        cs.note("update-exit-code", failed.first().map(|s| s.as_str()), format!("{lbl}: `test -U` exits {} vs {} in the first copy; failed rules {:?}", u.code, u0.code, failed));
        cs.ids.extend(failed);
      }
      cmp_snaps(&mut cs, "snapshot-bytes", lbl, &snap0, &snapshots(d.path()));
    }
    verdict(o, "snapshot", &p, &base, &cs, sg.launches - l0, json!({"snapshot_files": snap0.len(), "update_exit": u0.code}));
    cases[3] += sg.launches - l0;
  }
  o.oracle("c13-snapshot-order", true, json!({"cases": snap_entries}));
  for (i, fam) in ["scan-stable", "permute-keys", "permute-files", "snapshot"].iter().enumerate() {
    o.oracle(&format!("c13-{fam}"), true, json!({"cases": cases[i]}));
  }
}
