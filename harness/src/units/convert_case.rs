//! C07 unit `convert_case`: the `convert` transformation of rule files
//! (`crates/config/src/transform/string_case.rs`: `StringCase::apply`, `split`,
//! `Delimiter::delimit`), reached through the public API only: a rule loaded from YAML with
//! `transform: {T<i>: {convert: {source: $A, toCase: …, separatedBy: …}}}` is matched against a
//! JavaScript document whose string literals carry the inputs (`$A` = the `string_fragment`
//! node, whose text is the input verbatim), and the transformed variables are read from the
//! environment of every match (`MetaVarEnv::get_transformed`).
//!
//! op `convert_case`: a = {"s", "to", "sep": [names] | null}, r = the converted string.
//! oracle `convert-case` (from the documentation of the transformation: words are re-joined,
//! only separators are dropped or inserted and only the case of letters changes): the letters
//! and digits of the output, case-folded, are the letters and digits of the input, case-folded.
use super::Ctx;
use crate::util::*;
use ast_grep_config::{from_yaml_string, GlobalRules};
use ast_grep_core::Language as _;
use ast_grep_language::SupportLang;
use serde_json::{json, Value};

pub const CASES: [&str; 7] = ["lowerCase", "upperCase", "capitalize", "camelCase", "snakeCase", "kebabCase", "pascalCase"];

/// does the case split its input (and so depend on `separatedBy`)?
fn splits(case: &str) -> bool {
  matches!(case, "camelCase" | "snakeCase" | "kebabCase" | "pascalCase")
}

/// `None` = `separatedBy` absent (the default: every separator)
type Seps = Option<Vec<&'static str>>;

fn sep_sets() -> Vec<Seps> {
  vec![
    None,
    Some(vec!["caseChange"]),
    Some(vec!["underscore"]),
    Some(vec!["dash", "dot"]),
    Some(vec!["caseChange", "underscore"]),
    Some(vec!["space", "slash"]),
    Some(vec![]),
    Some(vec!["dash", "underscore", "dot", "slash", "space"]),
    Some(vec!["underscore", "caseChange", "underscore", "dash"]),
  ]
}

fn seps_json(s: &Seps) -> Value {
  match s {
    None => Value::Null,
    Some(v) => json!(v),
  }
}

fn rule_yaml(plan: &[(&str, Seps)]) -> String {
  let mut y = String::from("id: cc\nlanguage: JavaScript\nrule:\n  all:\n    - kind: string_fragment\n    - pattern: $A\ntransform:\n");
  for (i, (case, seps)) in plan.iter().enumerate() {
    y.push_str(&format!("  T{i}:\n    convert:\n      source: $A\n      toCase: {case}\n"));
    if let Some(v) = seps {
      y.push_str(&format!("      separatedBy: [{}]\n", v.join(", ")));
    }
  }
  y
}

/// can the string travel as the text of a JavaScript `string_fragment`?
fn carriable(s: &str) -> bool {
  !s.is_empty() && !s.contains(['"', '\\', '\n', '\r'])
}

/// the real code on every (string, plan entry): `res[i][j]` = `T<j>` of the i-th string.
/// `None` = the rule was rejected or the matches do not line up with the inputs.
fn run_batch_inner(strings: &[String], plan: &[(&str, Seps)]) -> Option<Vec<Vec<Value>>> {
  let yaml = rule_yaml(plan);
  let globals = GlobalRules::default();
  let rules = match from_yaml_string::<SupportLang>(&yaml, &globals) {
    Ok(r) => r,
    Err(e) => {
      if std::env::var("AGV_DEBUG").is_ok() {
        eprintln!("yaml rule rejected: {e:?}\n{yaml}");
      }
      return None;
    }
  };
  let rule = rules.into_iter().next()?;
  let mut src = String::new();
  for s in strings {
    src.push_str("x(\"");
    src.push_str(s);
    src.push_str("\");\n");
  }
  let grep = rule.language.ast_grep(&src);
  let root = grep.root();
  let mut res = Vec::with_capacity(strings.len());
  for (i, nm) in root.find_all(&rule.matcher).enumerate() {
    if i >= strings.len() || nm.text() != strings[i].as_str() {
      return None;
    }
    let env = nm.get_env();
    let row: Vec<Value> = (0..plan.len())
      .map(|j| match env.get_transformed(&format!("T{j}")) {
        Some(b) => match std::str::from_utf8(b) {
          Ok(t) => json!(t),
          Err(_) => json!({"invalid_utf8": super::indent::hex(b)}),
        },
        None => Value::Null,
      })
      .collect();
    res.push(row);
  }
  if res.len() != strings.len() {
    return None;
  }
  Some(res)
}

/// a panic in one conversion must not hide the others: on a panic the batch is redone string by
/// string, entry by entry
fn run_batch(strings: &[String], plan: &[(&str, Seps)]) -> Option<Vec<Vec<Value>>> {
  match std::panic::catch_unwind(std::panic::AssertUnwindSafe(|| run_batch_inner(strings, plan))) {
    Ok(r) => r,
    Err(_) => Some(
      strings
        .iter()
        .map(|s| plan.iter().map(|(case, seps)| r_convert_case(s, case, seps)).collect())
        .collect(),
    ),
  }
}

/// one conversion through a one-transform rule (replay, and the fall-back after a panic)
fn r_convert_case(s: &str, case: &str, seps: &Seps) -> Value {
  let one = [s.to_string()];
  let plan = [(case, seps.clone())];
  guard(|| match run_batch_inner(&one, &plan) {
    Some(r) => r[0][0].clone(),
    None => json!("norun"),
  })
}

// ---------------------------------------------------------------------------------------
// oracle

/// letters and digits, case-folded (full folding of the one special letter of the inputs: ß = ss)
fn folded(s: &str) -> String {
  s.chars().filter(|c| c.is_alphanumeric()).flat_map(|c| c.to_lowercase()).collect::<String>().replace('ß', "ss")
}

/// class of a character, for fingerprints
fn class(c: char) -> char {
  if c.is_lowercase() {
    'l'
  } else if c.is_uppercase() {
    'U'
  } else if c.is_alphanumeric() {
    'd'
  } else if "-./ _".contains(c) {
    's'
  } else {
    'p'
  }
}

fn shape(s: &str) -> String {
  let mut out = String::new();
  for c in s.chars().map(class) {
    // runs of 3 or more are written as 3
    let n = out.chars().rev().take_while(|x| *x == c).count();
    if n < 3 {
      out.push(c);
    }
  }
  out.chars().take(12).collect()
}

struct Tally {
  /// the oracle's quantifier: inputs over the alphabet of the case tables the reference knows
  judged: bool,
  cases: usize,
  ops: usize,
  skipped: usize,
}

fn emit(o: &mut Out, t: &mut Tally, s: &str, case: &str, seps: &Seps, r: Value) {
  if let Some(out) = r.as_str() {
    if t.judged && out != "panic" && out != "norun" {
      t.cases += 1;
      if folded(out) != folded(s) {
        o.oracle(
          "convert-case",
          false,
          json!({"fp": format!("convert: letters or digits lost or invented, toCase={case} separatedBy={} shape={}", seps_json(seps), shape(s)),
                 "s": s, "to": case, "sep": seps_json(seps), "out": out}),
        );
      }
    }
  }
  o.op("convert_case", json!({"s": s, "to": case, "sep": seps_json(seps)}), r);
  t.ops += 1;
}

fn run_plan(o: &mut Out, t: &mut Tally, strings: &[String], plan: &[(&str, Seps)]) {
  let strings: Vec<String> = strings.iter().filter(|s| carriable(s)).cloned().collect();
  for chunk in strings.chunks(4000) {
    match run_batch(chunk, plan) {
      Some(res) => {
        for (s, row) in chunk.iter().zip(res) {
          for ((case, seps), r) in plan.iter().zip(row) {
            emit(o, t, s, case, seps, r);
          }
        }
      }
      None => {
        // the carrier failed (not the transformation): string by string
        for s in chunk {
          for (case, seps) in plan {
            let r = r_convert_case(s, case, seps);
            if r == json!("norun") {
              t.skipped += 1;
            } else {
              emit(o, t, s, case, seps, r);
            }
          }
        }
      }
    }
  }
}

fn exact_len(alphabet: &[char], len: usize) -> Vec<String> {
  all_strings(alphabet, len).into_iter().filter(|s| s.chars().count() == len).collect()
}

const IDENTIFIERS: &[&str] = &[
  "base64URL", "base64url", "utf8BOMMarker", "h264HDVideo", "XMLHttpRequest", "md5sumOfFile", "user_accountName",
  "some-kebab.case/path", "ABCdef", "aBCDe", "a1B2", "a12B", "sha256sum", "camelsLiveInTheDesert", "snakes_live_in_forests",
  "kebab-is-a-delicious-food", "PascalIsACoolGuy", "path/is/a/slashed/string", "www.dot.com", "x.com/hd_nvim", "whatHTML",
  "aBc", "HTTPServer2Go", "getHTTPResponseCode", "IOError", "__init__", "--flag--", "a..b", "a._.b", " leading space", "trailing ",
  "snake_CASE_mixed", "SCREAMING_SNAKE_CASE", "Title Case Words", "x", "X", "9", "_", "éclairÉtoile", "ÉCOLEnormale", "straßeNummer",
  "ßtart", "größeÜber", "niño_Ñandü", "中€Mixed中", "price€Total", "v1.2.3-rc.1", "a/B/c", "A-B-C", "aA", "Aa", "AA", "AAa", "aAA", "AAaa",
  "A1", "1A", "1a", "a1", "11a", "a11", "A11a", "É1é", "ÉÉé", "éÉÉ", "ÀÖü",
];

/// inputs outside the model's alphabet: the model answers "outside", the checker skips them
const OUTSIDE: &[&str] = &["Σ", "ǅa", "İb", "ΑΣ", "ǆZ"];

pub fn convert_case(ctx: &Ctx, rng: &mut Rng, o: &mut Out) {
  silence_panics();
  let sets = sep_sets();
  let mut t = Tally { judged: true, cases: 0, ops: 0, skipped: 0 };
  // every case, every separator set (the non-splitting cases ignore `separatedBy`: default only)
  let mut full: Vec<(&str, Seps)> = vec![];
  for case in CASES {
    if splits(case) {
      for s in &sets {
        full.push((case, s.clone()));
      }
    } else {
      full.push((case, None));
      full.push((case, Some(vec!["caseChange"])));
    }
  }
  let narrow: Vec<(&str, Seps)> = vec![
    ("snakeCase", None),
    ("snakeCase", Some(vec!["caseChange"])),
    ("pascalCase", None),
    ("camelCase", Some(vec!["caseChange", "underscore"])),
  ];
  let default_all: Vec<(&str, Seps)> = CASES.iter().map(|c| (*c, None)).collect();

  // the alphabet exercises every transition of the state machine: lower, upper (two of them, to
  // tell `MultiUpper(c)` payloads apart), uncased, the five delimiters, a two-byte lower and upper
  let alpha: Vec<char> = vec!['a', 'B', 'C', '1', '_', '-', ' ', '.', '/', 'é', 'É'];
  let small: Vec<char> = vec!['a', 'B', '1', '_', 'É'];
  let wide: Vec<char> = vec!['a', 'B', 'ß', '中', '€', '1', '.'];

  let ids: Vec<String> = IDENTIFIERS.iter().map(|s| s.to_string()).collect();
  run_plan(o, &mut t, &ids, &full);
  let upto3 = all_strings(&alpha, 3);
  run_plan(o, &mut t, &upto3, &full);
  run_plan(o, &mut t, &exact_len(&alpha, 4), &narrow);
  run_plan(o, &mut t, &all_strings(&wide, if ctx.thorough { 5 } else { 4 }), &default_all);
  if ctx.thorough {
    run_plan(o, &mut t, &exact_len(&alpha, 4), &full);
    run_plan(o, &mut t, &exact_len(&alpha, 5), &narrow);
    run_plan(o, &mut t, &exact_len(&small, 5), &full);
    run_plan(o, &mut t, &exact_len(&small, 6), &narrow);
    run_plan(o, &mut t, &exact_len(&small, 7), &narrow[..2]);
  } else {
    run_plan(o, &mut t, &exact_len(&small, 5), &narrow);
    run_plan(o, &mut t, &exact_len(&small, 6), &narrow[..2]);
  }
  // random longer strings, random case and separator set
  let n_random = if ctx.thorough { 60_000 } else { 3_000 };
  let mut pool: Vec<char> = alpha.clone();
  pool.extend(['ß', '中', '€', 'x', 'Y', 'Z', '0', 'ñ', 'Ö', ':', '$']);
  let mut by_plan: Vec<Vec<String>> = vec![vec![]; full.len()];
  for _ in 0..n_random {
    let len = 5 + rng.below(12);
    let s: String = (0..len)
      .map(|_| if rng.chance(1, 3) { *rng.pick(&['a', 'B', 'c', 'D']) } else { *rng.pick(&pool) })
      .collect();
    by_plan[rng.below(full.len())].push(s);
  }
  for (i, strings) in by_plan.iter().enumerate() {
    run_plan(o, &mut t, strings, &full[i..i + 1]);
  }
  // outside the model's alphabet: recorded, answered "outside" by the model, skipped by the checker
  let outside: Vec<String> = OUTSIDE.iter().map(|s| s.to_string()).collect();
  t.judged = false;
  run_plan(o, &mut t, &outside, &default_all);
  o.oracle("convert-case", true, json!({"cases": t.cases, "ops": t.ops, "carrier_skipped": t.skipped}));
}

// ---------------------------------------------------------------------------------------
// replay

pub fn exec(op: &str, a: &Value) -> Option<Value> {
  if op != "convert_case" {
    return None;
  }
  let s = a["s"].as_str()?;
  let case = CASES.iter().find(|c| Some(**c) == a["to"].as_str())?;
  let names = ["caseChange", "dash", "dot", "slash", "space", "underscore"];
  let seps: Seps = a["sep"].as_array().map(|v| v.iter().filter_map(|x| names.iter().find(|n| Some(**n) == x.as_str()).copied()).collect());
  Some(r_convert_case(s, case, &seps))
}
