//! unit `project`: project discovery and rule-file loading of the real CLI vs `Model/Project.lean`.
//!
//! Every case is a generated temp tree (outer and inner `sgconfig.yml`, a nearer one that may be valid,
//! a directory or unparsable, nested `ruleDirs` with `.yml` / `.yaml` / `.txt` / `.json` / `.YML` / hidden
//! files, hidden directories, an `.ignore` file, multi-document / empty / unparsable / non-UTF-8 files,
//! duplicate rule ids, `utilDirs` with duplicate and dangling utility ids, overlapping / missing / file
//! `ruleDirs` entries) and one command line (`--config`, `-r`, `--inline-rules`, `--filter`, `--error`,
//! a start directory up to three levels below the configuration).  The real CLI
//! (`agv-sg scan --inspect entity`, one process per case, killed after 20 s) reports the project directory
//! and the rules of the final `RuleCollection` on stderr, or an error; the model gets the tree AS READ
//! BACK with `std::fs::read_dir` (children in readdir order) and predicts the same list in the same
//! order, or the same error class, path and exit status.
//!
//! Oracles on the implementation alone: `project-nearest` (the project directory is the nearest ancestor
//! of the start directory holding `sgconfig.yml`, `--config` wins), `project-rules-once` (every id the
//! generator put into a rule file of a `ruleDirs` entry is loaded exactly as often as it is declared and
//! reachable, nothing else), `project-shuffle` (the same project created in reverse order, in another
//! directory: same outcome).
use crate::units::Ctx;
use crate::util::*;
use serde_json::{json, Value};
use std::collections::BTreeMap;
use std::path::{Path, PathBuf};
use std::process::{Command, Stdio};
use std::time::{Duration, Instant};

#[derive(Clone, Debug)]
struct Doc {
  id: String,
  needs: Vec<String>,
  off: bool,
}

/// what the parameters of the model say about one file content
#[derive(Clone, Debug)]
struct Content {
  bytes: Vec<u8>,
  readable: bool,
  config: Option<(Vec<String>, Option<Vec<String>>)>,
  docs: Option<Vec<Doc>>,
  util: Option<(String, Vec<String>)>,
}

fn doc_yaml(d: &Doc) -> String {
  let rule = if d.needs.is_empty() {
    "{pattern: foo($A)}".to_string()
  } else {
    format!("{{any: [{}]}}", d.needs.iter().map(|n| format!("{{matches: {n}}}")).collect::<Vec<_>>().join(", "))
  };
  format!("id: {}\nlanguage: js\n{}rule: {}\n", d.id, if d.off { "severity: off\n" } else { "" }, rule)
}

fn rules_content(docs: &[Doc]) -> Content {
  let text = docs.iter().map(doc_yaml).collect::<Vec<_>>().join("---\n");
  Content { bytes: text.into_bytes(), readable: true, config: None, docs: Some(docs.to_vec()), util: None }
}

fn bad_content(kind: usize) -> Content {
  let bytes: Vec<u8> = match kind {
    0 => b": : :\n".to_vec(),
    1 => Vec::new(),
    2 => b"id: lonely\n".to_vec(),
    _ => vec![0xff, 0xfe, b'\n'],
  };
  Content { readable: kind < 3, bytes, config: None, docs: None, util: None }
}

fn util_content(id: &str, needs: &[String]) -> Content {
  let rule = if needs.is_empty() {
    "{kind: number}".to_string()
  } else {
    format!("{{any: [{{kind: number}}, {}]}}", needs.iter().map(|n| format!("{{matches: {n}}}")).collect::<Vec<_>>().join(", "))
  };
  let text = format!("id: {id}\nlanguage: js\nrule: {rule}\n");
  Content { bytes: text.into_bytes(), readable: true, config: None, docs: None, util: Some((id.to_string(), needs.to_vec())) }
}

fn config_content(rule_dirs: &[String], util_dirs: &Option<Vec<String>>) -> Content {
  let list = |v: &[String]| format!("[{}]", v.iter().map(|s| format!("\"{s}\"")).collect::<Vec<_>>().join(", "));
  let mut text = format!("ruleDirs: {}\n", list(rule_dirs));
  if let Some(u) = util_dirs {
    text.push_str(&format!("utilDirs: {}\n", list(u)));
  }
  Content { bytes: text.into_bytes(), readable: true, config: Some((rule_dirs.to_vec(), util_dirs.clone())), docs: None, util: None }
}

fn other_content(text: &str) -> Content {
  Content { bytes: text.as_bytes().to_vec(), readable: true, config: None, docs: None, util: None }
}

/// one generated case
#[derive(Clone)]
struct Case {
  /// files in creation order: path below the root, content index
  files: Vec<(String, usize)>,
  /// directories to create (also empty ones)
  dirs: Vec<String>,
  contents: Vec<Content>,
  cwd: String,
  config: Option<String>,
  /// the `--config` value is typed relative to the start directory
  config_relative: bool,
  rule: Option<String>,
  inline: Option<usize>,
  /// regex text, ids it matches
  filter: Option<(String, Vec<String>)>,
  sev_error: bool,
  ign_base: String,
  ign_names: Vec<String>,
  /// facts for the oracles
  main_rule_dirs: Vec<String>,
  plain: bool,
}

fn comps(p: &str) -> Vec<String> {
  p.split('/').filter(|s| !s.is_empty() && *s != ".").map(|s| s.to_string()).collect()
}

const PROJ: &str = "outer/proj";

fn gen_case(rng: &mut Rng, k: usize) -> Case {
  let mut contents: Vec<Content> = Vec::new();
  let mut files: Vec<(String, usize)> = Vec::new();
  let mut dirs: Vec<String> = vec!["src".into(), "outer/proj/a/b/c".into(), "loose".into()];
  let mut add = |contents: &mut Vec<Content>, files: &mut Vec<(String, usize)>, path: String, c: Content| {
    contents.push(c);
    files.push((path, contents.len() - 1));
  };
  let mut next_id = 0usize;
  let mut all_ids: Vec<String> = Vec::new();
  let mut fresh = |all_ids: &mut Vec<String>| {
    next_id += 1;
    let s = format!("r{next_id}");
    all_ids.push(s.clone());
    s
  };
  // a calm half: no broken file, no exotic ruleDirs
  let plain = rng.chance(1, 2);

  // ---- utilities
  let n_utils = rng.below(4);
  let mut util_ids: Vec<String> = (0..n_utils).map(|i| format!("u{i}")).collect();
  let util_dirs: Option<Vec<String>> = match rng.below(if plain { 3 } else { 6 }) {
    0 => None,
    1 => Some(vec!["utils".into()]),
    2 => Some(vec!["utils".into(), "utils2".into()]),
    3 => Some(vec![]),
    4 => Some(vec!["utils".into(), "missing_utils".into()]),
    _ => Some(vec!["utils2".into(), "utils".into()]),
  };
  dirs.push(format!("{PROJ}/utils"));
  dirs.push(format!("{PROJ}/utils2"));
  let dir_of = |i: usize| if i % 2 == 0 { "utils" } else { "utils2" };
  for (i, u) in util_ids.clone().iter().enumerate() {
    let dir = dir_of(i);
    let sub = if rng.chance(1, 4) { "nested/" } else { "" };
    // a utility only needs utilities of lower index (no cycles); dangling ones outside the calm half
    let needs: Vec<String> = if !plain && rng.chance(1, 4) {
      if i == 0 || rng.chance(1, 3) { vec!["u_dangling".into()] } else { vec![util_ids[rng.below(i)].clone()] }
    } else {
      vec![]
    };
    let ext = if rng.chance(1, 2) { "yml" } else { "yaml" };
    add(&mut contents, &mut files, format!("{PROJ}/{dir}/{sub}{u}.{ext}"), util_content(u, &needs));
  }
  if !plain && n_utils > 0 && rng.chance(1, 3) {
    // the same utility id in a second file, with other needs
    let u = util_ids[0].clone();
    let needs = if rng.chance(1, 2) { vec!["u_dangling".to_string()] } else { vec![] };
    add(&mut contents, &mut files, format!("{PROJ}/utils/dup_{u}.yml"), util_content(&u, &needs));
  }
  if !plain && rng.chance(1, 8) {
    let c = match rng.below(3) {
      0 => bad_content(0),
      1 => bad_content(3),
      _ => other_content("id: m1\nlanguage: js\nrule: {kind: number}\n---\nid: m2\nlanguage: js\nrule: {kind: number}\n"),
    };
    add(&mut contents, &mut files, format!("{PROJ}/utils/broken.yml"), c);
  }
  add(&mut contents, &mut files, format!("{PROJ}/utils/readme.txt"), other_content("not a rule\n"));
  // the utilities a rule of the calm half may use: those of a directory that is configured
  let configured: Vec<String> = util_dirs.clone().unwrap_or_default();
  let loaded_utils: Vec<String> = util_ids.iter().enumerate().filter(|(i, _)| configured.iter().any(|d| d == dir_of(*i))).map(|(_, u)| u.clone()).collect();
  if plain {
    util_ids = loaded_utils;
  }

  // ---- rule files
  let dir_pool: &[&str] = if plain {
    &["rules", "rules", "rules/sub", "rules/sub/deep", "rules2"]
  } else {
    &["rules", "rules/sub", "rules/sub/deep", "rules/.hid", "rules/skipdir", "rules/x.d", "rules2", "rules2/.git", ".hidrules"]
  };
  let name_pool: &[&str] = &["a.yml", "b.yaml", "c.yml", "d.yaml", "n.txt", "j.json", ".h.yml", "U.YML", "x.yml.bak", "yml", "skipped.yml", "e.yml", "f.yaml"];
  let n_files = 3 + rng.below(7);
  let mut used: Vec<String> = Vec::new();
  for _ in 0..n_files {
    let d = *rng.pick(dir_pool);
    let n = *rng.pick(name_pool);
    let path = format!("{PROJ}/{d}/{n}");
    if used.contains(&path) {
      continue;
    }
    used.push(path.clone());
    let roll = rng.below(100);
    let c = if !plain && roll < 7 {
      bad_content(rng.below(4))
    } else {
      let n_docs = if roll < 70 { 1 } else { 2 + rng.below(2) };
      let docs: Vec<Doc> = (0..n_docs)
        .map(|_| {
          let id = if !plain && !all_ids.is_empty() && rng.chance(1, 8) { rng.pick(&all_ids).clone() } else { fresh(&mut all_ids) };
          let needs = if rng.chance(1, 5) {
            if !util_ids.is_empty() && rng.chance(3, 4) { vec![rng.pick(&util_ids).clone()] } else if !plain { vec!["u_nowhere".to_string()] } else { vec![] }
          } else {
            vec![]
          };
          Doc { id, needs, off: rng.chance(1, 8) }
        })
        .collect();
      rules_content(&docs)
    };
    add(&mut contents, &mut files, path, c);
  }
  dirs.push(format!("{PROJ}/rules"));
  dirs.push(format!("{PROJ}/rules2"));
  // the ignore file
  let (ign_base, ign_names) = if !plain && rng.chance(1, 3) {
    add(&mut contents, &mut files, format!("{PROJ}/rules/.ignore"), other_content("skipped.yml\nskipdir\n"));
    (format!("{PROJ}/rules"), vec!["skipped.yml".to_string(), "skipdir".to_string()])
  } else {
    (String::new(), vec![])
  };

  // ---- configurations
  let main_rule_dirs: Vec<String> = match rng.below(if plain { 3 } else { 9 }) {
    0 => vec!["rules".into()],
    1 => vec!["rules".into(), "rules2".into()],
    2 => vec!["rules2".into(), "./rules".into()],
    3 => vec!["rules".into(), "rules/sub".into()],
    4 => vec!["rules/sub".into(), "missing_rules".into()],
    5 => vec![".hidrules".into(), "rules".into()],
    6 => match files.iter().find(|(p, _)| p.starts_with(&format!("{PROJ}/rules/")) && (p.ends_with(".txt") || p.ends_with(".json") || p.ends_with(".yml"))) {
      Some((p, _)) => vec![p[PROJ.len() + 1..].to_string(), "rules2".into()],
      None => vec!["rules2".into()],
    },
    7 => vec![],
    _ => vec!["rules/sub/deep".into(), "rules/x.d".into(), "rules/.hid".into()],
  };
  for d in &main_rule_dirs {
    let full = format!("{PROJ}/{}", comps(d).join("/"));
    if !d.contains("missing") && !files.iter().any(|(p, _)| *p == full) {
      dirs.push(full);
    }
  }
  let has_main = rng.chance(9, 10);
  if has_main {
    let c = if !plain && rng.chance(1, 12) {
      match rng.below(3) {
        0 => other_content("ruleDirs: {\n"),
        1 => other_content("utilDirs: [utils]\n"),
        _ => bad_content(3),
      }
    } else {
      config_content(&main_rule_dirs, &util_dirs)
    };
    add(&mut contents, &mut files, format!("{PROJ}/sgconfig.yml"), c);
  }
  // an outer configuration
  if rng.chance(1, 2) {
    let id = fresh(&mut all_ids);
    add(&mut contents, &mut files, "outer/orules/o.yml".into(), rules_content(&[Doc { id, needs: vec![], off: false }]));
    add(&mut contents, &mut files, "outer/sgconfig.yml".into(), config_content(&["orules".to_string()], &None));
  }
  // a nearer one
  if rng.chance(1, 4) {
    match rng.below(if plain { 1 } else { 3 }) {
      0 => {
        let id = fresh(&mut all_ids);
        add(&mut contents, &mut files, format!("{PROJ}/a/nrules/n.yml"), rules_content(&[Doc { id, needs: vec![], off: false }]));
        add(&mut contents, &mut files, format!("{PROJ}/a/sgconfig.yml"), config_content(&["nrules".to_string()], &None));
      }
      1 => dirs.push(format!("{PROJ}/a/sgconfig.yml")),
      _ => add(&mut contents, &mut files, format!("{PROJ}/a/sgconfig.yml"), other_content("ruleDirs: 3\n")),
    }
  }
  // loose rule files for -r
  let loose_id = fresh(&mut all_ids);
  add(&mut contents, &mut files, "loose/single.yml".into(), rules_content(&[Doc { id: loose_id, needs: vec![], off: false }]));
  let l2 = fresh(&mut all_ids);
  let l3 = fresh(&mut all_ids);
  add(
    &mut contents,
    &mut files,
    "loose/two.txt".into(),
    rules_content(&[Doc { id: l2, needs: vec![], off: false }, Doc { id: l3, needs: vec![], off: rng.chance(1, 3) }]),
  );
  if !util_ids.is_empty() {
    let id = fresh(&mut all_ids);
    add(&mut contents, &mut files, "loose/needs.yml".into(), rules_content(&[Doc { id, needs: vec![util_ids[0].clone()], off: false }]));
  }
  add(&mut contents, &mut files, "loose/bad.yml".into(), bad_content(rng.below(4)));

  // ---- the command line
  let cwd: String = match (k + rng.below(2)) % 6 {
    0 | 1 => PROJ.to_string(),
    2 => format!("{PROJ}/a/b/c"),
    3 => format!("{PROJ}/rules"),
    4 => "outer".to_string(),
    _ => "loose".to_string(),
  };
  let mut config_relative = false;
  let config: Option<String> = match rng.below(10) {
    0 => Some(format!("{PROJ}/sgconfig.yml")),
    1 => Some("outer/sgconfig.yml".to_string()),
    2 if !plain => Some("outer/nothing.yml".to_string()),
    3 if cwd == "outer" || cwd == PROJ => {
      config_relative = true;
      Some(format!("{PROJ}/sgconfig.yml"))
    }
    _ => None,
  };
  let source = rng.below(if plain { 8 } else { 12 });
  let rule: Option<String> = match source {
    0 => Some("loose/single.yml".into()),
    1 => Some("loose/two.txt".into()),
    8 => Some(if util_ids.is_empty() { "loose/bad.yml".to_string() } else { "loose/needs.yml".to_string() }),
    9 => Some(if rng.chance(1, 2) { "loose/bad.yml".to_string() } else { "loose/none.yml".to_string() }),
    _ => None,
  };
  let inline: Option<usize> = if source == 2 || source == 10 || (source == 9 && rng.chance(1, 3)) {
    let c = if source == 10 && rng.chance(1, 2) {
      bad_content(rng.below(3))
    } else {
      let a = fresh(&mut all_ids);
      let b = fresh(&mut all_ids);
      rules_content(&[Doc { id: a, needs: vec![], off: false }, Doc { id: b, needs: vec![], off: rng.chance(1, 4) }])
    };
    contents.push(c);
    Some(contents.len() - 1)
  } else {
    None
  };
  let filter: Option<(String, Vec<String>)> = if (rule.is_none() && rng.chance(1, 4)) || (rule.is_some() && rng.chance(1, 10)) {
    let n = rng.below(3);
    let mut ids: Vec<String> = (0..n).filter_map(|_| if all_ids.is_empty() { None } else { Some(rng.pick(&all_ids).clone()) }).collect();
    ids.sort();
    ids.dedup();
    let re = if ids.is_empty() { "^nothing-at-all$".to_string() } else { format!("^({})$", ids.join("|")) };
    Some((re, ids))
  } else {
    None
  };
  let sev_error = rng.chance(1, 5);
  Case {
    files,
    dirs,
    contents,
    cwd,
    config,
    config_relative,
    rule,
    inline,
    filter,
    sev_error,
    ign_base,
    ign_names,
    main_rule_dirs,
    plain,
  }
}

fn scratch_base() -> PathBuf {
  let shm = Path::new("/dev/shm");
  if shm.is_dir() && tempfile::tempdir_in(shm).is_ok() {
    shm.to_path_buf()
  } else {
    std::env::temp_dir()
  }
}

fn materialize(c: &Case, base: &Path, reverse: bool) -> tempfile::TempDir {
  let td = tempfile::Builder::new().prefix("agvproj").tempdir_in(base).unwrap();
  let root = td.path();
  let mut dirs: Vec<&String> = c.dirs.iter().collect();
  let mut files: Vec<&(String, usize)> = c.files.iter().collect();
  if reverse {
    dirs.reverse();
    files.reverse();
  }
  for d in dirs {
    std::fs::create_dir_all(root.join(d)).unwrap();
  }
  for (p, k) in files {
    let full = root.join(p);
    std::fs::create_dir_all(full.parent().unwrap()).unwrap();
    std::fs::write(&full, &c.contents[*k].bytes).unwrap();
  }
  td
}

/// the tree as `read_dir` lists it
fn read_tree(root: &Path, rel: &str, idx: &BTreeMap<String, usize>) -> Value {
  let mut kids = Vec::new();
  for e in std::fs::read_dir(root.join(rel)).unwrap() {
    let e = e.unwrap();
    let name = e.file_name().to_string_lossy().into_owned();
    let child = if rel.is_empty() { name.clone() } else { format!("{rel}/{name}") };
    if e.file_type().unwrap().is_dir() {
      kids.push(json!([name, read_tree(root, &child, idx)]));
    } else {
      kids.push(json!([name, {"f": idx[&child]}]));
    }
  }
  json!({ "d": kids })
}

fn hex(b: &[u8]) -> String {
  b.iter().map(|x| format!("{x:02x}")).collect()
}

fn unhex(s: &str) -> Vec<u8> {
  (0..s.len() / 2).map(|i| u8::from_str_radix(&s[2 * i..2 * i + 2], 16).unwrap_or(0)).collect()
}

fn content_json(c: &Content) -> Value {
  json!({
    "hex": hex(&c.bytes),
    "readable": c.readable,
    "config": c.config.as_ref().map(|(r, u)| json!({
      "ruleDirs": r.iter().map(|d| comps(d)).collect::<Vec<_>>(),
      "utilDirs": u.as_ref().map(|u| u.iter().map(|d| comps(d)).collect::<Vec<_>>()),
    })),
    "docs": c.docs.as_ref().map(|ds| ds.iter().map(|d| json!({"id": d.id, "needs": d.needs, "off": d.off})).collect::<Vec<_>>()),
    "util": c.util.as_ref().map(|(id, needs)| json!({"id": id, "needs": needs})),
  })
}

fn case_args(c: &Case, tree: Value) -> Value {
  json!({
    "tree": tree,
    "contents": c.contents.iter().map(content_json).collect::<Vec<_>>(),
    "cwd": comps(&c.cwd),
    "config": c.config.as_ref().map(|p| comps(p)),
    "config_relative": c.config_relative,
    "rule": c.rule.as_ref().map(|p| comps(p)),
    "inline": c.inline,
    "filter": c.filter.as_ref().map(|(_, ids)| ids.clone()),
    "filter_re": c.filter.as_ref().map(|(re, _)| re.clone()),
    "sev_error": c.sev_error,
    "ign": {"base": comps(&c.ign_base), "names": c.ign_names},
  })
}

const HANG: i32 = -999;

/// one fresh process of the real CLI; stderr to a file; killed after 20 s
fn run_cli(root: &Path, a: &Value) -> Value {
  let bin = std::env::current_exe().unwrap().parent().unwrap().join("agv-sg");
  let join = |v: &Value| -> String { v.as_array().unwrap().iter().map(|s| s.as_str().unwrap()).collect::<Vec<_>>().join("/") };
  let cwd_rel = join(&a["cwd"]);
  let cwd = root.join(&cwd_rel);
  let mut args: Vec<String> = vec!["scan".into(), "--inspect".into(), "entity".into()];
  if !a["config"].is_null() {
    let p = join(&a["config"]);
    let typed = if a["config_relative"].as_bool().unwrap_or(false) {
      let pre = format!("{cwd_rel}/");
      p.strip_prefix(&pre).unwrap_or(&p).to_string()
    } else {
      root.join(&p).to_string_lossy().into_owned()
    };
    args.push("--config".into());
    args.push(typed);
  }
  if !a["rule"].is_null() {
    args.push("-r".into());
    args.push(root.join(join(&a["rule"])).to_string_lossy().into_owned());
  }
  if let Some(k) = a["inline"].as_u64() {
    args.push("--inline-rules".into());
    args.push(String::from_utf8_lossy(&unhex(a["contents"][k as usize]["hex"].as_str().unwrap())).into_owned());
  }
  if let Some(re) = a["filter_re"].as_str() {
    args.push("--filter".into());
    args.push(re.to_string());
  }
  if a["sev_error"].as_bool().unwrap_or(false) {
    args.push("--error".into());
  }
  args.push(root.join("src").to_string_lossy().into_owned());
  let errf = root.join("stderr.txt");
  let mut child = Command::new(&bin)
    .args(&args)
    .current_dir(&cwd)
    .stdin(Stdio::null())
    .stdout(Stdio::null())
    .stderr(std::fs::File::create(&errf).unwrap())
    .env("RUST_BACKTRACE", "0")
    .spawn()
    .expect("spawn agv-sg");
  let t0 = Instant::now();
  let code = loop {
    match child.try_wait() {
      Ok(Some(st)) => break st.code().unwrap_or(-1),
      Ok(None) if t0.elapsed() > Duration::from_secs(20) => {
        let _ = child.kill();
        let _ = child.wait();
        break HANG;
      }
      _ => std::thread::sleep(Duration::from_millis(2)),
    }
  };
  let err = String::from_utf8_lossy(&std::fs::read(&errf).unwrap_or_default()).into_owned();
  let _ = std::fs::remove_file(&errf);
  if code == HANG {
    return json!("hang");
  }
  // a path the CLI printed -> components below the root, joined by `/`
  let norm = |p: &str| -> String {
    let root_s = root.to_string_lossy().into_owned();
    let abs = if p.starts_with('/') { p.to_string() } else { format!("{}/{}", cwd.to_string_lossy(), p) };
    let rel = abs.strip_prefix(&root_s).unwrap_or(&abs).to_string();
    comps(&rel).join("/")
  };
  let mut project = Value::Null;
  let mut rules: Vec<Value> = Vec::new();
  let mut error: Option<Value> = None;
  for line in err.lines() {
    if let Some(rest) = line.strip_prefix("sg: summary|project: ") {
      if let Some(d) = rest.strip_prefix("isProject=true,projectDir=") {
        project = json!(norm(d));
      }
    } else if let Some(rest) = line.strip_prefix("sg: entity|rule|") {
      if let Some((id, sev)) = rest.rsplit_once(": finalSeverity=") {
        rules.push(json!([id, sev]));
      }
    } else if let Some(msg) = line.strip_prefix("Error: ") {
      if error.is_none() {
        let (cls, path) = if msg.starts_with("Cannot read configuration") {
          ("readConfiguration", Value::Null)
        } else if msg.starts_with("Cannot parse configuration") {
          ("parseConfiguration", Value::Null)
        } else if let Some(p) = msg.strip_prefix("Cannot read rule directory ") {
          ("walkRuleDir", if p.is_empty() { json!("") } else { json!(norm(p)) })
        } else if msg == "Cannot read rule directory" {
          ("walkRuleDir", json!(""))
        } else if let Some(p) = msg.strip_prefix("Cannot read rule ") {
          ("readRule", json!(norm(p)))
        } else if let Some(p) = msg.strip_prefix("Cannot parse rule ") {
          ("parseRule", if p == "INLINE_RULES" { json!("INLINE_RULES") } else { json!(norm(p)) })
        } else if msg.starts_with("No ast-grep project configuration") {
          ("projectNotExist", Value::Null)
        } else if msg.starts_with("Error occurs when parsing global utility rules") {
          ("invalidGlobalUtils", Value::Null)
        } else if msg.starts_with("Rule not found") {
          ("ruleNotFound", Value::Null)
        } else {
          ("plain", Value::Null)
        };
        error = Some(json!({"err": cls, "path": path, "exit": code}));
      }
    } else if line.starts_with("error: the argument") && error.is_none() {
      error = Some(json!({"err": "argConflict", "path": null, "exit": code}));
    }
  }
  match error {
    Some(e) => e,
    None if code == 0 => json!({"ok": rules, "project": project}),
    None => json!({"unexpected_exit": code, "stderr": err.chars().take(300).collect::<String>()}),
  }
}

// ------------------------------------------------------------------------------------------
// references for the oracles (path based, from the generator's file list; no walk)

/// the directory whose configuration the documentation says is used
fn ref_project_dir(c: &Case) -> Option<String> {
  if let Some(cfg) = &c.config {
    let v = comps(cfg);
    return Some(v[..v.len() - 1].join("/"));
  }
  let has = |dir: &str| -> bool {
    let want = if dir.is_empty() { "sgconfig.yml".to_string() } else { format!("{dir}/sgconfig.yml") };
    c.files.iter().any(|(p, _)| *p == want) || c.dirs.iter().any(|d| *d == want)
  };
  let v = comps(&c.cwd);
  for n in (0..=v.len()).rev() {
    let dir = v[..n].join("/");
    if has(&dir) {
      return Some(dir);
    }
  }
  None
}

/// ids expected from the main project's rule directories, with multiplicity; None = the oracle does
/// not apply (not the main project / not a calm case)
fn ref_loaded(c: &Case) -> Option<Vec<String>> {
  if !c.plain || c.rule.is_some() || c.inline.is_some() || c.filter.is_some() || c.sev_error {
    return None;
  }
  if ref_project_dir(c).as_deref() != Some(PROJ) {
    return None;
  }
  // the configuration that is named must exist and be one
  let cfg = format!("{PROJ}/sgconfig.yml");
  if !c.files.iter().any(|(p, k)| *p == cfg && c.contents[*k].config.is_some()) {
    return None;
  }
  let mut out = Vec::new();
  for rd in &c.main_rule_dirs {
    let base = format!("{PROJ}/{}/", comps(rd).join("/"));
    for (p, k) in &c.files {
      let Some(rest) = p.strip_prefix(&base) else { continue };
      let parts: Vec<&str> = rest.split('/').collect();
      let (name, dirs) = parts.split_last().unwrap();
      if dirs.iter().any(|d| d.starts_with('.')) {
        continue;
      }
      if !(name.ends_with(".yml") || name.ends_with(".yaml")) {
        continue;
      }
      for d in c.contents[*k].docs.as_ref()? {
        if !d.off {
          out.push(d.id.clone());
        }
      }
    }
  }
  out.sort();
  Some(out)
}

fn outcome_class(r: &Value) -> Value {
  if let Some(ok) = r.get("ok") {
    let mut v: Vec<String> = ok.as_array().unwrap().iter().map(|x| format!("{}:{}", x[0].as_str().unwrap_or("?"), x[1].as_str().unwrap_or("?"))).collect();
    v.sort();
    json!({"ok": v, "project": r["project"]})
  } else if r.get("err").is_some() {
    json!("failed")
  } else {
    r.clone()
  }
}

pub fn project(ctx: &Ctx, rng: &mut Rng, o: &mut Out) {
  let n = if ctx.thorough { 8000 } else { 600 };
  let base = scratch_base();
  let (mut near_cases, mut once_cases, mut shuf_cases) = (0usize, 0usize, 0usize);
  for k in 0..n {
    let mut r = rng.fork();
    let c = gen_case(&mut r, k);
    let idx: BTreeMap<String, usize> = c.files.iter().cloned().collect();
    let td = materialize(&c, &base, false);
    let tree = read_tree(td.path(), "", &idx);
    let a = case_args(&c, tree);
    let res = run_cli(td.path(), &a);
    // oracle: nearest configuration wins
    if let Some(got) = res.get("project") {
      near_cases += 1;
      let want = ref_project_dir(&c);
      let got_s = got.as_str().map(|s| s.to_string());
      if got_s != want {
        let class = if c.config.is_some() { "config-flag" } else { "search" };
        o.oracle("project-nearest", false, json!({"fp": format!("project nearest {class}"), "cwd": c.cwd, "config": c.config, "want": want, "got": got}));
      }
    }
    // oracle: every expected id exactly as often as declared
    if let Some(want) = ref_loaded(&c) {
      once_cases += 1;
      let got: Option<Vec<String>> = res.get("ok").map(|ok| {
        let mut v: Vec<String> = ok.as_array().unwrap().iter().map(|x| x[0].as_str().unwrap_or("?").to_string()).collect();
        v.sort();
        v
      });
      if got.as_ref() != Some(&want) {
        o.oracle("project-rules-once", false, json!({"fp": "project rules-once calm-project", "ruleDirs": c.main_rule_dirs, "want": want, "got": res}));
      }
    }
    // oracle: creation order is irrelevant
    if k % 3 == 0 {
      shuf_cases += 1;
      let td2 = materialize(&c, &base, true);
      let tree2 = read_tree(td2.path(), "", &idx);
      let a2 = case_args(&c, tree2);
      let res2 = run_cli(td2.path(), &a2);
      if outcome_class(&res) != outcome_class(&res2) {
        let dup_util = c.files.iter().any(|(p, _)| p.contains("/dup_u"));
        let class = if dup_util { "duplicate-util-id" } else { "other" };
        o.oracle("project-shuffle", false, json!({"fp": format!("project shuffle {class}"), "first": res, "second": res2, "files": c.files.iter().map(|(p, _)| p.clone()).collect::<Vec<_>>() }));
      }
      // the second layout is a correspondence case of its own
      o.op("project_scan", a2, res2);
    }
    o.op("project_scan", a, res);
  }
  o.oracle("project-nearest", true, json!({"cases": near_cases}));
  o.oracle("project-rules-once", true, json!({"cases": once_cases}));
  o.oracle("project-shuffle", true, json!({"cases": shuf_cases}));
  // the witnesses of the Lean counter-examples on the real CLI
  witnesses(&base, o);
}

/// fixed projects replaying `util_order_dependent_counterexample`, `loaded_twice_counterexample`,
/// `inline_ignores_filter_counterexample`, `error_order_dependent_counterexample`
fn witnesses(base: &Path, o: &mut Out) {
  let rule = |id: &str| rules_content(&[Doc { id: id.into(), needs: vec![], off: false }]);
  let mk = |files: Vec<(&str, Content)>, cwd: &str| -> Case {
    let mut contents = Vec::new();
    let mut fl = Vec::new();
    for (p, c) in files {
      contents.push(c);
      fl.push((p.to_string(), contents.len() - 1));
    }
    Case {
      files: fl,
      dirs: vec!["src".into(), cwd.to_string()],
      contents,
      cwd: cwd.into(),
      config: None,
      config_relative: false,
      rule: None,
      inline: None,
      filter: None,
      sev_error: false,
      ign_base: String::new(),
      ign_names: vec![],
      main_rule_dirs: vec![],
      plain: false,
    }
  };
  let run = |c: &Case, o: &mut Out| -> Value {
    let idx: BTreeMap<String, usize> = c.files.iter().cloned().collect();
    let td = materialize(c, base, false);
    let a = case_args(c, read_tree(td.path(), "", &idx));
    let r = run_cli(td.path(), &a);
    o.op("project_scan", a, r.clone());
    r
  };
  // a file reached through two ruleDirs entries is loaded twice
  let c = mk(vec![("p/sgconfig.yml", config_content(&["r".into(), "r/a.yml".into()], &None)), ("p/r/a.yml", rule("w1"))], "p");
  let r = run(&c, o);
  let twice = r["ok"].as_array().map(|v| v.len()) == Some(2);
  o.oracle("project-witness-loaded-twice", true, json!({"cases": 1, "reproduced": twice}));
  // --inline-rules ignores --filter and --error
  let mut c = mk(vec![("p/sgconfig.yml", config_content(&["r".into()], &None)), ("p/r/a.yml", rule("w1"))], "p");
  c.contents.push(rules_content(&[Doc { id: "i1".into(), needs: vec![], off: false }, Doc { id: "i2".into(), needs: vec![], off: false }]));
  c.inline = Some(c.contents.len() - 1);
  c.filter = Some(("^i2$".into(), vec!["i2".into()]));
  c.sev_error = true;
  let r = run(&c, o);
  let ignored = r["ok"] == json!([["i1", "Hint"], ["i2", "Hint"]]);
  // (`--inline-rules` / `-r` are not project mode: outside C15's quantifier — measured, not judged;
  // the model transcribes it: `inline_ignores_filter_counterexample`)
  o.op("info:project-source-flags", json!({"fp": "project source inline-rules ignores --filter and severity flags", "ignored": ignored}), Value::Null);
  // -r ignores --error
  let mut c = mk(vec![("p/one.yml", rule("w1"))], "p");
  c.rule = Some("p/one.yml".into());
  c.sev_error = true;
  let r = run(&c, o);
  let ignored = r["ok"] == json!([["w1", "Hint"]]);
  o.op("info:project-source-flags", json!({"fp": "project source rule-file ignores severity flags", "ignored": ignored}), Value::Null);
  o.oracle("project-source-flags", true, json!({"cases": 2}));
}

pub fn exec(op: &str, a: &Value) -> Option<Value> {
  if op != "project_scan" {
    return None;
  }
  // re-create the tree so that `read_dir` lists the children in the recorded order: creation in the
  // recorded order (hash-ordered directories: the order only depends on the names) or in reverse (tmpfs
  // lists the newest entry first); if neither reproduces it the last attempt is used as it is
  fn build(root: &Path, rel: &str, e: &Value, contents: &Value, reverse: bool) {
    if let Some(k) = e.get("f").and_then(|k| k.as_u64()) {
      std::fs::write(root.join(rel), unhex(contents[k as usize]["hex"].as_str().unwrap_or(""))).unwrap();
    } else if let Some(kids) = e.get("d").and_then(|d| d.as_array()) {
      std::fs::create_dir_all(root.join(rel)).unwrap();
      let mut kids: Vec<&Value> = kids.iter().collect();
      if reverse {
        kids.reverse();
      }
      for kid in kids {
        let name = kid[0].as_str().unwrap_or("x");
        let child = if rel.is_empty() { name.to_string() } else { format!("{rel}/{name}") };
        build(root, &child, &kid[1], contents, reverse);
      }
    }
  }
  fn same_order(root: &Path, rel: &str, e: &Value) -> bool {
    let Some(kids) = e.get("d").and_then(|d| d.as_array()) else { return true };
    let listed: Vec<String> = std::fs::read_dir(root.join(rel)).unwrap().map(|x| x.unwrap().file_name().to_string_lossy().into_owned()).collect();
    let want: Vec<String> = kids.iter().map(|k| k[0].as_str().unwrap_or("x").to_string()).collect();
    listed == want
      && kids.iter().all(|k| {
        let name = k[0].as_str().unwrap_or("x");
        same_order(root, &if rel.is_empty() { name.to_string() } else { format!("{rel}/{name}") }, &k[1])
      })
  }
  let mut last = None;
  for reverse in [false, true] {
    let td = tempfile::Builder::new().prefix("agvproj").tempdir_in(scratch_base()).unwrap();
    build(td.path(), "", &a["tree"], &a["contents"], reverse);
    let ok = same_order(td.path(), "", &a["tree"]);
    last = Some(run_cli(td.path(), a));
    if ok {
      break;
    }
  }
  last
}
