//! C11 units: no YAML makes ast-grep crash.
//!
//! * `yaml_load` : stream (1), structured rule documents (the C01/C05 generator `gen_core` extended
//!                 with transform / fix / rewriters and with extreme or faulty field values).  Every
//!                 document is loaded by the real `from_yaml_string` in an isolated child; the outcome
//!                 class and error variant are compared with the Lean model `Loader.load` (op
//!                 `yaml_load`, the facts about patterns / kinds / regexes the model cannot know are
//!                 computed by separate calls of the public API and handed over as data).
//! * `yaml_scan` : streams (1) (2) (3): structured documents, mutated real rules, raw bytes.  Every
//!                 document is offered as rule file, utility (global rule) file, test file and
//!                 `sgconfig.yml` to the real CLI, and as rule / utility file to the API child which
//!                 also scans three sources with every accepted rule.  Oracle: any outcome other than
//!                 `ok` / `err` (panic, abort(signal), hang > 10 s) is a violation of C11.
//! * `yaml_child`: the isolated worker (not a unit of its own: `agv-harness yaml_child`).
use super::procpool::{self, Answer, Class};
use super::rules::{gen_core, harvest, Material};
use super::Ctx;
use crate::corpus;
use crate::util::*;
use ast_grep_config::{from_str, from_yaml_string, CombinedScan, DeserializeEnv, GlobalRules, RuleConfig};
use ast_grep_core::Language;
use ast_grep_language::SupportLang;
use serde_json::{json, Map, Value};
use std::io::{BufRead, Write};
use std::sync::Mutex;

// ---------------------------------------------------------------------------------------
// the isolated worker
// ---------------------------------------------------------------------------------------

static LAST_PANIC: Mutex<String> = Mutex::new(String::new());

fn lang_of(name: &str) -> Option<SupportLang> {
  name.parse::<SupportLang>().ok()
}

/// `Core(Utils(MatchesReference(CyclicRule("a"))))` -> `Core.Utils.MatchesReference.CyclicRule`
///
/// The error KIND is compared with the model's, not the exact nesting of the error value: only the
/// variant names the model knows are kept (in order, outside string literals, up to the first one
/// that has no error below it). A wrapper variant that merely adds context around an error
/// (`InTransformation("TF", MalformedVar(..))`) does not change the kind.
pub fn variant_path(debug: &str) -> String {
  const INNER: [&str; 12] = [
    "Core", "Rewriter", "Utils", "Rule", "Constraints", "Transform", "Fixer", "WrongExpansion", "NthChild", "InvalidRule", "MatchesReference",
    "UndefinedMetaVar",
  ];
  const LEAVES: [&str; 23] = [
    "Yaml", "InvalidKind", "InvalidPattern", "WrongRegex", "InvalidRegex", "InvalidRange", "InvalidTemplate", "InvalidField",
    "IllegalCharacter", "InvalidSyntax", "MissPositiveMatcher", "UndefinedUtil", "DuplicateRule", "CyclicRule", "FieldNotSupported", "Cyclic",
    "AlreadyDefined", "MalformedVar", "UndefinedRewriter", "NoFixInRewriter", "MissingPotentialKinds", "DuplicateRewriter", "UndefinedVar",
  ];
  let b = debug.as_bytes();
  let mut i = 0;
  let mut path: Vec<String> = vec![];
  let mut first = true;
  while i < b.len() {
    if b[i] == b'"' {
      // skip a string literal of the Debug output
      i += 1;
      while i < b.len() && b[i] != b'"' {
        if b[i] == b'\\' {
          i += 1;
        }
        i += 1;
      }
      i += 1;
      continue;
    }
    if !(b[i].is_ascii_alphabetic() || b[i] == b'_') {
      i += 1;
      continue;
    }
    let s = i;
    while i < b.len() && (b[i].is_ascii_alphanumeric() || b[i] == b'_') {
      i += 1;
    }
    let name = &debug[s..i];
    if first && !b[s].is_ascii_uppercase() {
      break;
    }
    first = false;
    if LEAVES.contains(&name) {
      path.push(name.to_string());
      break;
    }
    if name == "UndefinedMetaVar" {
      path.push(name.to_string());
      // UndefinedMetaVar("A", "fix"): keep the section
      if let Some(k) = debug[i..].find("\", \"") {
        let rest = &debug[i + k + 4..];
        if let Some(e) = rest.find('"') {
          path.push(rest[..e].to_string());
        }
      }
      break;
    }
    if INNER.contains(&name) {
      path.push(name.to_string());
    } else if path.is_empty() {
      // not an error of the rule loader at all (an unknown outermost variant): keep its name
      path.push(name.to_string());
    }
  }
  path.join(".")
}

fn scan_configs(configs: &[RuleConfig<SupportLang>], sources: &[(SupportLang, String)]) -> usize {
  let mut total = 0usize;
  for rc in configs {
    for (lang, text) in sources {
      if *lang != rc.language {
        continue;
      }
      let grep = lang.ast_grep(text);
      let fixer = rc.get_fixer().ok().flatten();
      for nm in grep.root().find_all(&rc.matcher).take(200) {
        total += 1;
        let _ = rc.get_message(&nm);
        if let Some(f) = &fixer {
          let _ = nm.make_edit(&rc.matcher, f);
        }
        if let Some(f) = &rc.matcher.fixer {
          let _ = nm.make_edit(&rc.matcher, f);
        }
      }
      let scan = CombinedScan::new(vec![rc]);
      let res = scan.scan(&grep, false);
      total += res.matches.len() + res.diffs.len();
    }
  }
  total
}

/// C12: the first match of the first rule on one source: captures, transformed strings, the
/// replacement text and the edit range of the rule's fixer (as the CLI obtains it: `get_fixer`)
fn fix_info(configs: &[RuleConfig<SupportLang>], f: &Value) -> Value {
  use ast_grep_core::meta_var::MetaVariable as MV;
  use ast_grep_core::replacer::Replacer;
  let Some(rc) = configs.first() else { return Value::Null };
  let text = f.as_str().unwrap_or("");
  let grep = rc.language.ast_grep(text);
  let Some(nm) = grep.root().find(&rc.matcher) else { return json!({"matched": false}) };
  let env = nm.get_env();
  let mut single = vec![];
  let mut multi = vec![];
  let mut transformed = vec![];
  for v in env.get_matched_variables() {
    match v {
      MV::Capture(name, _) => {
        if let Some(n) = env.get_match(&name) {
          single.push(json!([name, n.range().start, n.range().end]));
        }
        if let Some(b) = env.get_transformed(&name) {
          transformed.push(json!([name, String::from_utf8_lossy(b)]));
        }
      }
      MV::MultiCapture(name) => {
        let ns = env.get_multiple_matches(&name);
        if let (Some(a), Some(b)) = (ns.first(), ns.last()) {
          multi.push(json!([name, a.range().start, b.range().end]));
        }
      }
      _ => {}
    }
  }
  single.sort_by_key(|x| x.to_string());
  multi.sort_by_key(|x| x.to_string());
  transformed.sort_by_key(|x| x.to_string());
  let range = nm.range();
  let mut out = json!({"matched": true, "ms": range.start, "me": range.end, "single": single, "multi": multi, "transformed": transformed, "msg": rc.get_message(&nm)});
  if let Ok(Some(fixer)) = rc.get_fixer() {
    let bytes = fixer.generate_replacement(&nm);
    let edit = nm.make_edit(&rc.matcher, &fixer);
    out["repl"] = json!(String::from_utf8_lossy(&bytes));
    out["es"] = json!(edit.position);
    out["el"] = json!(edit.deleted_length);
  }
  out
}

fn say(v: Value) {
  let stdout = std::io::stdout();
  let mut out = stdout.lock();
  let _ = writeln!(out, "{v}");
  let _ = out.flush();
}

/// one job: a line for the load stage, and after a successful load a line for the scan stage
fn child_job(job: &Value) {
  let role = job["role"].as_str().unwrap_or("rule");
  let text = job["y"].as_str().unwrap_or("").to_string();
  let sources: Vec<(SupportLang, String)> = job["src"]
    .as_array()
    .map(|a| a.iter().filter_map(|s| Some((lang_of(s[0].as_str()?)?, s[1].as_str()?.to_string()))).collect())
    .unwrap_or_default();
  // fixed global utilities, registered before the document is loaded
  let globals_text: Vec<String> = job["g"].as_array().map(|a| a.iter().filter_map(|x| x.as_str().map(|s| s.to_string())).collect()).unwrap_or_default();
  LAST_PANIC.lock().unwrap().clear();
  let loaded = std::panic::catch_unwind(std::panic::AssertUnwindSafe(|| -> Result<Vec<RuleConfig<SupportLang>>, String> {
    let mut utils = vec![];
    for g in &globals_text {
      utils.push(from_str(g).map_err(|_| "Harness.BadGlobal".to_string())?);
    }
    if role == "util" {
      // what `find_util_rules` does with a file of the utility directory
      let parsed = from_str(&text).map_err(|_| "Yaml".to_string())?;
      utils.push(parsed);
    }
    let globals: GlobalRules<SupportLang> =
      DeserializeEnv::parse_global_utils(utils).map_err(|e| format!("Global.{}", variant_path(&format!("{e:?}"))))?;
    if role == "util" {
      // a rule that uses the utility, so that an accepted utility is exercised by the scan
      let v: serde_yaml::Value = serde_yaml::from_str(&text).unwrap_or(serde_yaml::Value::Null);
      let id = v.get("id").and_then(|x| x.as_str()).unwrap_or("x").to_string();
      let lang = v.get("language").and_then(|x| x.as_str()).unwrap_or("js").to_string();
      let user = json!({"id": "user", "language": lang, "rule": {"matches": id}}).to_string();
      return match from_yaml_string::<SupportLang>(&user, &globals) {
        Ok(c) => Ok(c),
        // the utility loaded; a user rule without kinds is not the utility's fault
        Err(_) => Ok(vec![]),
      };
    }
    from_yaml_string::<SupportLang>(&text, &globals).map_err(|e| variant_path(&format!("{e:?}")))
  }));
  let configs = match loaded {
    Err(_) => return say(json!({"load": "panic", "msg": LAST_PANIC.lock().unwrap().clone()})),
    Ok(Err(v)) => return say(json!({"load": "err", "v": v})),
    Ok(Ok(c)) => c,
  };
  say(json!({"load": "ok", "v": "", "n": configs.len()}));
  let fixinfo = job.get("fixinfo").cloned();
  let scanned = std::panic::catch_unwind(std::panic::AssertUnwindSafe(|| {
    let m = scan_configs(&configs, &sources);
    let fi = fixinfo.as_ref().map(|f| fix_info(&configs, f)).unwrap_or(Value::Null);
    (m, fi)
  }));
  match scanned {
    Ok((m, fi)) => say(json!({"scan": "ok", "matches": m, "fi": fi})),
    Err(_) => say(json!({"scan": "panic", "msg": LAST_PANIC.lock().unwrap().clone()})),
  }
}

/// `agv-harness yaml_child`: serve jobs until stdin closes (or until a job kills the process)
pub fn child_main() {
  std::panic::set_hook(Box::new(|info| {
    let loc = info.location().map(|l| format!("{}:{}", l.file().rsplit("/crates/").next().unwrap_or(""), l.line())).unwrap_or_default();
    let msg = if let Some(s) = info.payload().downcast_ref::<&str>() {
      s.to_string()
    } else if let Some(s) = info.payload().downcast_ref::<String>() {
      s.clone()
    } else {
      String::new()
    };
    let msg: String = msg.chars().take(160).collect();
    *LAST_PANIC.lock().unwrap() = format!("{loc}: {msg}");
  }));
  let stdin = std::io::stdin();
  for line in stdin.lock().lines() {
    let Ok(line) = line else { break };
    let job: Value = match serde_json::from_str(&line) {
      Ok(j) => j,
      Err(_) => continue,
    };
    child_job(&job);
  }
}

// ---------------------------------------------------------------------------------------
// sources offered to accepted rules
// ---------------------------------------------------------------------------------------

pub struct SrcPool {
  /// (language name as written in rules, extension, texts)
  langs: Vec<(SupportLang, &'static str, &'static str, Vec<String>)>,
}

fn head_lines(text: &str, n: usize) -> String {
  text.lines().take(n).collect::<Vec<_>>().join("\n") + "\n"
}

impl SrcPool {
  pub fn new(rng: &mut Rng) -> Self {
    let wanted: [(SupportLang, &str, &str); 8] = [
      (SupportLang::JavaScript, "JavaScript", "js"),
      (SupportLang::TypeScript, "TypeScript", "ts"),
      (SupportLang::Tsx, "Tsx", "tsx"),
      (SupportLang::Python, "Python", "py"),
      (SupportLang::Rust, "Rust", "rs"),
      (SupportLang::Go, "Go", "go"),
      (SupportLang::Html, "Html", "html"),
      (SupportLang::Css, "Css", "css"),
    ];
    let all = corpus::load();
    let mut langs = vec![];
    for (l, name, ext) in wanted {
      let mut texts: Vec<String> = vec![];
      for s in all.iter().filter(|s| s.lang == l) {
        texts.push(head_lines(&s.text, 40));
        if texts.len() >= 2 {
          break;
        }
      }
      if let Some(first) = texts.first().cloned() {
        texts.push(corpus::mutate(&first, rng));
      }
      // a source on which the seed rules of corpus/rules have matches
      texts.push(match ext {
        // the last line of each: identifiers mixing upper / lower case letters of different UTF-8
        // widths (string-case conversions split words at case changes by byte offsets)
        "js" | "ts" | "tsx" => "let a = [1, 'x', 2];\nfoo(a, b);\nclass A { set b(c) {} }\nif (x) { return 1 }\nvar o = {k: 1, j: 2};\nSome(1);\n((3));\nb = c + d;\nlet DÉJÀvu = ÀÉa + XMLHttp + ABé + ÀBc + aÉ + ÉÉÉ + x_Éy + ΑΒγ + AB𝐚 + 𝐀𝐁c + éA + ǅx;\n".to_string(),
        "py" => "if something:\n    class B():\n        def replace(self):\n            print(self1)\nfoo(a, b)\nDÉJÀvu = ÀÉa + XMLHttp + ABé + ÀBc + aÉ + ΑΒγ\n".to_string(),
        "rs" => "fn main() { let a = Some(1); x.unwrap(); foo(a, b); let DÉJÀvu = ÀÉa + XMLHttp + ABé + ÀBc; }\n".to_string(),
        "go" => "package main\nfunc main() { fmt.Println(1, 2) }\n".to_string(),
        "html" => "<div onclick=\"f()\" class=\"a\"></div><script>let a = 1</script>\n".to_string(),
        _ => "a { color: red; }\n".to_string(),
      });
      langs.push((l, name, ext, texts));
    }
    SrcPool { langs }
  }
  /// three sources per language, as `[name, text]` for the API child
  pub fn api_sources(&self, only: Option<SupportLang>) -> Value {
    let mut out = vec![];
    for (l, name, _, texts) in &self.langs {
      if only.map(|o| o != *l).unwrap_or(false) {
        continue;
      }
      for t in texts.iter().rev().take(3) {
        out.push(json!([name, t]));
      }
    }
    json!(out)
  }
  /// files `src/a<i>.<ext>` for the CLI
  pub fn cli_files(&self) -> Vec<Value> {
    let mut out = vec![];
    for (_, _, ext, texts) in &self.langs {
      for (i, t) in texts.iter().rev().take(2).enumerate() {
        out.push(json!([format!("src/a{i}.{ext}"), t]));
      }
    }
    out
  }
}

// ---------------------------------------------------------------------------------------
// stream (2): mutated real rules; stream (3): raw bytes
// ---------------------------------------------------------------------------------------

pub struct Seed {
  pub name: String,
  pub role: &'static str, // rule | util | test | sgconfig
  pub text: String,
}

pub fn load_seeds() -> Vec<Seed> {
  let dir = corpus::corpus_dir().join("rules");
  let mut files: Vec<_> = std::fs::read_dir(&dir).unwrap_or_else(|e| panic!("{dir:?}: {e}")).filter_map(|e| e.ok()).collect();
  files.sort_by_key(|e| e.file_name());
  let mut out = vec![];
  for f in files {
    let name = f.file_name().to_string_lossy().to_string();
    let role = match name.as_bytes()[0] {
      b'r' => "rule",
      b'u' => "util",
      b't' => "test",
      b's' => "sgconfig",
      _ => continue,
    };
    if let Ok(text) = std::fs::read_to_string(f.path()) {
      out.push(Seed { name, role, text });
    }
  }
  out
}

fn yv_paths(v: &serde_yaml::Value, cur: &mut Vec<usize>, out: &mut Vec<Vec<usize>>) {
  out.push(cur.clone());
  match v {
    serde_yaml::Value::Mapping(m) => {
      for (i, (_, x)) in m.iter().enumerate() {
        cur.push(i);
        yv_paths(x, cur, out);
        cur.pop();
      }
    }
    serde_yaml::Value::Sequence(s) => {
      for (i, x) in s.iter().enumerate() {
        cur.push(i);
        yv_paths(x, cur, out);
        cur.pop();
      }
    }
    _ => {}
  }
}

fn yv_at<'a>(v: &'a mut serde_yaml::Value, path: &[usize]) -> &'a mut serde_yaml::Value {
  let mut cur = v;
  for &i in path {
    cur = match cur {
      serde_yaml::Value::Mapping(m) => m.iter_mut().nth(i).map(|(_, x)| x).unwrap(),
      serde_yaml::Value::Sequence(s) => &mut s[i],
      _ => unreachable!(),
    };
  }
  cur
}

fn random_scalar(rng: &mut Rng) -> serde_yaml::Value {
  use serde_yaml::Value as Y;
  match rng.below(14) {
    0 => Y::Null,
    1 => Y::Bool(rng.chance(1, 2)),
    2 => Y::Number(serde_yaml::Number::from(-1i64)),
    3 => Y::Number(serde_yaml::Number::from(u64::MAX)),
    4 => Y::Number(serde_yaml::Number::from(i64::MIN)),
    5 => Y::Number(serde_yaml::Number::from(1e308f64)),
    6 => Y::Number(serde_yaml::Number::from(f64::NAN)),
    7 => Y::String(String::new()),
    8 => Y::String("é$A".into()),
    9 => Y::String("(".into()),
    10 => Y::String("$$$".into()),
    11 => Y::String("99999999999".into()),
    12 => Y::String("\u{0}\u{feff}\n\t".into()),
    _ => Y::Number(serde_yaml::Number::from(4294967297u64)),
  }
}

/// structural mutation of a parsed seed
fn mutate_tree(seed: &str, rng: &mut Rng) -> Option<String> {
  use serde_yaml::Value as Y;
  let mut docs: Vec<Y> = vec![];
  for d in serde_yaml::Deserializer::from_str(seed) {
    docs.push(serde::Deserialize::deserialize(d).ok()?);
  }
  if docs.is_empty() {
    return None;
  }
  let k = rng.below(docs.len());
  let n_mut = 1 + rng.below(3);
  for _ in 0..n_mut {
    let mut paths = vec![];
    yv_paths(&docs[k], &mut vec![], &mut paths);
    let p = paths[rng.below(paths.len())].clone();
    match rng.below(9) {
      0 | 1 => {
        // key / element deletion
        if let Some((last, parent)) = p.split_last() {
          match yv_at(&mut docs[k], parent) {
            Y::Mapping(m) => {
              let key = m.iter().nth(*last).map(|(k, _)| k.clone()).unwrap();
              m.remove(&key);
            }
            Y::Sequence(s) => {
              s.remove(*last);
            }
            _ => {}
          }
        }
      }
      2 | 3 => {
        // type swap
        let target = yv_at(&mut docs[k], &p);
        *target = match rng.below(4) {
          0 => Y::Sequence(vec![target.clone()]),
          1 => {
            let mut m = serde_yaml::Mapping::new();
            m.insert(Y::String("pattern".into()), target.clone());
            Y::Mapping(m)
          }
          _ => random_scalar(rng),
        };
      }
      4 => {
        // rename a key
        if let Some((last, parent)) = p.split_last() {
          if let Y::Mapping(m) = yv_at(&mut docs[k], parent) {
            let (key, val) = m.iter().nth(*last).map(|(k, v)| (k.clone(), v.clone())).unwrap();
            m.remove(&key);
            let names = ["rule", "pattern", "kind", "regex", "matches", "inside", "has", "all", "any", "not", "stopBy", "field", "fix", "template", "transform", "source", "utils", "constraints", "rewriters", "id", "language", "nthChild", "position", "ofRule", "range", "unknownKey", ""];
            m.insert(Y::String(rng.pick(&names).to_string()), val);
          }
        }
      }
      5 => {
        // graft another subtree here (self-similar nesting)
        let q = paths[rng.below(paths.len())].clone();
        let sub = yv_at(&mut docs[k], &q).clone();
        *yv_at(&mut docs[k], &p) = sub;
      }
      6 => {
        // wrap in relational / composite operators
        let target = yv_at(&mut docs[k], &p);
        if target.is_mapping() {
          let op = *rng.pick(&["inside", "has", "not", "precedes", "follows"]);
          let mut m = serde_yaml::Mapping::new();
          m.insert(Y::String(op.into()), target.clone());
          *target = Y::Mapping(m);
        }
      }
      7 => {
        // reference to itself / to an unknown utility
        let target = yv_at(&mut docs[k], &p);
        if let Y::Mapping(m) = target {
          m.insert(Y::String("matches".into()), Y::String(rng.pick(&["wrapped", "accessor-name", "member-name", "test-rule", "nope"]).to_string()));
        }
      }
      _ => {
        let target = yv_at(&mut docs[k], &p);
        if !target.is_mapping() && !target.is_sequence() {
          *target = random_scalar(rng);
        }
      }
    }
  }
  let mut out = String::new();
  for (i, d) in docs.iter().enumerate() {
    if i > 0 {
      out.push_str("---\n");
    }
    out.push_str(&serde_yaml::to_string(d).ok()?);
  }
  Some(out)
}

/// textual mutation: tabs, anchors / aliases / merge keys, truncation, line shuffles, odd bytes
fn mutate_text(seed: &str, rng: &mut Rng) -> String {
  let mut lines: Vec<String> = seed.lines().map(|s| s.to_string()).collect();
  if lines.is_empty() {
    return String::new();
  }
  match rng.below(10) {
    0 => {
      // leading spaces of one line become tabs
      let k = rng.below(lines.len());
      let t = lines[k].trim_start_matches(' ').to_string();
      let n = lines[k].len() - t.len();
      lines[k] = format!("{}{}", "\t".repeat(n.max(1)), t);
    }
    1 => {
      // anchor on one value, alias on another
      let vals: Vec<usize> = lines.iter().enumerate().filter(|(_, l)| l.contains(": ") && !l.trim_end().ends_with(':')).map(|(i, _)| i).collect();
      if vals.len() >= 2 {
        let a = vals[rng.below(vals.len())];
        let b = vals[rng.below(vals.len())];
        let pos = lines[a].find(": ").unwrap();
        lines[a].insert_str(pos + 2, "&anc ");
        if a != b {
          let pos = lines[b].find(": ").unwrap();
          lines[b].truncate(pos + 2);
          lines[b].push_str("*anc");
        }
      }
    }
    2 => {
      // anchor on a block mapping, alias / merge key below it: the rule refers to itself
      let keys: Vec<usize> = lines.iter().enumerate().filter(|(_, l)| l.trim_end().ends_with(':')).map(|(i, _)| i).collect();
      if !keys.is_empty() {
        let a = keys[rng.below(keys.len())];
        lines[a].push_str(" &self");
        let indent = lines[a].len() - lines[a].trim_start().len() + 2;
        let ins = match rng.below(3) {
          0 => format!("{}<<: *self", " ".repeat(indent)),
          1 => format!("{}inside: *self", " ".repeat(indent)),
          _ => format!("{}all: [*self, *self, *self, *self, *self, *self, *self, *self, *self]", " ".repeat(indent)),
        };
        lines.insert((a + 1 + rng.below(3)).min(lines.len()), ins);
      }
    }
    3 => {
      // alias bomb
      let mut bomb = vec!["a0: &a0 [x, x, x, x, x, x, x, x, x]".to_string()];
      for i in 1..12 {
        bomb.push(format!("a{i}: &a{i} [*a{p}, *a{p}, *a{p}, *a{p}, *a{p}, *a{p}, *a{p}, *a{p}, *a{p}]", p = i - 1));
      }
      bomb.push("metadata: *a11".to_string());
      lines.extend(bomb);
    }
    4 => {
      let k = rng.below(lines.len());
      lines.truncate(k + 1);
      let cut = rng.below(lines[k].len() + 1);
      let mut c = cut;
      while !lines[k].is_char_boundary(c) {
        c -= 1;
      }
      lines[k].truncate(c);
    }
    5 => {
      let k = rng.below(lines.len());
      lines.remove(k);
    }
    6 => {
      let k = rng.below(lines.len());
      let l = lines[k].clone();
      lines.insert(k, l);
    }
    7 => {
      let k = rng.below(lines.len());
      lines.insert(k, rng.pick(&["---", "...", "%YAML 1.2", "? - x", "!!binary |", "- - -", "{", "]", "'", "\"\\x", "key: |+2", "&a *a", "!<tag:x> y"]).to_string());
    }
    8 => {
      // flow-style deep nesting on one value line
      let depth = *rng.pick(&[10usize, 100, 200, 2000]);
      let op = *rng.pick(&["not", "inside", "has", "all", "any"]);
      let mut s = String::new();
      for _ in 0..depth {
        if op == "all" || op == "any" {
          s.push_str(&format!("{{{op}: ["));
        } else {
          s.push_str(&format!("{{{op}: "));
        }
      }
      s.push_str("{kind: number}");
      for _ in 0..depth {
        s.push_str(if op == "all" || op == "any" { "]}" } else { "}" });
      }
      let k = lines.iter().position(|l| l.starts_with("rule:")).unwrap_or(0);
      lines[k] = format!("rule: {s}");
      // drop the block that belonged to the old rule
      while k + 1 < lines.len() && lines[k + 1].starts_with(' ') {
        lines.remove(k + 1);
      }
    }
    _ => {
      // odd characters inside one line
      let k = rng.below(lines.len());
      let ins = *rng.pick(&["\u{feff}", "\u{0}", "\r", "\u{2028}", "é", "𝒳", "\\", "\"", "#", ": ", "- ", "\u{7f}"]);
      let mut pos = rng.below(lines[k].len() + 1);
      while !lines[k].is_char_boundary(pos) {
        pos -= 1;
      }
      lines[k].insert_str(pos, ins);
    }
  }
  lines.join("\n") + "\n"
}

fn raw_bytes(rng: &mut Rng) -> Vec<u8> {
  let len = match rng.below(4) {
    0 => rng.below(8),
    1 => rng.below(64),
    2 => rng.below(400),
    _ => rng.below(3000),
  };
  match rng.below(4) {
    0 => (0..len).map(|_| rng.below(256) as u8).collect(),
    1 => {
      let alphabet = b"{}[]:,-&*!|>'\"#%@`?\n\t \\~<=.0123456789aenrlu$";
      (0..len).map(|_| alphabet[rng.below(alphabet.len())]).collect()
    }
    2 => {
      let words = [
        "id", "language", "rule", "pattern", "kind", "regex", "matches", "inside", "has", "all", "any", "not", "stopBy", "end", "neighbor", "field", "fix", "template", "transform", "source", "substring", "replace", "by",
        "convert", "toCase", "rewrite", "rewriters", "utils", "constraints", "nthChild", "position", "ofRule", "reverse", "range", "start", "line", "column", "valid", "invalid", "ruleDirs", "utilDirs", "testConfigs", "testDir",
        "js", "python", "Tsx", "$A", "$$$B", "1", "-1", "99999999999", "n-2147483647", "true", "null", "~", "''", "\"(\"", "&a", "*a", "<<", "---", ": ", ": ", ": ", "- ", "\n", "\n", "\n  ", "\n    ", "{", "}", "[", "]", ", ", "é",
      ];
      let mut s = String::new();
      while s.len() < len {
        s.push_str(*rng.pick(&words));
      }
      s.into_bytes()
    }
    _ => {
      // almost a rule
      let mut s = String::from("id: x\nlanguage: js\nrule:\n");
      let keys = ["pattern", "kind", "regex", "matches", "nthChild", "inside", "has", "all", "any", "not", "range"];
      for _ in 0..1 + rng.below(4) {
        let k = rng.pick(&keys);
        let v: String = (0..rng.below(12)).map(|_| *rng.pick(&['$', 'A', 'n', '-', '+', '9', '(', '[', '{', ':', ' ', 'é', '\'', '"', '*', '&', '\\'])).collect();
        s.push_str(&format!("  {k}: {v}\n"));
      }
      s.into_bytes()
    }
  }
}

// ---------------------------------------------------------------------------------------
// the four roles of a document, through the real CLI
// ---------------------------------------------------------------------------------------

fn content_value(bytes: &[u8]) -> Value {
  match std::str::from_utf8(bytes) {
    Ok(s) => json!(s),
    Err(_) => json!(bytes),
  }
}

fn doc_id_lang(bytes: &[u8]) -> (String, String) {
  let text = String::from_utf8_lossy(bytes);
  let mut id = "x".to_string();
  let mut lang = "js".to_string();
  for l in text.lines() {
    if let Some(v) = l.strip_prefix("id:") {
      let v = v.trim().trim_matches(|c| c == '\'' || c == '"');
      if !v.is_empty() && v.chars().all(|c| c.is_ascii_alphanumeric() || c == '-' || c == '_') {
        id = v.to_string();
      }
    }
    if let Some(v) = l.strip_prefix("language:") {
      let v = v.trim();
      if lang_of(v).is_some() {
        lang = v.to_string();
      }
    }
  }
  (id, lang)
}

pub fn cli_jobs(doc: &[u8], pool: &SrcPool, roles: &[&str]) -> Vec<Value> {
  let (id, lang) = doc_id_lang(doc);
  let content = content_value(doc);
  let mut jobs = vec![];
  let simple_rule = format!("id: {id}\nlanguage: {lang}\nrule: {{regex: '^[a-z]$', any: [{{kind: identifier}}]}}\n");
  for role in roles {
    let mut files = pool.cli_files();
    let args: Vec<&str> = match *role {
      "rule" => {
        files.push(json!(["doc.yml", content]));
        vec!["scan", "-r", "doc.yml", "src"]
      }
      // the same rule file against standard input (`scan --stdin` has its own worker)
      "rule-stdin" => {
        files.push(json!(["doc.yml", content]));
        vec!["scan", "--stdin", "-r", "doc.yml"]
      }
      "util" => {
        files.push(json!(["sgconfig.yml", "ruleDirs: [rules]\nutilDirs: [utils]\n"]));
        files.push(json!(["utils/doc.yml", content]));
        files.push(json!(["rules/user.yml", format!("id: user\nlanguage: {lang}\nrule: {{matches: {id}}}\n")]));
        vec!["scan", "-c", "sgconfig.yml", "src"]
      }
      "test" => {
        files.push(json!(["sgconfig.yml", "ruleDirs: [rules]\ntestConfigs: [{testDir: tests}]\n"]));
        files.push(json!(["rules/r.yml", simple_rule]));
        files.push(json!(["tests/doc.yml", content]));
        vec!["test", "-c", "sgconfig.yml", "--skip-snapshot-tests"]
      }
      _ => {
        files.push(json!(["sgconfig.yml", content]));
        files.push(json!(["rules/r.yml", simple_rule]));
        vec!["scan", "-c", "sgconfig.yml", "src"]
      }
    };
    if *role == "rule-stdin" {
      jobs.push(json!({"k": "cli", "role": role, "files": files, "args": args, "stdin": "let a = foo(1);\nclass A { b() { return 2 } }\n"}));
      continue;
    }
    jobs.push(json!({"k": "cli", "role": role, "files": files, "args": args}));
  }
  jobs
}

pub fn api_job(role: &str, text: &str, pool: &SrcPool, globals: &[String]) -> Value {
  json!({"k": "api", "role": role, "y": text, "g": globals, "src": pool.api_sources(None)})
}

// ---------------------------------------------------------------------------------------
// fingerprints (input classes)
// ---------------------------------------------------------------------------------------

fn json_of_yaml(text: &str) -> Vec<Value> {
  let mut out = vec![];
  for d in serde_yaml::Deserializer::from_str(text) {
    match <serde_yaml::Value as serde::Deserialize>::deserialize(d) {
      Ok(v) => out.push(serde_json::to_value(v).unwrap_or(Value::Null)),
      Err(_) => break,
    }
  }
  out
}

fn parses_i32(s: &str) -> bool {
  // does some digit run of an An+B string leave the i32 range?
  let mut run = String::new();
  let mut bad = false;
  for c in s.chars().chain(std::iter::once(' ')) {
    if c.is_ascii_digit() {
      run.push(c);
    } else if !c.is_whitespace() {
      if !run.is_empty() && run.parse::<i32>().is_err() {
        bad = true;
      }
      run.clear();
    }
  }
  if !run.is_empty() && run.parse::<i32>().is_err() {
    bad = true;
  }
  !bad
}

/// utilities of a rule core that reach themselves: the weakest kind of reference the cycle needs
/// (0 = same node: all / any / not / matches; 1 = through `nthChild.ofRule`; 2 = through a
/// relational rule or a `stopBy` rule)
fn util_cycle_kind(core: &Value) -> Option<&'static str> {
  let utils = core.get("utils")?.as_object()?;
  fn refs(v: &Value, level: u8, out: &mut Vec<(String, u8)>) {
    match v {
      Value::Array(a) => a.iter().for_each(|x| refs(x, level, out)),
      Value::Object(o) => {
        for (k, x) in o {
          match k.as_str() {
            "matches" => {
              if let Some(s) = x.as_str() {
                out.push((s.to_string(), level));
              }
            }
            "inside" | "has" | "precedes" | "follows" | "stopBy" => refs(x, 2, out),
            "nthChild" | "ofRule" => refs(x, level.max(1), out),
            _ => refs(x, level, out),
          }
        }
      }
      _ => {}
    }
  }
  let mut edges: Vec<(String, String, u8)> = vec![];
  for (k, r) in utils {
    let mut out = vec![];
    refs(r, 0, &mut out);
    for (t, level) in out {
      if utils.contains_key(&t) {
        edges.push((k.clone(), t, level));
      }
    }
  }
  // is there a cycle using only edges of level <= max?
  let cyclic = |max: u8| -> bool {
    for start in utils.keys() {
      let mut seen: Vec<String> = vec![];
      let mut stack: Vec<String> = vec![start.clone()];
      while let Some(n) = stack.pop() {
        for (a, b, l) in &edges {
          if *a == n && *l <= max {
            if b == start {
              return true;
            }
            if !seen.contains(b) {
              seen.push(b.clone());
              stack.push(b.clone());
            }
          }
        }
      }
    }
    false
  };
  if cyclic(0) {
    Some("same-node")
  } else if cyclic(1) {
    Some("ofRule")
  } else if cyclic(2) {
    Some("relational")
  } else {
    None
  }
}

/// fingerprint of a document that crashed after it had been loaded successfully: a utility cycle
/// through relational rules is a sufficient cause of a crash at scan time, whatever else the
/// document contains
pub fn scan_fingerprint(role: &str, doc: &[u8]) -> String {
  let fp = input_fingerprint(role, doc);
  const REL: &str = "cyclic utils through relational rules";
  const RWS: &str = "rewriter rewriting with itself";
  const CON: &str = "rule requiring itself through a constraint";
  if fp.contains(REL) {
    format!("c11 {REL}")
  } else if fp.contains(RWS) {
    format!("c11 {RWS}")
  } else if fp.contains(CON) {
    format!("c11 {CON}")
  } else {
    fp
  }
}

/// fingerprint of a crashing document, computed from the *input* only
pub fn input_fingerprint(role: &str, doc: &[u8]) -> String {
  let Ok(text) = std::str::from_utf8(doc) else { return format!("c11 role={role} input=invalid-utf8") };
  let docs = json_of_yaml(text);
  if docs.is_empty() {
    return format!("c11 role={role} input=not-yaml");
  }
  let mut feats: Vec<String> = vec![];
  fn walk(v: &Value, key: &str, feats: &mut Vec<String>) {
    match v {
      Value::Object(o) => {
        if key == "transform" {
          for t in o.values() {
            if let Some(t) = t.as_object() {
              for (kind, body) in t {
                let src = body.get("source").and_then(|s| s.as_str());
                match src {
                  Some(s) if s.is_empty() => feats.push("transform-source-empty".into()),
                  Some(s) if !s.starts_with('$') && !s.is_ascii() => feats.push("transform-source-multibyte-first-char".into()),
                  Some(s) if !s.starts_with('$') => feats.push("transform-source-without-sigil".into()),
                  _ => {}
                }
                if kind == "replace" {
                  if let Some(r) = body.get("replace").and_then(|s| s.as_str()) {
                    if regex::Regex::new(r).is_err() {
                      feats.push("transform-replace-invalid-regex".into());
                    }
                  }
                }
              }
            }
          }
        }
        if key == "rewriters" {
          // handled on the array
        }
        for (k, x) in o {
          walk(x, k, feats);
        }
      }
      Value::Array(a) => {
        if key == "rewriters" {
          let mut ids: Vec<&str> = a.iter().filter_map(|r| r.get("id").and_then(|s| s.as_str())).collect();
          let n = ids.len();
          ids.sort();
          ids.dedup();
          if ids.len() < n {
            feats.push("duplicate-rewriter-id".into());
          }
          // a rewriter whose own transformation applies a `rewrite` with itself
          for r in a {
            let Some(id) = r.get("id").and_then(|s| s.as_str()) else { continue };
            let selfref = r.get("transform").and_then(|t| t.as_object()).map(|t| {
              t.values().any(|x| x.get("rewrite").and_then(|w| w.get("rewriters")).and_then(|l| l.as_array()).map(|l| l.iter().any(|y| y.as_str() == Some(id))).unwrap_or(false))
            });
            if selfref == Some(true) {
              feats.push("rewriter rewriting with itself".into());
            }
          }
        }
        a.iter().for_each(|x| walk(x, key, feats))
      }
      Value::String(s) if key == "pattern" || key == "context" => {
        let t = s.trim();
        if t.starts_with("$$$") && t[3..].chars().all(|c| c.is_ascii_uppercase() || c.is_ascii_digit() || c == '_') {
          feats.push("pattern-lone-ellipsis".into());
        }
      }
      Value::String(s) if key == "nthChild" || key == "position" => {
        if !parses_i32(s) {
          feats.push("nthChild-number-beyond-i32".into());
        } else if s.chars().any(|c| c.is_ascii_digit()) && s.chars().filter(|c| c.is_ascii_digit()).count() >= 9 {
          feats.push("nthChild-number-near-i32-limit".into());
        }
      }
      Value::Number(n) if key == "nthChild" || key == "position" => {
        if n.as_u64().map(|x| x > i32::MAX as u64).unwrap_or(false) {
          feats.push("nthChild-number-beyond-i32".into());
        }
      }
      _ => {}
    }
  }
  fn mentions_matches(v: &Value, id: &str) -> bool {
    match v {
      Value::Object(o) => o.iter().any(|(k, x)| (k == "matches" && x.as_str() == Some(id)) || mentions_matches(x, id)),
      Value::Array(a) => a.iter().any(|x| mentions_matches(x, id)),
      _ => false,
    }
  }
  for d in &docs {
    walk(d, "", &mut feats);
    // a (global utility) rule whose CONSTRAINTS require the rule itself: when the constrained variable
    // is bound to the matched node the rule runs on the same node again
    if let (Some(id), Some(c)) = (d.get("id").and_then(|s| s.as_str()), d.get("constraints")) {
      if mentions_matches(c, id) {
        feats.push("rule requiring itself through a constraint".into());
      }
    }
    match util_cycle_kind(d) {
      Some("relational") => feats.push("cyclic utils through relational rules".into()),
      Some("ofRule") => feats.push("cyclic utils through nthChild.ofRule".into()),
      Some(_) => feats.push("cyclic utils on the same node".into()),
      None => {}
    }
  }
  feats.sort();
  feats.dedup();
  if feats.is_empty() {
    format!("c11 role={role} input=unclassified")
  } else {
    format!("c11 {}", feats.join("+"))
  }
}

// ---------------------------------------------------------------------------------------
// units
// ---------------------------------------------------------------------------------------

fn report(o: &mut Out, family: &str, role: &str, stream: &str, doc: &[u8], ans: &Answer, fails: &mut usize, loaded: bool) {
  if ans.class.crashed() {
    *fails += 1;
    let fp = if loaded { scan_fingerprint(role, doc) } else { input_fingerprint(role, doc) };
    let shown: String = String::from_utf8_lossy(doc).chars().take(1500).collect();
    o.oracle(family, false, json!({"fp": fp, "stream": stream, "role": role, "outcome": ans.class.name(), "detail": ans.detail, "doc": shown}));
  }
}

/// streams (2) and (3) (+ the hand-written witnesses of the confirmed defects), all four roles
pub fn yaml_scan(ctx: &Ctx, rng: &mut Rng, o: &mut Out) {
  let pool = SrcPool::new(rng);
  let seeds = load_seeds();
  let n_mut = if ctx.thorough { 24000 } else { 1400 };
  let n_raw = if ctx.thorough { 12000 } else { 600 };
  // (bytes, stream, native role)
  let mut docs: Vec<(Vec<u8>, &'static str, &'static str)> = vec![];
  for s in &seeds {
    docs.push((s.text.clone().into_bytes(), "seed", s.role));
  }
  for w in super::yaml_gen::witnesses() {
    docs.push((w.into_bytes(), "witness", "rule"));
  }
  // rule files that define no rule at all
  for w in ["", "# nothing here\n", "---\n", "---\n---\n", "null\n", "\n\n", "---\n# c\n---\n"] {
    docs.push((w.as_bytes().to_vec(), "witness", "rule"));
  }
  // global utility rules (files of `utilDirs`; the harness adds a rule `matches: <id>`): a rule
  // that requires itself on the same node through its OWN local utility (accepted before the
  // cycle check followed `matches` into the local utilities: the scan overflowed the stack), the
  // same under `any`, and a reference to a rule that does not exist
  for w in [
    "id: g\nlanguage: JavaScript\nutils:\n  x: {matches: g}\nrule: {kind: number, matches: x}\n",
    "id: g\nlanguage: JavaScript\nutils:\n  x: {any: [{kind: string}, {matches: g}]}\nrule: {kind: number, matches: x}\n",
    "id: g\nlanguage: JavaScript\nutils:\n  x: {matches: y}\n  y: {not: {matches: g}}\nrule: {kind: identifier, matches: x}\n",
    "id: g\nlanguage: JavaScript\nrule: {kind: number, matches: nonexistent}\n",
    // a global rule that requires itself on the same node through a CONSTRAINT on a variable
    // bound to the matched node itself (known finding: constraints are not part of the cycle check)
    "id: g\nlanguage: JavaScript\nrule: {kind: number, pattern: $A}\nconstraints:\n  A: {matches: g}\n",
  ] {
    docs.push((w.as_bytes().to_vec(), "witness", "util"));
  }
  // project configurations: every list / map empty, repeated, missing on disk, wrongly typed
  for w in [
    "ruleDirs: [rules]\nutilDirs: []\n",
    "ruleDirs: []\n",
    "ruleDirs: [rules]\ntestConfigs: []\n",
    "ruleDirs: [rules]\ntestConfigs:\n  - testDir: tests\n    snapshotDir: ''\n",
    "ruleDirs: [rules]\nlanguageGlobs: {}\n",
    "ruleDirs: [rules]\nlanguageGlobs: {js: []}\n",
    "ruleDirs: [rules]\ncustomLanguages: {}\n",
    "ruleDirs: [rules, rules]\nutilDirs: [utils, utils]\n",
    "ruleDirs: [nonexistent]\nutilDirs: [nonexistent]\n",
    "ruleDirs: [rules]\nutilDirs: ['']\n",
    "ruleDirs: ['']\n",
    "ruleDirs: [rules]\nlanguageInjections: []\n",
    "ruleDirs: [rules]\nutilDirs: [rules]\n",
    "{}\n",
    "ruleDirs: null\n",
    "ruleDirs: rules\n",
    "ruleDirs: [rules]\nutilDirs: null\n",
    "ruleDirs: [rules]\ntestConfigs: [{testDir: ''}]\n",
  ] {
    docs.push((w.as_bytes().to_vec(), "witness", "sgconfig"));
  }
  for _ in 0..n_mut {
    let s = &seeds[rng.below(seeds.len())];
    let text = if rng.chance(3, 5) { mutate_tree(&s.text, rng).unwrap_or_else(|| mutate_text(&s.text, rng)) } else { mutate_text(&s.text, rng) };
    let text = if rng.chance(1, 6) { mutate_text(&text, rng) } else { text };
    docs.push((text.into_bytes(), "mutated", s.role));
  }
  for _ in 0..n_raw {
    docs.push((raw_bytes(rng), "raw", "rule"));
  }
  // stream (1) through the CLI as well (the model correspondence of this stream is `yaml_load`)
  {
    let n_struct = if ctx.thorough { 6000 } else { 400 };
    let wanted = [SupportLang::JavaScript, SupportLang::Python, SupportLang::Rust, SupportLang::Go];
    let sources: Vec<_> = super::rules::small_sources(rng, 1).into_iter().filter(|s| wanted.contains(&s.lang)).collect();
    let mut mats = vec![];
    for src in &sources {
      let grep = src.lang.ast_grep(&src.text);
      let root = grep.root();
      if root.dfs().count() > 600 {
        continue;
      }
      let m = harvest(&root, src.lang, rng);
      if !m.kinds.is_empty() {
        mats.push((src.lang, m));
      }
    }
    for i in 0..n_struct {
      let (lang, m) = &mats[i % mats.len()];
      let g = super::yaml_gen::gen_doc(m, *lang, rng);
      let mut d = g.doc.clone();
      if g.use_globals {
        // no global utilities in the CLI rule role: drop the reference
        if let Some(r) = d.get_mut("rule").and_then(|r| r.as_object_mut()) {
          if r.get("matches").and_then(|x| x.as_str()).map(|s| s.starts_with('g')).unwrap_or(false) && r.len() > 1 {
            r.remove("matches");
          }
        }
      }
      docs.push((serde_yaml::to_string(&d).unwrap_or_else(|_| d.to_string()).into_bytes(), "structured", "rule"));
    }
  }
  // jobs: the native role always; the three foreign roles for every 3rd document (a rule offered
  // as test file etc. is rejected by the first missing field: shallow but cheap)
  let mut jobs: Vec<Value> = vec![];
  let mut meta: Vec<(usize, String)> = vec![];
  for (i, (doc, _stream, role)) in docs.iter().enumerate() {
    let mut roles: Vec<&str> = vec![role];
    if *role == "rule" && (i % 2 == 0 || *_stream == "witness") {
      roles.push("rule-stdin");
    }
    if i % 3 == 0 {
      for r in ["rule", "util", "test", "sgconfig"] {
        if r != *role {
          roles.push(r);
        }
      }
    }
    for j in cli_jobs(doc, &pool, &roles) {
      meta.push((i, format!("cli-{}", j["role"].as_str().unwrap_or(""))));
      jobs.push(j);
    }
    if let Ok(text) = std::str::from_utf8(doc) {
      for r in ["rule", "util"] {
        if roles.contains(&r) {
          meta.push((i, format!("api-{r}")));
          jobs.push(api_job(r, text, &pool, &[]));
        }
      }
    }
  }
  let answers = procpool::run_jobs(&jobs, procpool::nproc());
  let mut fails = 0usize;
  let mut tally: std::collections::BTreeMap<String, usize> = Default::default();
  let mut glue = 0usize;
  let mut by_doc: std::collections::BTreeMap<usize, Vec<(String, Class)>> = Default::default();
  // did the library load the document as a rule file? (then a crash of any role that loads it
  // the same way happened while scanning)
  let mut api_loaded: std::collections::BTreeSet<usize> = Default::default();
  for ((i, role), ans) in meta.iter().zip(answers.iter()) {
    if role == "api-rule" && ans.detail["load"] == "ok" {
      api_loaded.insert(*i);
    }
  }
  for ((i, role), ans) in meta.iter().zip(answers.iter()) {
    let (doc, stream, _) = &docs[*i];
    *tally.entry(format!("{stream}/{role}/{}", ans.class.name())).or_default() += 1;
    let loaded = (role == "api-rule" || role == "cli-rule") && api_loaded.contains(i);
    report(o, "c11-no-crash", role, stream, doc, ans, &mut fails, loaded);
    by_doc.entry(*i).or_default().push((role.clone(), ans.class.clone()));
  }
  // glue: the CLI and the library agree on accept / reject of a rule file
  for (i, v) in &by_doc {
    let cli = v.iter().find(|(r, _)| r == "cli-rule").map(|x| x.1.clone());
    let api = v.iter().find(|(r, _)| r == "api-rule").map(|x| x.1.clone());
    if let (Some(c), Some(a)) = (cli, api) {
      if !c.crashed() && !a.crashed() && c != a {
        glue += 1;
        let shown: String = String::from_utf8_lossy(&docs[*i].0).chars().take(800).collect();
        o.oracle("c11-cli-library-agree", false, json!({"fp": "c11 cli and library disagree on accepting a rule file", "cli": c.name(), "api": a.name(), "doc": shown}));
      }
    }
  }
  o.oracle("c11-no-crash", true, json!({"cases": answers.len(), "documents": docs.len(), "failures": fails, "tally": tally}));
  o.oracle("c11-cli-library-agree", true, json!({"cases": by_doc.len(), "failures": glue}));
}

pub fn exec(op: &str, a: &Value) -> Option<Value> {
  super::yaml_gen::exec(op, a)
}

#[allow(dead_code)]
fn _unused(_: &Material, _: &mut Map<String, Value>) {
  let _ = gen_core;
}
