//! C20 units: meta-variable spelling, An+B, substring, template scanner
use super::Ctx;
use crate::util::*;
use ast_grep_config::verif_hooks as cfg_hooks;
use ast_grep_config::{from_yaml_string, GlobalRules};
use ast_grep_core::meta_var::MetaVariable;
use ast_grep_core::replacer::verif_hooks as rep_hooks;
use ast_grep_core::{Language, Pattern};
use ast_grep_language::SupportLang;
use serde_json::{json, Value};
use std::collections::BTreeMap;

pub fn mv_json(m: &Option<MetaVariable>) -> Value {
  match m {
    None => Value::Null,
    Some(MetaVariable::Capture(n, named)) => json!(["cap", n, named]),
    Some(MetaVariable::Dropped(named)) => json!(["drop", named]),
    Some(MetaVariable::Multiple) => json!(["multi"]),
    Some(MetaVariable::MultiCapture(n)) => json!(["mcap", n]),
  }
}

pub fn metavar(ctx: &Ctx, rng: &mut Rng, o: &mut Out) {
  // group the 23 languages by expando char; every language is really called
  let mut classes: BTreeMap<char, Vec<SupportLang>> = BTreeMap::new();
  for l in SupportLang::all_langs() {
    classes.entry(l.expando_char()).or_default().push(*l);
  }
  let max_len = if ctx.thorough { 7 } else { 5 };
  for (e, langs) in &classes {
    // alphabet: sigil, upper, lower, digit, underscore, and the expando itself
    let mut alphabet = vec!['$', 'A', 'b', '1', '_'];
    if !alphabet.contains(e) {
      alphabet.push(*e);
    }
    let strings = all_strings(&alphabet, max_len);
    for s in &strings {
      // result per language; identical results are merged into one op line
      let mut by_result: BTreeMap<String, (Value, Value, Vec<String>)> = BTreeMap::new();
      for l in langs {
        let pre = l.pre_process_pattern(s).to_string();
        let r = mv_json(&l.extract_meta_var(&pre));
        let key = format!("{pre}\u{0}{r}");
        by_result
          .entry(key)
          .or_insert_with(|| (json!(pre), r, vec![]))
          .2
          .push(l.to_string());
      }
      for (_, (pre, r, ls)) in by_result {
        o.op(
          "lang_extract",
          json!({"e": e.to_string(), "s": s, "langs": ls}),
          json!({"pre": pre, "mv": r}),
        );
      }
    }
  }
  // the raw recogniser with arbitrary meta chars (hook), random longer strings
  let n = if ctx.thorough { 200_000 } else { 20_000 };
  let mcs = ['$', 'µ', '_', 'z', 'A', '1'];
  for _ in 0..n {
    let mc = *rng.pick(&mcs);
    let alphabet = ['$', 'A', 'Z', 'b', '1', '9', '_', 'µ', 'z', mc, mc];
    let len = rng.below(12);
    let s: String = (0..len).map(|_| *rng.pick(&alphabet)).collect();
    let r = mv_json(&ast_grep_core::meta_var::verif_hooks::extract_meta_var(&s, mc));
    o.op("extract_raw", json!({"mc": mc.to_string(), "s": s}), r);
  }
}

fn anb_result(s: &str) -> Value {
  guard(|| match cfg_hooks::nth_child::parse_an_b(s) {
    Ok((a, b)) => json!(["ok", a, b]),
    Err(0) => json!(["err", "illegal"]),
    Err(1) => json!(["err", "syntax"]),
    Err(_) => json!(["err", "other"]),
  })
}

pub fn anb(ctx: &Ctx, rng: &mut Rng, o: &mut Out) {
  let alphabet = ['n', 'N', '+', '-', '0', '1', '2', '9', ' '];
  let max_len = if ctx.thorough { 6 } else { 4 };
  let mut pairs: std::collections::BTreeSet<(i32, i32)> = Default::default();
  let mut strings = all_strings(&alphabet, max_len);
  // longer random strings, including digit runs around the i32 boundary and odd characters
  let extra = if ctx.thorough { 100_000 } else { 10_000 };
  let alphabet2 = [
    'n', 'N', '+', '-', '0', '1', '2', '3', '4', '7', '8', '9', ' ', '\t', 'x', '\u{3000}', 'é',
  ];
  for _ in 0..extra {
    let len = 1 + rng.below(14);
    let s: String = (0..len).map(|_| *rng.pick(&alphabet2)).collect();
    strings.push(s);
  }
  for base in ["2147483647", "2147483648", "-2147483648", "n+2147483647", "n-2147483648",
    "2147483647n", "2147483648n+1", "-2147483647n-2147483647", "99999999999", "214748364n+7"] {
    strings.push(base.to_string());
  }
  for s in &strings {
    let r = anb_result(s);
    if let Some(arr) = r.as_array() {
      if arr[0] == "ok" {
        pairs.insert((arr[1].as_i64().unwrap() as i32, arr[2].as_i64().unwrap() as i32));
      }
    }
    o.op("anb_parse", json!({"s": s}), r);
  }
  // index test on every distinct parsed pair and on boundary pairs
  for p in [(1, i32::MIN), (-1, i32::MIN), (-1, i32::MAX), (i32::MAX, 1), (i32::MIN, 0), (2, -2147483647), (-1, -2147483647)] {
    pairs.insert(p);
  }
  let max_i = if ctx.thorough { 64 } else { 31 };
  for (a, b) in pairs {
    for i in 0..max_i {
      let r = guard(|| json!(cfg_hooks::nth_child::is_matched(a, b, i)));
      o.op("anb_match", json!({"a": a, "b": b, "i": i}), r);
    }
    for i in [2147483645usize, 2147483646, 2147483647] {
      let r = guard(|| json!(cfg_hooks::nth_child::is_matched(a, b, i)));
      o.op("anb_match", json!({"a": a, "b": b, "i": i}), r);
    }
  }
}

pub fn substring(ctx: &Ctx, _rng: &mut Rng, o: &mut Out) {
  // resolve_char hook: all (opt, dft, len) in a box
  for len in 0..10i32 {
    for c in -12..=12i32 {
      let r = cfg_hooks::transformation::resolve_char(&Some(c), 0, len);
      o.op("resolve_char", json!({"c": c, "dft": 0, "len": len}), json!(r));
    }
    for dft in [0, len] {
      let r = cfg_hooks::transformation::resolve_char(&None, dft, len);
      o.op("resolve_char", json!({"c": null, "dft": dft, "len": len}), json!(r));
    }
  }
  // end to end: rule with a substring transform on an identifier capture
  let alphabet = ['a', 'é', '中', '𝒳'];
  let max_len = if ctx.thorough { 5 } else { 3 };
  let texts: Vec<String> = all_strings(&alphabet, max_len)
    .into_iter()
    .filter(|s| !s.is_empty())
    .collect();
  let bound: i32 = if ctx.thorough { 8 } else { 5 };
  let mut opts: Vec<Option<i32>> = vec![None];
  opts.extend((-bound..=bound).map(Some));
  let globals = GlobalRules::default();
  let mut cases = 0usize;
  for st in &opts {
    for en in &opts {
      let mut yaml = String::from(
        "id: t\nlanguage: JavaScript\nrule: {pattern: $A, kind: identifier}\ntransform:\n  B:\n    substring:\n      source: $A\n",
      );
      if let Some(s) = st {
        yaml.push_str(&format!("      startChar: {s}\n"));
      }
      if let Some(e) = en {
        yaml.push_str(&format!("      endChar: {e}\n"));
      }
      let rules = from_yaml_string::<SupportLang>(&yaml, &globals).expect("substring rule loads");
      let rule = &rules[0];
      for t in &texts {
        let grep = SupportLang::JavaScript.ast_grep(t);
        let r = guard(|| {
          let root = grep.root();
          let nm = root.find(&rule.matcher);
          match nm {
            None => json!("nomatch"),
            Some(nm) => {
              let env = nm.get_env();
              match env.get_transformed("B") {
                Some(b) => json!(String::from_utf8_lossy(b).to_string()),
                None => Value::Null,
              }
            }
          }
        });
        // oracle: the documented meaning (Python slice t[s:e] on characters), computed here
        // independently of the implementation and of the model
        let want = py_slice(t, *st, *en);
        cases += 1;
        if r != json!(want) {
          let multibyte = t.chars().any(|c| c.len_utf8() > 1);
          o.oracle(
            "substring-python-slice",
            false,
            json!({"fp": format!("substring != python slice multibyte={multibyte} negative={}", st.unwrap_or(0) < 0 || en.unwrap_or(0) < 0),
                   "text": t, "startChar": st, "endChar": en, "got": r, "want": want}),
          );
        }
        o.op("substring", json!({"t": t, "s": st, "e": en}), r);
      }
    }
  }
  o.oracle("substring-python-slice", true, json!({"cases": cases}));
}

/// Python's `t[s:e]` on characters
fn py_slice(t: &str, s: Option<i32>, e: Option<i32>) -> String {
  let cs: Vec<char> = t.chars().collect();
  let n = cs.len() as i64;
  let norm = |x: Option<i32>, dft: i64| -> i64 {
    match x {
      None => dft,
      Some(v) => {
        let v = v as i64;
        let v = if v < 0 { v + n } else { v };
        v.clamp(0, n)
      }
    }
  };
  let (a, b) = (norm(s, 0), norm(e, n));
  if a >= b {
    String::new()
  } else {
    cs[a as usize..b as usize].iter().collect()
  }
}


pub fn template_scan(ctx: &Ctx, rng: &mut Rng, o: &mut Out) {
  let alphabet = ['$', 'A', 'b', '1', '_', '\n', ' '];
  let max_len = if ctx.thorough { 7 } else { 5 };
  let transforms = vec!["A".to_string(), "A1".to_string(), "_".to_string()];
  let dump = |t: &str, tr: &[String]| -> Value {
    guard(|| {
      let (f, v) = rep_hooks::template::create_template_dump(t, '$', tr);
      json!({"f": f, "v": v})
    })
  };
  let mut tmpl_cases = 0usize;
  for s in all_strings(&alphabet, max_len) {
    let d = dump(&s, &[]);
    // oracle: the documented capturing spellings ($NAME, $$NAME -> single; $$$NAME -> multiple) read
    // independently; templates with a run of four or more sigils are left to the correspondence
    if let Some(want) = spec_template(&s) {
      tmpl_cases += 1;
      let got: Option<Vec<(u64, String)>> = d["v"].as_array().map(|a| a.iter().map(|x| (x[0].as_u64().unwrap_or(9), x[1].as_str().unwrap_or("").to_string())).collect());
      let frags: Option<String> = d["f"].as_array().map(|a| a.iter().map(|x| x.as_str().unwrap_or("")).collect());
      let lit: String = want.1.clone();
      if got.as_ref() != Some(&want.0) || frags.as_deref() != Some(lit.as_str()) {
        o.oracle(
          "template-spellings",
          false,
          json!({"fp": format!("fix template: variables recognised differ from the documented spellings two-sigils={}", s.contains("$$") && !s.contains("$$$")),
                 "template": s, "want_vars": want.0, "want_literal": lit, "got": d}),
        );
      }
    }
    o.op("create_template", json!({"t": s, "tr": []}), d);
    if s.contains('A') || s.contains('_') {
      o.op("create_template", json!({"t": s, "tr": transforms}), dump(&s, &transforms));
    }
  }
  o.oracle("template-spellings", true, json!({"cases": tmpl_cases}));
  // random longer templates with multi-byte text, indentation, long lines (512-byte look-back)
  let n = if ctx.thorough { 50_000 } else { 5_000 };
  let pieces = ["$", "$$", "$$$", "A", "B_1", "x", "é", "中", " ", "  ", "\n", "\n    ", "(", ")", "$A", "$$$ARGS", "$_", "1"];
  for k in 0..n {
    let cnt = 1 + rng.below(12);
    let mut s = String::new();
    if k % 50 == 0 {
      // long line before the first variable
      let pad = 500 + rng.below(30);
      s.push_str(&" ".repeat(pad));
    }
    for _ in 0..cnt {
      s.push_str(*rng.pick(&pieces[..]));
    }
    let tr = if rng.chance(1, 2) { transforms.clone() } else { vec![] };
    o.op("create_template", json!({"t": s, "tr": tr}), dump(&s, &tr));
  }
  // split_first_meta_var directly
  for s in all_strings(&['$', 'A', 'b', '1', '_'], if ctx.thorough { 6 } else { 4 }) {
    if !s.starts_with('$') {
      continue;
    }
    let r = guard(|| match rep_hooks::split_first_meta_var_dump(&s, '$', &transforms) {
      None => Value::Null,
      Some((k, n, sk)) => json!([k, n, sk]),
    });
    o.op("split_first", json!({"s": s, "tr": transforms}), r);
  }
}

// ---------------------------------------------------------------------------------------
// property oracles (reference semantics written from the documentation, not from the code)

/// the meta variables of a pattern tree, in document order
fn vars_of(p: &ast_grep_core::matcher::PatternNode) -> Vec<Value> {
  fn go(p: &ast_grep_core::matcher::PatternNode, out: &mut Vec<Value>) {
    match p {
      ast_grep_core::matcher::PatternNode::MetaVar { meta_var } => out.push(mv_json(&Some(meta_var.clone()))),
      ast_grep_core::matcher::PatternNode::Terminal { .. } => {}
      ast_grep_core::matcher::PatternNode::Internal { children, .. } => children.iter().for_each(|c| go(c, out)),
    }
  }
  let mut out = vec![];
  go(p, &mut out);
  out
}

/// the documented meaning of a `$`-spelling, independent of any language
fn spec_spelling(s: &str) -> Value {
  let valid = |c: char| c.is_ascii_uppercase() || c.is_ascii_digit() || c == '_';
  let first = |c: char| c.is_ascii_uppercase() || c == '_';
  let dollars = s.chars().take_while(|c| *c == '$').count();
  let name: String = s.chars().skip(dollars).collect();
  if dollars == 0 || dollars > 3 || !name.chars().all(valid) {
    return Value::Null;
  }
  if dollars == 3 {
    if name.is_empty() || name.starts_with('_') {
      return json!(["multi"]);
    }
    return json!(["mcap", name]);
  }
  let named = dollars == 1;
  match name.chars().next() {
    Some(c) if first(c) => {
      if c == '_' {
        json!(["drop", named])
      } else {
        json!(["cap", name, named])
      }
    }
    _ => Value::Null,
  }
}

/// C20 oracle: in every language a `$`-spelling (not containing the language's own expando
/// letter unless it is `_`, which belongs to the property's alphabet) means what the
/// documentation says; An+B, substring and template scanning are exact.
pub fn oracle(ctx: &Ctx, rng: &mut Rng, o: &mut Out) {
  let max_len = if ctx.thorough { 7 } else { 5 };
  let strings = all_strings(&['$', 'A', 'b', '1', '_'], max_len);
  for l in SupportLang::all_langs() {
    let e = l.expando_char();
    for s in &strings {
      let spec = spec_spelling(s);
      let got = mv_json(&l.extract_meta_var(&l.pre_process_pattern(s)));
      // quantifier guard: the language's own expando letter is outside the `$`-alphabet of the
      // property, except `_` (explicitly in the alphabet) inside a spelling that starts with `$`
      if e != '$' && s.contains(e) && !(e == '_' && s.starts_with('$')) {
        continue;
      }
      let mut kind = spec.get(0).and_then(|k| k.as_str()).unwrap_or("none").to_string();
      if kind == "none" {
        let dollars = s.chars().take_while(|c| *c == '$').count();
        let name: String = s.chars().skip(dollars).collect();
        let why = if name.contains('$') {
          "inner-sigil"
        } else if dollars > 3 {
          "too-many-sigils"
        } else if name.is_empty() {
          "lone-sigil"
        } else if name.contains('b') {
          "lower-case"
        } else if dollars == 0 {
          "no-sigil"
        } else {
          "digit-first"
        };
        kind = format!("none:{why}");
      }
      if spec != got {
        o.oracle(
          "spelling",
          false,
          json!({"fp": format!("spelling expando={e} spec={kind}"), "lang": l.to_string(), "s": s, "expected": spec, "actual": got}),
        );
      }
    }
    o.oracle("spelling-lang-done", true, json!({"lang": l.to_string(), "cases": strings.len()}));
    // the same spellings through the ENTRY POINTS that build patterns: a plain pattern
    // (`Pattern::try_new`) and a contextual one (`Pattern::contextual`, the object form of a rule
    // file and `--selector` on the command line) read a lone spelling the same, documented way
    let mut entry_cases = 0usize;
    for sp in ["$A", "$$A", "$_", "$$_", "$$$", "$$$A", "$A1", "$_X", "$$$_"] {
      if e != '$' && sp.contains(e) && !(e == '_' && sp.starts_with('$')) {
        continue;
      }
      let spec = spec_spelling(sp);
      let vars = |p: &ast_grep_core::matcher::PatternNode| -> Vec<Value> {
        fn go(p: &ast_grep_core::matcher::PatternNode, out: &mut Vec<Value>) {
          match p {
            ast_grep_core::matcher::PatternNode::MetaVar { meta_var } => out.push(mv_json(&Some(meta_var.clone()))),
            ast_grep_core::matcher::PatternNode::Terminal { .. } => {}
            ast_grep_core::matcher::PatternNode::Internal { children, .. } => children.iter().for_each(|c| go(c, out)),
          }
        }
        let mut out = vec![];
        go(p, &mut out);
        out
      };
      let Ok(plain) = Pattern::try_new(sp, *l) else { continue };
      let pv = vars(&plain.node);
      if pv.len() != 1 {
        // the lone spelling is no single node in this grammar: nothing to compare
        continue;
      }
      entry_cases += 1;
      if pv != vec![spec.clone()] {
        // the same reading as `extract_meta_var` above: the same fingerprint (one defect, two routes)
        let kind = spec.get(0).and_then(|k| k.as_str()).unwrap_or("none").to_string();
        o.oracle("spelling", false, json!({"fp": format!("spelling expando={e} spec={kind}"), "lang": l.to_string(), "s": sp, "expected": spec, "actual": pv, "route": "Pattern::try_new"}));
      }
      // the kind of the node the lone spelling parses to (in the pre-processed text)
      let pre = l.pre_process_pattern(sp).to_string();
      let g = l.ast_grep(&pre);
      let mut node = g.root();
      loop {
        let kids: Vec<_> = node.children().collect();
        if kids.len() != 1 {
          break;
        }
        node = kids.into_iter().next().unwrap();
      }
      let kind = node.kind().to_string();
      if kind.is_empty() || kind == "ERROR" || node.children().len() != 0 || g.root().dfs().any(|n| n.is_error()) {
        continue;
      }
      entry_cases += 1;
      let got = match Pattern::contextual(sp, &kind, *l) {
        Ok(cp) => json!(vars(&cp.node)),
        Err(err) => json!(format!("error: {err}")),
      };
      // (against the plain pattern's reading: a spelling the language misreads is reported once, above)
      if got != json!(pv) {
        o.oracle("spelling", false, json!({"fp": format!("pattern entry point: a contextual pattern reads a spelling differently from a plain pattern, expando={e}"), "lang": l.to_string(), "s": sp, "selector": kind, "plain": pv, "documented": spec, "actual": got}));
      }
    }
    o.oracle("spelling-entry-points", true, json!({"lang": l.to_string(), "cases": entry_cases}));
    // the same spellings IN CONTEXT: inside real code of the language, next to sibling nodes (`echo
    // $$$ARGS`, `foo($A, 1)`): wherever the (pre-processed) spelling is the whole text of one node of
    // the parsed pattern text — judged on a plain parse, nothing of the pattern machinery enters the
    // guard — the pattern has the documented meta variable there
    let mut ctx_cases = 0usize;
    'src: for srcf in crate::corpus::load().iter().filter(|sf| sf.lang == *l) {
      let g0 = l.ast_grep(&srcf.text);
      let cands: Vec<_> = g0
        .root()
        .dfs()
        .filter(|n| {
          n.is_named() && n.children().len() == 0 && n.range().len() > 0 && !n.text().contains('$') && n.parent().map_or(false, |p| {
            let t = p.text();
            t.len() <= 100 && !t.contains('\n') && !t.contains('$') && (e == '$' || !t.contains(e)) && p.children().filter(|c| c.is_named()).count() >= 2 && !p.dfs().any(|d| d.is_error())
          })
        })
        .collect();
      for n in cands.iter().step_by((cands.len() / 6).max(1)) {
        let p = n.parent().unwrap();
        let base = p.range().start;
        let pt = p.text().to_string();
        for sp in ["$A", "$$A", "$_", "$$_", "$$$", "$$$A", "$A1", "$$$_"] {
          if e != '$' && sp.contains(e) && !(e == '_' && sp.starts_with('$')) {
            continue;
          }
          let text = format!("{}{}{}", &pt[..n.range().start - base], sp, &pt[n.range().end - base..]);
          let pre = l.pre_process_pattern(&text).to_string();
          let psp = l.pre_process_pattern(sp).to_string();
          let occ: Vec<usize> = pre.match_indices(&psp).map(|(i, _)| i).collect();
          if occ.len() != 1 {
            continue;
          }
          let (a, b) = (occ[0], occ[0] + psp.len());
          let g = l.ast_grep(&pre);
          if g.root().dfs().any(|d| d.is_error() || d.get_ts_node().is_missing()) || !g.root().dfs().any(|d| d.range().start == a && d.range().end == b) {
            continue;
          }
          let Ok(pat) = Pattern::try_new(&text, *l) else { continue };
          ctx_cases += 1;
          let spec = spec_spelling(sp);
          let got = vars_of(&pat.node);
          if !got.contains(&spec) {
            let kind = spec.get(0).and_then(|k| k.as_str()).unwrap_or("none").to_string();
            o.oracle("spelling", false, json!({"fp": format!("spelling expando={e} spec={kind}"), "lang": l.to_string(), "s": sp, "expected": spec, "actual": got, "route": "Pattern::try_new, spelling next to sibling nodes", "pattern": text}));
          }
        }
        if ctx_cases >= 60 {
          break 'src;
        }
      }
    }
    o.oracle("spelling-in-context", true, json!({"lang": l.to_string(), "cases": ctx_cases}));
    // a plain string as REPLACER (`impl Replacer for str`: `replace_by`, `Node::replace`,
    // `AstGrep::replace` of the library): `$A` / `$$A` in it stand for the capture, other `$` text and
    // the language's internal sigil stay literal
    {
      use ast_grep_core::matcher::MatcherExt;
      let g = l.ast_grep("a");
      let mut ok_cases = 0usize;
      if let Ok(p) = Pattern::try_new("$A", *l) {
        if let Some(nm) = p.find_node(g.root()) {
          let bound = nm.get_env().get_match("A").map(|n| n.text().to_string());
          if let Some(t) = bound {
            for (tmpl, want) in [
              ("<$A>", format!("<{t}>")),
              ("[$$A|$A]", format!("[{t}|{t}]")),
              ("x$A$A", format!("x{t}{t}")),
              ("'$a' $1 $ $A", format!("'$a' $1 $ {t}")),
              ("plain", "plain".to_string()),
            ] {
              // the language's own sigil inside a template is outside the `$` alphabet of the property
              if tmpl.contains(e) && e != '$' {
                continue;
              }
              ok_cases += 1;
              let edit = nm.replace_by(tmpl);
              let got = String::from_utf8_lossy(&edit.inserted_text).to_string();
              if got != want {
                o.oracle("spelling", false, json!({"fp": format!("string replacer: template variables are read differently, expando={e}"), "lang": l.to_string(), "template": tmpl, "expected": want, "actual": got}));
              }
            }
          }
        }
      }
      o.oracle("str-replacer", true, json!({"lang": l.to_string(), "cases": ok_cases}));
    }
  }
  // An+B: i selected iff exists n >= 0 with i+1 = a*n+b (brute force over n)
  let alphabet = ['n', 'N', '+', '-', '0', '1', '2', '9', ' '];
  let mut cases = 0usize;
  for s in all_strings(&alphabet, if ctx.thorough { 6 } else { 4 }) {
    if let Ok((a, b)) = cfg_hooks::nth_child::parse_an_b(&s) {
      // independent reading of the notation
      let want = spec_anb(&s);
      if want != Some((a as i64, b as i64)) {
        o.oracle("anb-parse", false, json!({"fp": "anb-parse", "s": s, "expected": format!("{want:?}"), "actual": [a, b]}));
      }
      for i in 0..31usize {
        let idx = i as i64 + 1;
        let bound = (idx - b as i64).abs();
        let expect = (0..=bound).any(|n| idx == a as i64 * n + b as i64);
        let got = cfg_hooks::nth_child::is_matched(a, b, i);
        cases += 1;
        if expect != got {
          o.oracle("anb-match", false, json!({"fp": "anb-match", "s": s, "a": a, "b": b, "i": i, "expected": expect, "actual": got}));
        }
      }
    } else if spec_anb(&s).is_some() {
      o.oracle("anb-parse", false, json!({"fp": "anb-reject", "s": s, "expected": format!("{:?}", spec_anb(&s)), "actual": "error"}));
    }
  }
  o.oracle("anb-done", true, json!({"cases": cases}));
  let _ = rng;
}

/// the variables of a fix template and its literal text (all fragments concatenated), read from the
/// documentation: `$`, `$$` or `$$$` followed by a name `[A-Z_][A-Z0-9_]*` is a variable (three
/// sigils: a multiple capture, kind 1; one or two: single, kind 0); everything else is literal.
/// `None` when the template has a run of four or more sigils (reading not documented).
fn spec_template(t: &str) -> Option<(Vec<(u64, String)>, String)> {
  let cs: Vec<char> = t.chars().collect();
  let mut vars = vec![];
  let mut lit = String::new();
  let mut i = 0;
  while i < cs.len() {
    if cs[i] != '$' {
      lit.push(cs[i]);
      i += 1;
      continue;
    }
    let mut k = 0;
    while i + k < cs.len() && cs[i + k] == '$' {
      k += 1;
    }
    if k >= 4 {
      return None;
    }
    let mut j = i + k;
    let name_start = j;
    if j < cs.len() && (cs[j].is_ascii_uppercase() || cs[j] == '_') {
      while j < cs.len() && (cs[j].is_ascii_uppercase() || cs[j].is_ascii_digit() || cs[j] == '_') {
        j += 1;
      }
    }
    if j > name_start {
      vars.push((if k == 3 { 1 } else { 0 }, cs[name_start..j].iter().collect()));
      i = j;
    } else {
      // sigils without a name are literal text
      for _ in 0..k {
        lit.push('$');
      }
      i += k;
    }
  }
  Some((vars, lit))
}

/// CSS An+B micro-syntax read independently: optional `[+-]? digits? n` part, optional signed
/// integer part; white space ignored anywhere (as the rule reference allows `2n + 1`).
fn spec_anb(s: &str) -> Option<(i64, i64)> {
  let t: String = s.chars().filter(|c| !c.is_whitespace()).collect();
  let t = t.to_ascii_lowercase();
  if t.is_empty() {
    return None;
  }
  let parse_int = |x: &str| -> Option<i64> {
    let (sign, digits) = match x.chars().next()? {
      '+' => (1, &x[1..]),
      '-' => (-1, &x[1..]),
      _ => (1, x),
    };
    if digits.is_empty() || !digits.chars().all(|c| c.is_ascii_digit()) {
      return None;
    }
    Some(sign * digits.parse::<i64>().ok()?)
  };
  if let Some(pos) = t.find('n') {
    let (a_part, rest) = (&t[..pos], &t[pos + 1..]);
    let a = match a_part {
      "" | "+" => 1,
      "-" => -1,
      x => parse_int(x)?,
    };
    let b = if rest.is_empty() {
      0
    } else {
      if !(rest.starts_with('+') || rest.starts_with('-')) {
        return None;
      }
      parse_int(rest)?
    };
    Some((a, b))
  } else {
    Some((0, parse_int(&t)?))
  }
}

// ---------------------------------------------------------------------------------------
// replay: execute one recorded op on the current implementation

pub fn exec(op: &str, a: &Value) -> Option<Value> {
  let str_of = |k: &str| a[k].as_str().unwrap_or("").to_string();
  let chr = |k: &str| a[k].as_str().and_then(|s| s.chars().next()).unwrap_or('$');
  let trs = || -> Vec<String> {
    a["tr"].as_array().map(|v| v.iter().filter_map(|x| x.as_str().map(String::from)).collect()).unwrap_or_default()
  };
  Some(match op {
    "lang_extract" => {
      let e = chr("e");
      let s = str_of("s");
      let l = SupportLang::all_langs().iter().find(|l| l.expando_char() == e)?;
      let pre = l.pre_process_pattern(&s).to_string();
      let mv = mv_json(&l.extract_meta_var(&pre));
      json!({"pre": pre, "mv": mv})
    }
    "extract_raw" => mv_json(&ast_grep_core::meta_var::verif_hooks::extract_meta_var(&str_of("s"), chr("mc"))),
    "anb_parse" => anb_result(&str_of("s")),
    "anb_match" => {
      let (x, y, i) = (a["a"].as_i64()? as i32, a["b"].as_i64()? as i32, a["i"].as_u64()? as usize);
      guard(|| json!(cfg_hooks::nth_child::is_matched(x, y, i)))
    }
    "resolve_char" => {
      let c = a["c"].as_i64().map(|x| x as i32);
      json!(cfg_hooks::transformation::resolve_char(&c, a["dft"].as_i64()? as i32, a["len"].as_i64()? as i32))
    }
    "create_template" => {
      let t = str_of("t");
      let tr = trs();
      guard(|| {
        let (f, v) = rep_hooks::template::create_template_dump(&t, '$', &tr);
        json!({"f": f, "v": v})
      })
    }
    "split_first" => {
      let s = str_of("s");
      let tr = trs();
      guard(|| match rep_hooks::split_first_meta_var_dump(&s, '$', &tr) {
        None => Value::Null,
        Some((k, n, sk)) => json!([k, n, sk]),
      })
    }
    _ => return None,
  })
}
