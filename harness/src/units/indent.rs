//! C07 units: indentation functions (hooks), fix-template expansion end to end (public API),
//! and the property oracles (reference written from the documentation in
//! `crates/core/src/replacer/indent.rs` and the rewrite guide, not from the code).
use super::Ctx;
use crate::util::*;
use ast_grep_config::{from_yaml_string, GlobalRules};
use ast_grep_core::meta_var::{MetaVarEnv, MetaVariable};
use ast_grep_core::replacer::verif_hooks::indent as ih;
use ast_grep_core::replacer::{Replacer, TemplateFix};
use ast_grep_core::{Language, Node, NodeMatch, Pattern, StrDoc};
use ast_grep_language::SupportLang;
use serde_json::{json, Value};
use std::collections::BTreeMap;

type N<'r> = Node<'r, StrDoc<SupportLang>>;

pub fn hex(b: &[u8]) -> String {
  let mut s = String::with_capacity(b.len() * 2);
  for x in b {
    s.push_str(&format!("{x:02x}"));
  }
  s
}
pub fn unhex(s: &str) -> Vec<u8> {
  (0..s.len() / 2).map(|i| u8::from_str_radix(&s[2 * i..2 * i + 2], 16).unwrap_or(0)).collect()
}

// ---------------------------------------------------------------------------------------
// generators

const PIECES: &[&str] = &[
  " ", " ", "  ", "    ", "\n", "\n", "\r\n", "a", "bc", "é", "中", "𝒳", "\t", "{", "}", "\n  ", "\n    ", "\n\n", "\n ", "x y",
];

fn gen_text(rng: &mut Rng, max_pieces: usize) -> String {
  let n = rng.below(max_pieces + 1);
  let mut s = String::new();
  for _ in 0..n {
    s.push_str(*rng.pick(PIECES));
  }
  s
}

/// text of exactly `len` bytes: `k` leading spaces then filler (ASCII or 2-byte chars)
fn line_of(len: usize, k: usize, wide: bool) -> String {
  let k = k.min(len);
  let mut s = " ".repeat(k);
  let mut rest = len - k;
  if wide {
    while rest >= 2 {
      s.push('é');
      rest -= 2;
    }
  }
  s.push_str(&"x".repeat(rest));
  s
}

// ---------------------------------------------------------------------------------------
// real-function calls (shared by the generators and by replay)

fn r_indent_at(s: &[u8]) -> Value {
  guard(|| json!(ih::get_indent_at_offset_str(s)))
}
fn r_indent_lines(indent: usize, multi: Option<usize>, s: &[u8]) -> Value {
  guard(|| json!(hex(&ih::indent_lines_str(indent, multi, s))))
}
fn r_remove_indent(indent: usize, s: &[u8]) -> Value {
  guard(|| json!(hex(&ih::remove_indent_str(indent, s))))
}
fn r_extract(c: &String, start: usize, end: usize) -> Value {
  guard(|| {
    let (m, s) = ih::extract_with_deindent_str(c, start..end);
    json!({"multi": m, "s": hex(&s)})
  })
}
fn r_formatted(slice: &[u8], c: &String, start: usize) -> Value {
  guard(|| json!(hex(&ih::formatted_slice_str(slice, c, start))))
}

pub fn indent(ctx: &Ctx, rng: &mut Rng, o: &mut Out) {
  let m = if ctx.thorough { 20 } else { 1 };
  // --- get_indent_at_offset
  for _ in 0..3000 * m {
    let s = gen_text(rng, 16);
    o.op("indent_at", json!({"s": hex(s.as_bytes())}), r_indent_at(s.as_bytes()));
  }
  // the 512-byte look-back boundary, systematically: newline at distance t+1 from the end
  for t in 505..=518usize {
    for k in [0usize, 1, 2, 7, 100, t.saturating_sub(1), t] {
      for pre in ["", "ab", "  ", "y\n  ", "  z\r"] {
        for wide in [false, true] {
          let s = format!("{pre}\n{}", line_of(t, k, wide));
          o.op("indent_at", json!({"s": hex(s.as_bytes())}), r_indent_at(s.as_bytes()));
        }
      }
      // no newline at all: first line of the file, total length t
      for wide in [false, true] {
        let s = line_of(t, k, wide);
        o.op("indent_at", json!({"s": hex(s.as_bytes())}), r_indent_at(s.as_bytes()));
        // text first, then spaces up to the offset
        let s2 = format!("{}{}", line_of(t - k.min(t), 0, wide), " ".repeat(k.min(t)));
        o.op("indent_at", json!({"s": hex(s2.as_bytes())}), r_indent_at(s2.as_bytes()));
      }
    }
  }
  // random long texts, few newlines, slices that may cut a multi-byte char at the window edge
  for _ in 0..1500 * m {
    let mut s = String::new();
    let target = 380 + rng.below(400);
    while s.len() < target {
      match rng.below(40) {
        0 => s.push('\n'),
        1 => s.push_str("\r\n"),
        2..=11 => s.push(' '),
        12..=17 => s.push('é'),
        18..=20 => s.push('中'),
        21 => s.push('\t'),
        _ => s.push('q'),
      }
    }
    let cut = s.len() - rng.below(4).min(s.len());
    let b = &s.as_bytes()[..cut];
    o.op("indent_at", json!({"s": hex(b)}), r_indent_at(b));
  }
  // --- indent_lines: all three orderings, SingleLine / MultiLine
  for i in 0..8000 * m {
    let s = gen_text(rng, 14);
    let orig = rng.below(9);
    let new = match i % 3 {
      0 => orig,
      1 => orig + 1 + rng.below(6),
      _ => rng.below(orig + 1),
    };
    let multi = if rng.chance(1, 7) { None } else { Some(orig) };
    // slices of valid strings may start/end anywhere
    let b = s.as_bytes();
    let lo = if rng.chance(1, 10) { rng.below(b.len() + 1) } else { 0 };
    let b = &b[lo..];
    o.op("indent_lines", json!({"indent": new, "multi": multi, "s": hex(b)}), r_indent_lines(new, multi, b));
  }
  // --- remove_indent
  for _ in 0..2500 * m {
    let s = gen_text(rng, 14);
    let ind = rng.below(7);
    o.op("remove_indent", json!({"indent": ind, "s": hex(s.as_bytes())}), r_remove_indent(ind, s.as_bytes()));
  }
  // --- extract_with_deindent
  for i in 0..3500 * m {
    let mut c = String::new();
    if i % 25 == 0 {
      // capture on a long line / just inside the look-back window
      let t = 500 + rng.below(24);
      if rng.chance(1, 2) {
        c.push_str("h\n");
      }
      c.push_str(&line_of(t, rng.below(9), rng.chance(1, 2)));
    }
    c.push_str(&gen_text(rng, 18));
    let len = c.len();
    let (start, end) = if rng.chance(1, 25) {
      // out of range / inverted: the slice panics
      if rng.chance(1, 2) {
        (rng.below(len + 1), len + 1 + rng.below(3))
      } else {
        let e = rng.below(len + 1);
        (e + 1 + rng.below(3), e)
      }
    } else {
      let a = rng.below(len + 1);
      let b = rng.below(len + 1);
      (a.min(b), a.max(b))
    };
    o.op("extract_deindent", json!({"c": hex(c.as_bytes()), "start": start, "end": end}), r_extract(&c, start, end));
  }
  // --- formatted_slice
  for _ in 0..2500 * m {
    let c = gen_text(rng, 16);
    let slice = gen_text(rng, 10);
    let start = if rng.chance(1, 30) { c.len() + 1 + rng.below(3) } else { rng.below(c.len() + 1) };
    o.op(
      "formatted_slice",
      json!({"slice": hex(slice.as_bytes()), "c": hex(c.as_bytes()), "start": start}),
      r_formatted(slice.as_bytes(), &c, start),
    );
  }
}

// ---------------------------------------------------------------------------------------
// sources with multi-line constructs at chosen indentations

struct LangSpec {
  lang: SupportLang,
  open: &'static str,
  close: &'static str,
  assign: &'static str,
  end: &'static str,
  comment: Option<(&'static str, &'static str)>,
  snippets: &'static [&'static str],
}

const JS_SNIPPETS: &[&str] = &[
  "{\n  a: 1,\n  b: [\n    2,\n    3\n  ]\n}",
  "function () {\n  return 1\n}",
  "x =>\n  x + 1",
  "`tpl\n  line`",
  "a +\nb",
  "[\n\n  1\n]",
  "'é中𝒳'",
  "y",
  "g(\n      deep,\n  shallow\n)",
  "`  s\n  t`",
];
const PY_SNIPPETS: &[&str] = &[
  "[\n  1,\n  2\n]",
  "{\n  'a': 1,\n  'b': [\n    2\n  ]\n}",
  "lambda x:\n  x",
  "'''doc\n  string'''",
  "(a +\nb)",
  "(\n\n  1\n)",
  "'é中'",
  "y",
  "'''  s\n  t'''",
];
const RS_SNIPPETS: &[&str] = &[
  "|x| {\n  x + 1\n}",
  "match y {\n  1 => 2,\n  _ => 3,\n}",
  "vec![\n  1,\n  2,\n]",
  "\"s\n  t\"",
  "a +\nb",
  "[\n\n  1\n]",
  "\"é中\"",
  "y",
  "\"  s\n  t\"",
];
const GO_SNIPPETS: &[&str] = &[
  "func() {\n  return\n}",
  "[]int{\n  1,\n  2,\n}",
  "`raw\n  str`",
  "a +\nb",
  "\"é中\"",
  "y",
];
const JAVA_SNIPPETS: &[&str] = &[
  "new Object() {\n  int x;\n}",
  "a ->\n  a + 1",
  "new int[] {\n\n  1\n}",
  "\"é中\"",
  "y",
];

fn specs(thorough: bool) -> Vec<LangSpec> {
  let mut v = vec![
    LangSpec { lang: SupportLang::JavaScript, open: "function w() {\n", close: "\n}\n", assign: "x = ", end: ";", comment: Some(("/* ", " */ ")), snippets: JS_SNIPPETS },
    LangSpec { lang: SupportLang::Tsx, open: "function w(): void {\n", close: "\n}\n", assign: "const x: T = ", end: "", comment: Some(("/* ", " */ ")), snippets: JS_SNIPPETS },
    LangSpec { lang: SupportLang::Python, open: "def w():\n", close: "\n", assign: "x = ", end: "", comment: None, snippets: PY_SNIPPETS },
    LangSpec { lang: SupportLang::Rust, open: "fn w() {\n", close: "\n}\n", assign: "let x = ", end: ";", comment: Some(("/* ", " */ ")), snippets: RS_SNIPPETS },
    LangSpec { lang: SupportLang::Go, open: "package p\nfunc w() {\n", close: "\n}\n", assign: "x := ", end: "", comment: Some(("/* ", " */ ")), snippets: GO_SNIPPETS },
  ];
  if thorough {
    v.push(LangSpec { lang: SupportLang::Java, open: "class W { void w() {\n", close: "\n}}\n", assign: "Object x = ", end: ";", comment: Some(("/* ", " */ ")), snippets: JAVA_SNIPPETS });
    v.push(LangSpec { lang: SupportLang::TypeScript, open: "function w(): void {\n", close: "\n}\n", assign: "let x = ", end: ";", comment: Some(("/* ", " */ ")), snippets: JS_SNIPPETS });
  }
  v
}

#[derive(Clone, Copy, PartialEq, Debug)]
enum Style {
  Consistent,
  Under,
  Tabs,
  Crlf,
  Blank,
  LongLine,
}
const STYLES: &[Style] = &[Style::Consistent, Style::Consistent, Style::Consistent, Style::Under, Style::Tabs, Style::Crlf, Style::Blank, Style::LongLine];

/// write `snippet` (relative layout) so that its first line sits at indentation `ind`
fn place(snippet: &str, ind: usize, style: Style) -> String {
  let pad = match style {
    Style::Under => " ".repeat(ind / 2),
    Style::Tabs => "\t".repeat(ind / 4),
    _ => " ".repeat(ind),
  };
  let mut out = String::new();
  for (i, l) in snippet.split('\n').enumerate() {
    if i > 0 {
      out.push('\n');
      if style == Style::Blank && i == 1 {
        out.push('\n');
      }
      out.push_str(&pad);
    }
    out.push_str(l);
  }
  out
}

struct Src {
  lang: SupportLang,
  text: String,
  ind: usize,
  style: Style,
}

fn gen_source(sp: &LangSpec, rng: &mut Rng, ind: usize, style: Style) -> Src {
  let nargs = 1 + rng.below(3);
  let mut call = String::from("foo(");
  for i in 0..nargs {
    if i > 0 {
      call.push_str(", ");
    }
    call.push_str(&place(*rng.pick(sp.snippets), ind, style));
  }
  call.push(')');
  let pad = match style {
    Style::Tabs => "\t".repeat(ind / 4),
    _ => " ".repeat(ind),
  };
  let mut line = pad;
  if style == Style::LongLine {
    if let Some((a, b)) = sp.comment {
      line.push_str(a);
      line.push_str(&"y".repeat(480 + rng.below(50)));
      line.push_str(b);
    }
  }
  if rng.chance(1, 2) {
    line.push_str(sp.assign);
  }
  line.push_str(&call);
  line.push_str(sp.end);
  let wrap = ind > 0 || rng.chance(1, 2);
  let mut text = if wrap && (ind > 0 || sp.lang != SupportLang::Python) {
    format!("{}{}{}", sp.open, line, sp.close)
  } else {
    line
  };
  if style == Style::Crlf {
    text = text.replace('\n', "\r\n");
  }
  Src { lang: sp.lang, text, ind, style }
}

const PATTERNS: &[&str] = &["foo($A)", "foo($$$ARGS)", "foo($A, $$$REST)", "foo($A, $B)"];

const TEMPLATES: &[&str] = &[
  "$A",
  "$$$ARGS",
  "bar($A)",
  "bar(\n  $A\n)",
  "bar(\n    $A,\n  $A)",
  "  $A",
  "x\n\t$A",
  "$A$A",
  "$Ab",
  "é$A中",
  "$C",
  "[$$$ARGS]",
  "[\n      $$$ARGS\n]",
  "f($B, $$$REST)",
  "$$A",
  "$a $A",
  "k:\n  - $A\n\n  - $$$REST",
  "$A\r\n  $A",
  "if (c) {\n  $$$ARGS\n}\n",
  "\n $A",
];

fn gen_template(rng: &mut Rng) -> String {
  let pieces = ["$A", "$B", "$$$ARGS", "$$$REST", "$C", "$$A", "$", "$$", "x", "é", " ", "  ", "\n", "\n  ", "\n      ", "(", ")", ",", "\t", "\r\n", "_1", "b"];
  let n = 1 + rng.below(9);
  let mut s = String::new();
  for _ in 0..n {
    s.push_str(*rng.pick(&pieces[..]));
  }
  s
}

fn env_json(env: &MetaVarEnv<StrDoc<SupportLang>>) -> Value {
  let mut single: BTreeMap<String, (usize, usize)> = BTreeMap::new();
  let mut multi: BTreeMap<String, (usize, usize)> = BTreeMap::new();
  let mut trans: BTreeMap<String, String> = BTreeMap::new();
  for v in env.get_matched_variables() {
    match v {
      MetaVariable::Capture(n, _) => {
        if let Some(node) = env.get_match(&n) {
          let r = node.range();
          single.insert(n.clone(), (r.start, r.end));
        }
        if let Some(b) = env.get_transformed(&n) {
          trans.insert(n.clone(), hex(b));
        }
      }
      MetaVariable::MultiCapture(n) => {
        let nodes = env.get_multiple_matches(&n);
        if !nodes.is_empty() {
          multi.insert(n.clone(), (nodes[0].range().start, nodes[nodes.len() - 1].range().end));
        }
      }
      _ => {}
    }
  }
  json!({
    "single": single.iter().map(|(k, (s, e))| json!([k, s, e])).collect::<Vec<_>>(),
    "multi": multi.iter().map(|(k, (s, e))| json!([k, s, e])).collect::<Vec<_>>(),
    "trans": trans.iter().map(|(k, h)| json!([k, h])).collect::<Vec<_>>(),
  })
}

fn var_bytes_json(env: &MetaVarEnv<StrDoc<SupportLang>>, kind: &str, name: &str) -> Value {
  let var = match kind {
    "cap" => MetaVariable::Capture(name.to_string(), true),
    "mcap" => MetaVariable::MultiCapture(name.to_string()),
    "drop" => MetaVariable::Dropped(true),
    _ => MetaVariable::Multiple,
  };
  guard(|| match env.get_var_bytes(&var) {
    Some(b) => json!(hex(b)),
    None => Value::Null,
  })
}

/// `get_var_bytes` of every interesting variable of the k-th match of the YAML rule
fn r_get_var_bytes_yaml(yaml: &str, src: &str, k: usize, kind: &str, name: &str) -> Option<(Value, Value)> {
  let globals = GlobalRules::default();
  let rules = from_yaml_string::<SupportLang>(yaml, &globals).ok()?;
  let rule = rules.into_iter().next()?;
  let grep = rule.language.ast_grep(src);
  let nm = grep.root().find_all(&rule.matcher).nth(k)?;
  Some((env_json(nm.get_env()), var_bytes_json(nm.get_env(), kind, name)))
}

fn r_get_var_bytes_pattern(lang: SupportLang, src: &str, pat: &str, k: usize, kind: &str, name: &str) -> Option<(Value, Value)> {
  let grep = lang.ast_grep(src);
  let pattern = Pattern::try_new(pat, lang).ok()?;
  let nm = grep.root().find_all(&pattern).nth(k)?;
  Some((env_json(nm.get_env()), var_bytes_json(nm.get_env(), kind, name)))
}

fn lang_of(name: &str) -> Option<SupportLang> {
  SupportLang::all_langs().iter().find(|l| l.to_string() == name).copied()
}

/// the k-th match of `pat` in `src`, expanded with `tmpl` (core API)
fn r_template_fix_pattern(lang: SupportLang, src: &str, pat: &str, k: usize, tmpl: &str, tr: &[String]) -> Option<(Value, Value, usize)> {
  let grep = lang.ast_grep(src);
  let root = grep.root();
  let pattern = Pattern::try_new(pat, lang).ok()?;
  let nm = root.find_all(&pattern).nth(k)?;
  let env = env_json(nm.get_env());
  let start = nm.range().start;
  let r = guard(|| {
    let fix = if tr.is_empty() {
      TemplateFix::try_new(tmpl, &lang).expect("template")
    } else {
      TemplateFix::with_transform(tmpl, &lang, tr)
    };
    json!(hex(&fix.generate_replacement(&nm)))
  });
  Some((env, r, start))
}

/// the k-th match of the YAML rule (with `transform` and string `fix`) in `src` (config API)
fn r_template_fix_yaml(yaml: &str, src: &str, k: usize) -> Option<(Value, Value, usize, Vec<String>)> {
  let globals = GlobalRules::default();
  let rules = match from_yaml_string::<SupportLang>(yaml, &globals) {
    Ok(r) => r,
    Err(e) => {
      if std::env::var("AGV_DEBUG").is_ok() {
        eprintln!("yaml rule rejected: {e:?}\n{yaml}");
      }
      return None;
    }
  };
  let rule = rules.into_iter().next()?;
  let grep = rule.language.ast_grep(src);
  let root = grep.root();
  let nm = root.find_all(&rule.matcher).nth(k)?;
  let env = env_json(nm.get_env());
  let start = nm.range().start;
  let mut keys: Vec<String> = rule.transform.as_ref().map(|t| t.keys().cloned().collect()).unwrap_or_default();
  keys.sort();
  let r = guard(|| {
    let fixer = rule.get_fixer().ok().flatten().expect("fixer");
    json!(hex(&fixer.generate_replacement(&nm)))
  });
  Some((env, r, start, keys))
}

fn find_node<'r>(root: N<'r>, start: usize, end: usize) -> Option<N<'r>> {
  root.dfs().find(|n| n.range().start == start && n.range().end == end)
}

/// `MetaVarEnv::insert_transformation` with the source variable bound to the node
/// `[ns, ne)` (`bind` = 0 unbound, 1 single, 2 multi = the node's children)
fn r_insert_transformation(lang: SupportLang, src: &str, ns: usize, ne: usize, bind: u64, slice: &[u8]) -> Option<(Value, Option<usize>)> {
  let grep = lang.ast_grep(src);
  let node = find_node(grep.root(), ns, ne)?;
  let mut env = MetaVarEnv::new();
  let mut anchor = None;
  let var = match bind {
    1 => {
      env.insert("A", node.clone())?;
      anchor = Some(node.range().start);
      MetaVariable::Capture("A".into(), true)
    }
    2 => {
      let kids: Vec<_> = node.children().collect();
      anchor = kids.first().map(|k| k.range().start);
      env.insert_multi("A", kids)?;
      MetaVariable::MultiCapture("A".into())
    }
    _ => MetaVariable::Capture("A".into(), true),
  };
  let r = guard(|| {
    env.insert_transformation(&var, "T", slice.to_vec());
    json!(hex(env.get_transformed("T").expect("stored")))
  });
  Some((r, anchor))
}


fn ext_of(lang: SupportLang) -> &'static str {
  match lang {
    SupportLang::JavaScript => "js",
    SupportLang::TypeScript => "ts",
    SupportLang::Tsx => "tsx",
    SupportLang::Python => "py",
    SupportLang::Rust => "rs",
    SupportLang::Go => "go",
    SupportLang::Java => "java",
    _ => "txt",
  }
}

/// run a command with a wall-clock limit; `None` = it had to be killed (outcome "hang")
fn run_timeout(mut cmd: std::process::Command, secs: u64) -> Option<std::process::Output> {
  use std::process::Stdio;
  let mut child = cmd.stdin(Stdio::null()).stdout(Stdio::piped()).stderr(Stdio::piped()).spawn().ok()?;
  let t0 = std::time::Instant::now();
  loop {
    match child.try_wait() {
      Ok(Some(_)) => return child.wait_with_output().ok(),
      Ok(None) => {
        if t0.elapsed().as_secs() >= secs {
          let _ = child.kill();
          let _ = child.wait();
          return None;
        }
        std::thread::sleep(std::time::Duration::from_millis(5));
      }
      Err(_) => return None,
    }
  }
}

/// the real CLI: `agv-sg run -p PAT -r TMPL -l LANG --json=compact FILE`; first match.
/// Only single captures are read back from the JSON (its `multi` lists are filtered).
fn r_template_fix_cli(lang: SupportLang, src: &str, pat: &str, tmpl: &str) -> Option<(Value, Value, usize)> {
  let exe = std::env::current_exe().ok()?.parent()?.join("agv-sg");
  let dir = tempfile::tempdir().ok()?;
  let file = dir.path().join(format!("t.{}", ext_of(lang)));
  std::fs::write(&file, src).ok()?;
  let mut cmd = std::process::Command::new(exe);
  cmd.arg("run").arg("-p").arg(pat).arg("-r").arg(tmpl).arg("-l").arg(lang.to_string()).arg("--json=compact").arg(&file);
  let Some(out) = run_timeout(cmd, 30) else {
    return Some((json!({"single": [], "multi": [], "trans": []}), json!("hang"), 0));
  };
  let v: Value = serde_json::from_slice(&out.stdout).ok()?;
  let m = v.as_array()?.first()?.clone();
  let start = m["range"]["byteOffset"]["start"].as_u64()? as usize;
  let mut single: Vec<Value> = vec![];
  if let Some(obj) = m["metaVariables"]["single"].as_object() {
    let mut names: Vec<&String> = obj.keys().collect();
    names.sort();
    for n in names {
      let r = &obj[n]["range"]["byteOffset"];
      single.push(json!([n, r["start"], r["end"]]));
    }
  }
  if m["metaVariables"]["multi"].as_object().is_some_and(|o| !o.is_empty()) {
    return None;
  }
  let rep = m["replacement"].as_str()?;
  Some((json!({"single": single, "multi": [], "trans": []}), json!(hex(rep.as_bytes())), start))
}

/// "literal template text is copied unchanged": a template without any `$` is its own expansion, in
/// every language — also when it contains the character the language uses internally for meta
/// variables (`_` in C / C++ / CSS, `z` in HTML, `µ` elsewhere) in front of capital letters
fn template_literals(o: &mut Out) {
  let literals = [
    "MAX_BUF_SIZE", "__func__()", "a_B + _C", "var(--theme_Main, red)", "get_Name(x)", "zA zB zzZ", "µA µ_ µµµ", "plain text, no variables", "_", "__A",
    "é 中 𝒳_X", "CHECK_X(compute(total), 0);",
  ];
  let mut cases = 0usize;
  for l in SupportLang::all_langs() {
    let grep = l.ast_grep("a");
    let nm: ast_grep_core::NodeMatch<ast_grep_core::StrDoc<SupportLang>> = grep.root().into();
    for t in literals {
      cases += 1;
      let r = guard(|| {
        let fix = TemplateFix::try_new(t, l).expect("template");
        json!(String::from_utf8_lossy(&fix.generate_replacement(&nm)).to_string())
      });
      if r != json!(t) {
        o.oracle("template-literal", false, json!({"fp": format!("fix template: text without a variable is not copied unchanged, expando={}", l.expando_char()),
          "lang": l.to_string(), "template": t, "replacement": r}));
      }
    }
  }
  o.oracle("template-literal", true, json!({"cases": cases}));
}

pub fn template_fix(ctx: &Ctx, rng: &mut Rng, o: &mut Out) {
  template_literals(o);
  let mut cli_budget: usize = if ctx.thorough { 600 } else { 80 };
  let mut cli_tick = 0usize;
  let indents: &[usize] = if ctx.thorough { &[0, 1, 2, 3, 4, 5, 6, 7, 8, 9, 10, 11, 12] } else { &[0, 1, 2, 3, 4, 6, 8, 12] };
  let reps = if ctx.thorough { 12 } else { 3 };
  let per_src = if ctx.thorough { 10 } else { 6 };
  let no_tr: Vec<String> = vec![];
  for sp in specs(ctx.thorough) {
    for &ind in indents {
      for &style in STYLES {
        if style == Style::LongLine && sp.comment.is_none() {
          continue;
        }
        for _ in 0..reps {
          let src = gen_source(&sp, rng, ind, style);
          for _ in 0..per_src {
            let pat = *rng.pick(PATTERNS);
            let tmpl = if rng.chance(2, 3) { rng.pick(TEMPLATES).to_string() } else { gen_template(rng) };
            let k = 0;
            if let Some((env, r, start)) = r_template_fix_pattern(src.lang, &src.text, pat, k, &tmpl, &no_tr) {
              o.op(
                "template_fix",
                json!({"via": "pattern", "lang": src.lang.to_string(), "pat": pat, "k": k, "ind": src.ind, "style": format!("{:?}", src.style),
                  "src": hex(src.text.as_bytes()), "start": start, "env": env, "tmpl": hex(tmpl.as_bytes()), "tr": no_tr}),
                r,
              );
            }
          }
          // MetaVarEnv::get_var_bytes on the captures of one match
          {
            let pat = *rng.pick(PATTERNS);
            for (kind, name) in [("cap", "A"), ("cap", "B"), ("mcap", "ARGS"), ("mcap", "REST"), ("cap", "ARGS"), ("mcap", "A"), ("drop", ""), ("multi", "")] {
              if let Some((env, r)) = r_get_var_bytes_pattern(src.lang, &src.text, pat, 0, kind, name) {
                o.op("get_var_bytes", json!({"via": "pattern", "lang": src.lang.to_string(), "pat": pat, "k": 0, "src": hex(src.text.as_bytes()), "env": env, "kind": kind, "name": name}), r);
              }
            }
          }
          // rule + transform + string fix (Fixer::with_transform, insert_transformation)
          if matches!(sp.lang, SupportLang::JavaScript | SupportLang::Python | SupportLang::Rust) {
            // (`1ST`: a transformation may be called anything; a digit-first name after the sigil is a
            // variable exactly when a transformation of that name exists — `$100` stays literal text)
            let fixes = ["bar(\n  $B,\n    $U, $S)", "$U", "  $B\n$A", "[$$$L]\n      $B", "$B$Q$U", "$$$L|$L|$S", "emit($1ST, $S, $100)", "$1ST$U"];
            for _ in 0..2 {
            let fix = *rng.pick(&fixes[..]);
            let yaml = format!(
              "id: t\nlanguage: {}\nrule: {{any: [{{pattern: 'foo($A)'}}, {{pattern: 'zzz($Q)'}}]}}\ntransform:\n  B: {{replace: {{source: $A, replace: '[0-9a-z]', by: \"9\\n  8\"}}}}\n  U: {{convert: {{source: $A, toCase: upperCase}}}}\n  1ST: {{convert: {{source: $A, toCase: upperCase}}}}\n  S: {{substring: {{source: $A, startChar: 1, endChar: -1}}}}\n  L: {{replace: {{source: $Q, replace: 'x', by: 'y'}}}}\nfix: {}\n",
              sp.lang,
              serde_json::to_string(fix).unwrap()
            );
            for (kind, name) in [("cap", "A"), ("cap", "B"), ("cap", "U"), ("cap", "L"), ("cap", "Q"), ("mcap", "B")] {
              if let Some((env, r)) = r_get_var_bytes_yaml(&yaml, &src.text, 0, kind, name) {
                o.op("get_var_bytes", json!({"via": "yaml", "yaml": yaml, "k": 0, "src": hex(src.text.as_bytes()), "env": env, "kind": kind, "name": name}), r);
              }
            }
            if let Some((env, r, start, keys)) = r_template_fix_yaml(&yaml, &src.text, 0) {
              o.op(
                "template_fix",
                json!({"via": "yaml", "yaml": yaml, "k": 0, "ind": src.ind, "style": format!("{:?}", src.style),
                  "src": hex(src.text.as_bytes()), "start": start, "env": env, "tmpl": hex(fix.as_bytes()), "tr": keys}),
                r,
              );
            }
            }
          }
          // the same through the real CLI (`--json` field `replacement`), a bounded number of runs
          cli_tick += 1;
          if cli_budget > 0 && cli_tick % 3 == 0 {
            let pat = if rng.chance(1, 2) { "foo($A)" } else { "foo($A, $B)" };
            let tmpl = rng.pick(TEMPLATES).to_string();
            if !tmpl.starts_with('-') {
              if let Some((env, r, start)) = r_template_fix_cli(src.lang, &src.text, pat, &tmpl) {
                cli_budget -= 1;
                o.op(
                  "template_fix",
                  json!({"via": "cli", "lang": src.lang.to_string(), "pat": pat, "ind": src.ind, "style": format!("{:?}", src.style),
                    "src": hex(src.text.as_bytes()), "start": start, "env": env, "tmpl": hex(tmpl.as_bytes()), "tr": no_tr}),
                  r,
                );
              }
            }
          }
          // insert_transformation on a few nodes of this source
          let grep = src.lang.ast_grep(&src.text);
          let nodes: Vec<(usize, usize)> = grep.root().dfs().map(|n| (n.range().start, n.range().end)).collect();
          for _ in 0..3 {
            let (ns, ne) = *rng.pick(&nodes);
            let bind = rng.below(3) as u64;
            let slice = gen_text(rng, 8);
            if let Some((r, anchor)) = r_insert_transformation(src.lang, &src.text, ns, ne, bind, slice.as_bytes()) {
              o.op(
                "insert_transformation",
                json!({"lang": src.lang.to_string(), "src": hex(src.text.as_bytes()), "ns": ns, "ne": ne, "bind": bind,
                  "anchor": anchor, "slice": hex(slice.as_bytes())}),
                r,
              );
            }
          }
        }
      }
    }
  }
}

// ---------------------------------------------------------------------------------------
// property oracles (reference semantics from the documentation)

/// number of leading U+0020 of a line
fn lead(l: &[u8]) -> usize {
  l.iter().take_while(|b| **b == b' ').count()
}

/// documented "meta-var source indentation": the indentation of the line the node starts on;
/// on a "long line" (offset far into its line) the documented result is 0.
/// `None` = too close to the undocumented threshold to say which of the two applies.
fn site_indent(src: &[u8], start: usize) -> Option<usize> {
  let line_start = src[..start].iter().rposition(|b| *b == b'\n').map(|p| p + 1).unwrap_or(0);
  let off = start - line_start;
  if off > 520 {
    return Some(0);
  }
  if off >= 500 {
    return None;
  }
  Some(lead(&src[line_start..start]))
}

fn lines_of(t: &[u8]) -> Vec<&[u8]> {
  t.split(|b| *b == b'\n').collect()
}

/// the property's quantifier guard: every continuation line is indented at least as far as
/// the line the snippet starts on (so no blank continuation line when that is > 0)
fn well_indented(t: &[u8], ind: usize) -> bool {
  lines_of(t)[1..].iter().all(|l| lead(l) >= ind)
}

/// input class of the repaired defect e39e245: the snippet itself begins with at least `d > 0` spaces
fn first_line_begins_with(t: &[u8], d: usize) -> bool {
  d > 0 && lead(lines_of(t)[0]) >= d
}

/// reference: shift every continuation line by `n` spaces
fn shift_lines(t: &[u8], n: usize) -> Vec<u8> {
  let mut out = vec![];
  for (i, l) in lines_of(t).iter().enumerate() {
    if i > 0 {
      out.push(b'\n');
      out.extend(std::iter::repeat(b' ').take(n));
    }
    out.extend_from_slice(l);
  }
  out
}

fn gen_fix(tmpl: &str, lang: SupportLang, nm: &NodeMatch<StrDoc<SupportLang>>) -> Option<Vec<u8>> {
  std::panic::catch_unwind(std::panic::AssertUnwindSafe(|| {
    TemplateFix::try_new(tmpl, &lang).expect("template").generate_replacement(nm)
  }))
  .ok()
}

pub fn oracle(ctx: &Ctx, rng: &mut Rng, o: &mut Out) {
  // accepted rules with literal expected replacements: variables captured in every place a variable can be
  // captured, transformations chained in every name order (the replacement is C07's subject)
  crate::units::checkvar::c12_fix_witnesses(o);
  let indents: &[usize] = if ctx.thorough { &[0, 1, 2, 3, 4, 5, 6, 7, 8, 9, 10, 11, 12] } else { &[0, 1, 2, 4, 7, 12] };
  let reps = if ctx.thorough { 10 } else { 2 };
  let (mut n_self, mut n_self_outside, mut n_shift, mut n_verb, mut n_long) = (0usize, 0usize, 0usize, 0usize, 0usize);
  for sp in specs(ctx.thorough) {
    for &ind in indents {
      for &style in STYLES {
        if style == Style::LongLine && sp.comment.is_none() {
          continue;
        }
        for _ in 0..reps {
          let src = gen_source(&sp, rng, ind, style);
          let bytes = src.text.as_bytes();
          let grep = src.lang.ast_grep(&src.text);
          let root = grep.root();
          let nodes: Vec<N> = root.dfs().filter(|n| !n.range().is_empty()).collect();
          let class = |multi: bool| format!("lang={} style={:?} ind>0={} multiline={}", src.lang, src.style, src.ind > 0, multi);
          // ---- rewriting a node to itself is a no-op
          for node in &nodes {
            let r = node.range();
            let text = &bytes[r.clone()];
            let multi = text.contains(&b'\n');
            let Some(i_src) = site_indent(bytes, r.start) else {
              n_long += 1;
              continue;
            };
            if !well_indented(text, i_src) {
              n_self_outside += 1;
              continue;
            }
            let mut env = MetaVarEnv::new();
            env.insert("A", node.clone());
            let nm = NodeMatch::new(node.clone(), env);
            let got = gen_fix("$A", src.lang, &nm);
            n_self += 1;
            if got.as_deref() != Some(text) {
              o.oracle(
                "rewrite-to-self",
                false,
                json!({"fp": if multi && first_line_begins_with(text, i_src) { "rewrite-to-self first-line-begins-with-indent".to_string() } else { format!("rewrite-to-self {}", class(multi)) }, "src": src.text, "start": r.start, "end": r.end,
                  "expected": String::from_utf8_lossy(text), "actual": got.map(|g| String::from_utf8_lossy(&g).to_string())}),
              );
            }
          }
          // ---- relative indentation: capture N inserted at template column c, match site M
          let multis: Vec<&N> = nodes.iter().filter(|n| bytes[n.range()].contains(&b'\n')).collect();
          for _ in 0..8 {
            if multis.is_empty() {
              break;
            }
            let cap = *rng.pick(&multis);
            let site = rng.pick(&nodes);
            let c = rng.below(9);
            let (Some(i_src), Some(i_m)) = (site_indent(bytes, cap.range().start), site_indent(bytes, site.range().start)) else {
              continue;
            };
            let text = &bytes[cap.range()];
            if !well_indented(text, i_src) {
              continue;
            }
            // the same variable a second time at ANOTHER column (half of the cases): every use is
            // re-indented for its own slot
            let c2: Option<usize> = if rng.chance(1, 2) { Some((c + 1 + rng.below(7)) % 9) } else { None };
            let tmpl = match c2 {
              None => format!("g(\n{}$A\n)", " ".repeat(c)),
              Some(d) => format!("g(\n{}$A\n{}$A\n)", " ".repeat(c), " ".repeat(d)),
            };
            let mut env = MetaVarEnv::new();
            env.insert("A", (*cap).clone());
            let nm = NodeMatch::new(site.clone(), env);
            let got = gen_fix(&tmpl, src.lang, &nm);
            // reference: the snippet's continuation lines lose i_src and gain c + i_m spaces;
            // the template's own continuation lines gain i_m
            let ls = lines_of(text);
            let mut expected: Vec<u8> = b"g(".to_vec();
            for col in std::iter::once(c).chain(c2) {
              expected.push(b'\n');
              expected.extend(std::iter::repeat(b' ').take(i_m + col));
              expected.extend_from_slice(ls[0]);
              for l in &ls[1..] {
                expected.push(b'\n');
                expected.extend(std::iter::repeat(b' ').take(i_m + col));
                expected.extend_from_slice(&l[i_src..]);
              }
            }
            expected.push(b'\n');
            expected.extend(std::iter::repeat(b' ').take(i_m));
            expected.push(b')');
            n_shift += 1;
            let ok_full = got.as_deref() == Some(&expected[..]);
            // the property's own clause, line by line: lead(out_i) - (c + i_m) = lead(l_i) - i_src
            let ok_rel = c2.is_some() || got.as_ref().is_some_and(|g| {
              let out = lines_of(g);
              out.len() == ls.len() + 2 && (1..ls.len()).all(|i| lead(out[1 + i]) + i_src == lead(ls[i]) + c + i_m)
            });
            if !(ok_full && ok_rel) {
              o.oracle(
                "relative-indent",
                false,
                json!({"fp": if first_line_begins_with(text, i_src.saturating_sub(c)) { "relative-indent first-line-begins-with-indent".to_string() } else { format!("relative-indent {} c>0={} site>0={} src>c={} twice={}", class(true), c > 0, i_m > 0, i_src > c, c2.is_some()) },
                  "src": src.text, "cap": [cap.range().start, cap.range().end], "site": site.range().start, "tmpl": tmpl,
                  "expected": String::from_utf8_lossy(&expected), "actual": got.map(|g| String::from_utf8_lossy(&g).to_string())}),
              );
            }
          }
          // ---- verbatim: literal text copied, single-line captures inserted exactly,
          //      `$$$R` = first-to-last sibling text, unbound variables vanish
          let singles: Vec<&N> = nodes.iter().filter(|n| !bytes[n.range()].contains(&b'\n')).collect();
          for _ in 0..8 {
            if singles.is_empty() {
              break;
            }
            let a = *rng.pick(&singles);
            let site = rng.pick(&nodes);
            let Some(i_m) = site_indent(bytes, site.range().start) else { continue };
            // siblings run for $$$R: children of a node whose whole child range is single-line
            let parent = *rng.pick(&singles);
            let kids: Vec<N> = parent.children().collect();
            let run: Option<(usize, usize)> = if kids.is_empty() { None } else { Some((kids[0].range().start, kids[kids.len() - 1].range().end)) };
            let lits = ["", "x", "é中", " ", "\n", "\n  ", "(", "); ", "$lower", "\t", "a b"];
            let mut tmpl = String::new();
            let mut expected: Vec<u8> = vec![];
            let cnt = 1 + rng.below(6);
            for j in 0..cnt {
              let lit = *rng.pick(&lits[..]);
              tmpl.push_str(lit);
              expected.extend_from_slice(lit.as_bytes());
              // a variable must not be followed directly by a name character of the literal
              if j + 1 < cnt || rng.chance(1, 2) {
                match rng.below(3) {
                  0 => {
                    tmpl.push_str("$A");
                    expected.extend_from_slice(&bytes[a.range()]);
                  }
                  1 => {
                    tmpl.push_str("$$$R");
                    if let Some((s, e)) = run {
                      expected.extend_from_slice(&bytes[s..e]);
                    }
                  }
                  _ => tmpl.push_str("$UNBOUND"),
                }
                tmpl.push(';');
                expected.push(b';');
              }
            }
            let expected = shift_lines(&expected, i_m);
            let mut env = MetaVarEnv::new();
            env.insert("A", (*a).clone());
            if !kids.is_empty() {
              env.insert_multi("R", kids.clone());
            }
            let nm = NodeMatch::new(site.clone(), env);
            let got = gen_fix(&tmpl, src.lang, &nm);
            n_verb += 1;
            if got.as_deref() != Some(&expected[..]) {
              o.oracle(
                "verbatim",
                false,
                json!({"fp": format!("verbatim lang={} style={:?} site>0={} has-R={}", src.lang, src.style, i_m > 0, run.is_some()),
                  "src": src.text, "a": [a.range().start, a.range().end], "site": site.range().start, "tmpl": tmpl,
                  "expected": String::from_utf8_lossy(&expected), "actual": got.map(|g| String::from_utf8_lossy(&g).to_string())}),
              );
            }
          }
        }
      }
    }
  }
  o.oracle("rewrite-to-self-done", true, json!({"cases": n_self, "outside_quantifier": n_self_outside, "long_line_skipped": n_long}));
  o.oracle("relative-indent-done", true, json!({"cases": n_shift}));
  o.oracle("verbatim-done", true, json!({"cases": n_verb}));
  // ---- replay of the Lean witnesses (`AGV.C07.blank_line_counterexample`,
  // `under_indented_counterexample`, `first_line_kept_end_to_end`) on the real code: outside the
  // quantifier the no-op clause really fails, exactly as the model says; the third entry is the
  // regression witness of the repaired first-line defect
  let witnesses: [(&str, &str, &str); 3] = [
    ("  {\n\n  }", "{\n\n  }", "{\n  \n  }"),
    ("    {\n  a\n    }", "{\n  a\n    }", "{\n      a\n    }"),
    // regression witness of the repaired defect e39e245 (`first_line_kept_end_to_end`)
    ("  `  a\n  b`", "  a\n  b", "  a\n  b"),
  ];
  for (src, node_text, model_says) in witnesses {
    let grep = SupportLang::JavaScript.ast_grep(src);
    let start = src.find(node_text).unwrap();
    let node = find_node(grep.root(), start, start + node_text.len());
    let got = node.and_then(|n| {
      let mut env = MetaVarEnv::new();
      env.insert("A", n.clone());
      gen_fix("$A", SupportLang::JavaScript, &NodeMatch::new(n, env))
    });
    let ok = got.as_deref() == Some(model_says.as_bytes());
    o.oracle(
      "witness-replay",
      ok,
      json!({"fp": format!("witness-replay {src:?}"), "cases": 1, "src": src, "model": model_says,
        "actual": got.map(|g| String::from_utf8_lossy(&g).to_string())}),
    );
  }
}

// ---------------------------------------------------------------------------------------
// replay

pub fn exec(op: &str, a: &Value) -> Option<Value> {
  let hx = |k: &str| unhex(a[k].as_str().unwrap_or(""));
  let nat = |k: &str| a[k].as_u64().unwrap_or(0) as usize;
  let opt = |k: &str| a[k].as_u64().map(|x| x as usize);
  let text = |k: &str| String::from_utf8_lossy(&hx(k)).to_string();
  Some(match op {
    "indent_at" => r_indent_at(&hx("s")),
    "indent_lines" => r_indent_lines(nat("indent"), opt("multi"), &hx("s")),
    "remove_indent" => r_remove_indent(nat("indent"), &hx("s")),
    "extract_deindent" => r_extract(&text("c"), nat("start"), nat("end")),
    "formatted_slice" => r_formatted(&hx("slice"), &text("c"), nat("start")),
    "template_fix" => {
      let src = text("src");
      let tmpl = text("tmpl");
      if a["via"] == "cli" {
        let lang = lang_of(a["lang"].as_str()?)?;
        r_template_fix_cli(lang, &src, a["pat"].as_str()?, &tmpl).map(|x| x.1).unwrap_or(json!("nomatch"))
      } else if a["via"] == "yaml" {
        r_template_fix_yaml(a["yaml"].as_str()?, &src, nat("k")).map(|x| x.1).unwrap_or(json!("nomatch"))
      } else {
        let tr: Vec<String> = a["tr"].as_array().map(|v| v.iter().filter_map(|x| x.as_str().map(String::from)).collect()).unwrap_or_default();
        let lang = lang_of(a["lang"].as_str()?)?;
        r_template_fix_pattern(lang, &src, a["pat"].as_str()?, nat("k"), &tmpl, &tr).map(|x| x.1).unwrap_or(json!("nomatch"))
      }
    }
    "get_var_bytes" => {
      let src = text("src");
      let (kind, name) = (a["kind"].as_str()?, a["name"].as_str()?);
      if a["via"] == "yaml" {
        r_get_var_bytes_yaml(a["yaml"].as_str()?, &src, nat("k"), kind, name).map(|x| x.1).unwrap_or(json!("nomatch"))
      } else {
        let lang = lang_of(a["lang"].as_str()?)?;
        r_get_var_bytes_pattern(lang, &src, a["pat"].as_str()?, nat("k"), kind, name).map(|x| x.1).unwrap_or(json!("nomatch"))
      }
    }
    "insert_transformation" => {
      let lang = lang_of(a["lang"].as_str()?)?;
      r_insert_transformation(lang, &text("src"), nat("ns"), nat("ne"), a["bind"].as_u64().unwrap_or(0), &hx("slice"))
        .map(|x| x.0)
        .unwrap_or(json!("nonode"))
    }
    _ => return None,
  })
}
