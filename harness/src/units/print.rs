//! C16 units: byte/line/column arithmetic, `display_context`, JSON records, JSON framing and the
//! plain-text report -- at function level (public Node API + `verif-hooks` of the cli crate) and
//! end to end through the real CLI (`agv-sg`, always with a timeout).
use super::Ctx;
use crate::util::*;
use ast_grep::verif_hooks as cli;
use ast_grep_config::{from_yaml_string, Fixer, GlobalRules};
use ast_grep_core::meta_var::MetaVariable;
use ast_grep_core::source::Content;
use ast_grep_core::{Language, Pattern};
use ast_grep_language::SupportLang;
use serde_json::{json, Map, Value};
use std::collections::BTreeMap;
use std::path::{Path, PathBuf};
use std::str::FromStr;
use std::time::{Duration, Instant};

// ------------------------------------------------------------------------------------------
// generators
// ------------------------------------------------------------------------------------------

#[derive(Clone, Copy)]
struct LangSpec {
  name: &'static str,
  ext: &'static str,
  patterns: &'static [&'static str],
  /// node kinds used as `kind:` rules for `scan`
  kinds: &'static [&'static str],
}
const LANGS: &[LangSpec] = &[
  LangSpec {
    name: "JavaScript",
    ext: "js",
    patterns: &["foo($A)", "foo($$$ARGS)", "let $X = $Y", "$F($$$)", "\"é\""],
    kinds: &["comment", "string", "call_expression"],
  },
  LangSpec {
    name: "C",
    ext: "c",
    patterns: &["#define $A $B", "f($A)", "#include <a.h>", "int $X = $Y;"],
    kinds: &["preproc_def", "preproc_include", "comment"],
  },
  LangSpec {
    name: "Python",
    ext: "py",
    patterns: &["print($A)", "print($$$ARGS)", "$X = $Y"],
    kinds: &["comment", "string", "call"],
  },
];

fn lang_of(name: &str) -> SupportLang {
  SupportLang::from_str(name).expect("lang")
}

fn pick_s<'a>(rng: &mut Rng, xs: &[&'a str]) -> &'a str {
  xs[rng.below(xs.len())]
}

fn long_filler(rng: &mut Rng, bytes: usize) -> String {
  let unit = *rng.pick(&["x", "é", "中", "𝒳", "ab ", "ก", "\u{800}", "\u{7FF}", "\u{FFFD}", "\u{10000}"]);
  unit.repeat(bytes / unit.len() + 1)
}

/// one statement of the language; `nl` is the line terminator of this file
fn gen_stmt(rng: &mut Rng, lang: &LangSpec, nl: &str, long: Option<usize>) -> String {
  let js_args = ["1", "\"é\"", "'𝒳𝒳'", "a + b", "foo(2)", "x", "\"\"", "变量", "`t𝒳`", "'ก'", "\"\u{800}\u{7FF}\"", "'\u{FFF}\u{1000}'"];
  let ids = ["x", "é", "变量", "_a1", "yy"];
  if let Some(n) = long {
    let fill = long_filler(rng, n);
    return match lang.name {
      "JavaScript" => match rng.below(3) {
        0 => format!("/* {fill} */ foo(1)"),
        1 => format!("foo(\"{fill}\")"),
        _ => format!("let é = \"{fill}\"; foo(é)"),
      },
      "C" => format!("/* {fill} */ int x = f(1);"),
      _ => format!("print(\"{fill}\")"),
    };
  }
  match lang.name {
    "JavaScript" => {
      let a = pick_s(rng, &js_args);
      let b = pick_s(rng, &js_args);
      let id = pick_s(rng, &ids);
      match rng.below(11) {
        0 => format!("foo({a})"),
        1 => format!("foo({a}, {b})"),
        2 => format!("foo({nl}  {a},{nl}  {b}{nl})"),
        3 => format!("let {id} = foo({a});"),
        4 => format!("let {id} = {a};"),
        5 => format!("// cømment 中𝒳 foo(1)"),
        6 => format!("/* multi{nl} line 𝒳 */"),
        7 => format!("bar(foo({a}))"),
        8 => format!("`tpl{nl}é ${{foo({a})}}`"),
        9 => format!("foo({a}); foo({b})"),
        _ => String::new(),
      }
    }
    "C" => {
      let id = pick_s(rng, &["X", "Y1", "é", "zz"]);
      let a = pick_s(rng, &["1", "\"é\"", "x", "f(2)", "'c'"]);
      match rng.below(9) {
        0 => "#include <a.h>".to_string(),
        1 => format!("#define {id} {a}"),
        2 => format!("int {id} = f({a});"),
        3 => format!("// cømment 中𝒳"),
        4 => format!("int main() {{{nl}  f({a});{nl}  f(1); f(2);{nl}}}"),
        5 => format!("/* multi{nl} line 𝒳 */"),
        6 => format!("#define {id}"),
        7 => format!("int {id} = {a};"),
        _ => String::new(),
      }
    }
    _ => {
      let a = pick_s(rng, &["1", "\"é\"", "'𝒳𝒳'", "a + b", "print(2)", "x"]);
      let id = pick_s(rng, &["x", "é", "变量", "_a1"]);
      match rng.below(8) {
        0 => format!("print({a})"),
        1 => format!("print({a}, {a})"),
        2 => format!("{id} = {a}"),
        3 => format!("# cømment 中𝒳 print(1)"),
        4 => format!("def f():{nl}    print({a}){nl}    {id} = {a}"),
        5 => format!("print({nl}    {a},{nl}    {a}{nl})"),
        6 => format!("\"\"\"doc{nl}𝒳 string\"\"\""),
        _ => String::new(),
      }
    }
  }
}

/// a source text: multi-byte characters, LF / CRLF / mixed, optional BOM, with or without final
/// newline, matches at offset 0 and at EOF, optionally one very long line
fn gen_source(rng: &mut Rng, lang: &LangSpec, long: Option<usize>) -> String {
  let mode = rng.below(6); // 0-2 LF, 3-4 CRLF, 5 mixed
  let n = 1 + rng.below(7);
  let long_at = long.map(|_| rng.below(n));
  let mut s = String::new();
  if rng.chance(1, 20) {
    s.push('\u{feff}');
  }
  if rng.chance(1, 8) {
    s.push_str(if mode >= 3 { "\r\n" } else { "\n" });
  }
  for i in 0..n {
    let nl = match mode {
      0..=2 => "\n",
      3 | 4 => "\r\n",
      _ => {
        if rng.chance(1, 2) {
          "\r\n"
        } else {
          "\n"
        }
      }
    };
    let l = if long_at == Some(i) { long } else { None };
    s.push_str(&gen_stmt(rng, lang, nl, l));
    if i + 1 < n {
      // mostly a line break; sometimes the next statement stays on the line
      match rng.below(10) {
        0 if lang.name != "Python" => s.push_str("; "),
        1 => {
          s.push_str(nl);
          s.push_str(nl);
        }
        _ => s.push_str(nl),
      }
    } else if rng.chance(1, 2) {
      s.push_str(nl);
    }
  }
  s
}

fn contexts(rng: &mut Rng) -> (u16, u16) {
  match rng.below(6) {
    0 | 1 => (0, 0),
    2 => (rng.below(4) as u16, 0),
    3 => (0, rng.below(4) as u16),
    4 => {
      let c = rng.below(4) as u16;
      (c, c)
    }
    _ => (rng.below(4) as u16, rng.below(4) as u16),
  }
}

/// all distinct node ranges of the tree, in pre-order
fn node_ranges(src: &str, lang: SupportLang) -> Vec<(usize, usize)> {
  let grep = lang.ast_grep(src);
  let mut out: Vec<(usize, usize)> = vec![];
  for n in grep.root().dfs() {
    let r = n.range();
    if !out.contains(&(r.start, r.end)) {
      out.push((r.start, r.end));
    }
  }
  out
}

fn ranges_json(rs: &[(usize, usize)]) -> Value {
  Value::Array(rs.iter().map(|(s, e)| json!([s, e])).collect())
}
fn ranges_of(v: &Value) -> Vec<(usize, usize)> {
  v.as_array()
    .map(|a| {
      a.iter()
        .map(|p| (p[0].as_u64().unwrap_or(0) as usize, p[1].as_u64().unwrap_or(0) as usize))
        .collect()
    })
    .unwrap_or_default()
}

/// a pre-order subset of the node ranges (nested nodes and duplicates included)
fn pick_subset(rng: &mut Rng, all: &[(usize, usize)], max: usize) -> Vec<(usize, usize)> {
  if all.is_empty() {
    return vec![];
  }
  let k = 1 + rng.below(max.min(all.len()));
  let mut idx: Vec<usize> = (0..k).map(|_| rng.below(all.len())).collect();
  idx.sort();
  idx.iter().map(|i| all[*i]).collect()
}

// ------------------------------------------------------------------------------------------
// the real functions, one per op (also used by `exec` for replay)
// ------------------------------------------------------------------------------------------

fn do_char_column(a: &Value) -> Value {
  let src = a["src"].as_str().unwrap_or("").to_string();
  let offs = a["offs"].as_array().cloned().unwrap_or_default();
  Value::Array(
    offs
      .iter()
      .map(|o| {
        let off = o.as_u64().unwrap_or(0) as usize;
        guard(|| json!(Content::get_char_column(&src, 0, off)))
      })
      .collect(),
  )
}

fn do_node_positions(a: &Value) -> Value {
  let src = a["src"].as_str().unwrap_or("");
  let lang = lang_of(a["lang"].as_str().unwrap_or("JavaScript"));
  let ranges = ranges_of(&a["ranges"]);
  let grep = lang.ast_grep(src);
  let nodes: Vec<_> = grep.root().dfs().collect();
  Value::Array(
    ranges
      .iter()
      .map(|(s, e)| {
        let Some(n) = nodes.iter().find(|n| n.range() == (*s..*e)) else {
          return json!("nonode");
        };
        guard(|| {
          let sp = n.start_pos();
          let ep = n.end_pos();
          json!([sp.line(), sp.column(n), ep.line(), ep.column(n)])
        })
      })
      .collect(),
  )
}

fn do_display_context(a: &Value) -> Value {
  let src = a["src"].as_str().unwrap_or("");
  let lang = lang_of(a["lang"].as_str().unwrap_or("JavaScript"));
  let ranges = ranges_of(&a["ranges"]);
  let b = a["b"].as_u64().unwrap_or(0) as usize;
  let af = a["a"].as_u64().unwrap_or(0) as usize;
  let grep = lang.ast_grep(src);
  let nodes: Vec<_> = grep.root().dfs().collect();
  Value::Array(
    ranges
      .iter()
      .map(|(s, e)| {
        let Some(n) = nodes.iter().find(|n| n.range() == (*s..*e)) else {
          return json!("nonode");
        };
        guard(|| {
          let d = n.display_context(b, af);
          json!([d.leading, d.matched, d.trailing, d.start_line])
        })
      })
      .collect(),
  )
}

fn canon_range(r: &Value, out: &mut Map<String, Value>) {
  out.insert("bo".into(), json!([r["byteOffset"]["start"], r["byteOffset"]["end"]]));
  out.insert("st".into(), json!([r["start"]["line"], r["start"]["column"]]));
  out.insert("en".into(), json!([r["end"]["line"], r["end"]["column"]]));
}
fn canon_node(v: &Value) -> Value {
  let mut m = Map::new();
  m.insert("text".into(), v["text"].clone());
  canon_range(&v["range"], &mut m);
  Value::Object(m)
}
/// the position-dependent fields of one JSON record of the CLI, in the driver's shape
fn canon_record(v: &Value) -> Value {
  let mut m = Map::new();
  m.insert("text".into(), v["text"].clone());
  m.insert("lines".into(), v["lines"].clone());
  m.insert("cc".into(), json!([v["charCount"]["leading"], v["charCount"]["trailing"]]));
  canon_range(&v["range"], &mut m);
  let mv = match v.get("metaVariables") {
    None | Some(Value::Null) => Value::Null,
    Some(mv) => {
      let mut single = Map::new();
      for (k, n) in mv["single"].as_object().cloned().unwrap_or_default() {
        single.insert(k, canon_node(&n));
      }
      let mut multi = Map::new();
      for (k, ns) in mv["multi"].as_object().cloned().unwrap_or_default() {
        let arr = ns.as_array().cloned().unwrap_or_default();
        multi.insert(k, Value::Array(arr.iter().map(canon_node).collect()));
      }
      json!({"single": single, "multi": multi})
    }
  };
  m.insert("mv".into(), mv);
  let ro = match v.get("replacementOffsets") {
    None | Some(Value::Null) => Value::Null,
    Some(r) => json!([r["start"], r["end"]]),
  };
  m.insert("ro".into(), ro);
  Value::Object(m)
}

fn do_json_matches(a: &Value) -> Value {
  let src = a["src"].as_str().unwrap_or("");
  let lang = lang_of(a["lang"].as_str().unwrap_or("JavaScript"));
  let pattern = a["pattern"].as_str();
  let ranges = ranges_of(&a["ranges"]);
  let b = a["b"].as_u64().unwrap_or(0) as u16;
  let af = a["a"].as_u64().unwrap_or(0) as u16;
  guard(|| {
    let buf = cli::json_matches(src, lang, pattern, &ranges, "compact", (b, af), "f");
    let mut whole = vec![b'['];
    whole.extend_from_slice(&buf);
    whole.push(b']');
    match serde_json::from_slice::<Vec<Value>>(&whole) {
      Ok(v) => Value::Array(v.iter().map(canon_record).collect()),
      Err(e) => json!({"unparsable": e.to_string()}),
    }
  })
}

/// `path:num:text` / `--` lines of a plain-text report, keyed by file name
fn parse_report(out: &[u8], names: &[String]) -> Result<BTreeMap<String, Vec<Value>>, String> {
  let mut res: BTreeMap<String, Vec<Value>> = BTreeMap::new();
  let mut cur: Option<String> = None;
  let text = String::from_utf8_lossy(out).to_string();
  let mut lines: Vec<&str> = text.split('\n').collect();
  if lines.last() == Some(&"") {
    lines.pop();
  } else if !lines.is_empty() {
    return Err("output does not end with a newline".into());
  }
  for line in lines {
    if line == "--" {
      match &cur {
        Some(c) => res.get_mut(c).unwrap().push(json!(["sep"])),
        None => return Err("separator before any entry".into()),
      }
      continue;
    }
    let Some(name) = names.iter().find(|n| line.starts_with(&format!("{n}:"))) else {
      return Err(format!("line without a known path prefix: {line:?}"));
    };
    let rest = &line[name.len() + 1..];
    let Some(colon) = rest.find(':') else {
      return Err(format!("no line number: {line:?}"));
    };
    let Ok(num) = rest[..colon].parse::<u64>() else {
      return Err(format!("bad line number: {line:?}"));
    };
    cur = Some(name.clone());
    res.entry(name.clone()).or_default().push(json!(["e", num, &rest[colon + 1..]]));
  }
  Ok(res)
}

fn do_prefix_report(a: &Value) -> Value {
  let src = a["src"].as_str().unwrap_or("");
  let lang = lang_of(a["lang"].as_str().unwrap_or("JavaScript"));
  let ranges = ranges_of(&a["ranges"]);
  let b = a["b"].as_u64().unwrap_or(0) as u16;
  let af = a["a"].as_u64().unwrap_or(0) as u16;
  guard(|| {
    let out = cli::prefix_report(src, lang, None, &ranges, (b, af), "f");
    match parse_report(&out, &["f".to_string()]) {
      Ok(mut m) => Value::Array(m.remove("f").unwrap_or_default()),
      Err(e) => json!({"unparsable": e}),
    }
  })
}

/// split the printer's output into the framing tokens `[ ] , n` and whole top-level objects
fn tokenize(out: &[u8]) -> Result<Vec<(char, std::ops::Range<usize>)>, String> {
  let mut toks = vec![];
  let mut i = 0;
  while i < out.len() {
    match out[i] {
      b'[' => toks.push(('[', i..i + 1)),
      b']' => toks.push((']', i..i + 1)),
      b',' => toks.push((',', i..i + 1)),
      b'\n' => toks.push(('n', i..i + 1)),
      b'{' => {
        let start = i;
        let (mut depth, mut in_str, mut esc) = (0usize, false, false);
        loop {
          if i >= out.len() {
            return Err("unterminated object".into());
          }
          let c = out[i];
          if in_str {
            if esc {
              esc = false;
            } else if c == b'\\' {
              esc = true;
            } else if c == b'"' {
              in_str = false;
            }
          } else if c == b'"' {
            in_str = true;
          } else if c == b'{' || c == b'[' {
            depth += 1;
          } else if c == b'}' || c == b']' {
            depth -= 1;
            if depth == 0 {
              break;
            }
          }
          i += 1;
        }
        toks.push(('r', start..i + 1));
      }
      c => return Err(format!("unexpected byte {c:#x} at top level, offset {i}")),
    }
    i += 1;
  }
  Ok(toks)
}

fn frame_doc(i: usize) -> Value {
  // record payloads contain every framing character inside strings and nested values
  json!({"i": i, "s": "a,b]\n[{\"}", "l": [1, {"k": "]"}], "o": {}})
}

fn toks_json(out: &[u8], named: bool) -> Value {
  match tokenize(out) {
    Err(e) => json!({"unparsable": e}),
    Ok(toks) => Value::Array(
      toks
        .iter()
        .map(|(c, r)| {
          if *c == 'r' {
            if !named {
              return json!("r");
            }
            match serde_json::from_slice::<Value>(&out[r.clone()]) {
              Ok(v) => json!(format!("r{}", v["i"])),
              Err(_) => json!("r?"),
            }
          } else {
            json!(c.to_string())
          }
        })
        .collect(),
    ),
  }
}

fn do_json_frame(a: &Value) -> Value {
  let style = a["style"].as_str().unwrap_or("compact");
  let ks: Vec<usize> = a["bufs"]
    .as_array()
    .map(|v| v.iter().map(|k| k.as_u64().unwrap_or(0) as usize).collect())
    .unwrap_or_default();
  guard(|| {
    let mut next = 0;
    let mut buffers = vec![];
    for k in &ks {
      let docs: Vec<Value> = (next..next + k).map(frame_doc).collect();
      next += k;
      buffers.push(cli::json_print_docs(style, docs));
    }
    let out = cli::json_frame(style, buffers);
    toks_json(&out, true)
  })
}

fn do_print_docs(a: &Value) -> Value {
  let style = a["style"].as_str().unwrap_or("compact");
  let k = a["k"].as_u64().unwrap_or(0) as usize;
  guard(|| {
    let out = cli::json_print_docs(style, (0..k).map(frame_doc).collect());
    toks_json(&out, true)
  })
}

// ------------------------------------------------------------------------------------------
// end to end through the real CLI
// ------------------------------------------------------------------------------------------

pub enum CliOut {
  Done { stdout: Vec<u8>, #[allow(dead_code)] code: Option<i32> },
  Hang,
}

fn sg_bin() -> PathBuf {
  let exe = std::env::current_exe().expect("current_exe");
  exe.parent().expect("bin dir").join("agv-sg")
}

/// run the real CLI with a wall-clock timeout; stdout goes to a file (no pipe dead-lock)
pub fn run_cli(args: &[String], cwd: &Path, timeout: Duration) -> CliOut {
  let out_path = cwd.join(".agv-stdout");
  let out_file = std::fs::File::create(&out_path).expect("stdout file");
  let mut child = std::process::Command::new(sg_bin())
    .args(args)
    .current_dir(cwd)
    .stdin(std::process::Stdio::null())
    .stdout(std::process::Stdio::from(out_file))
    .stderr(std::process::Stdio::null())
    .env("NO_COLOR", "1")
    .spawn()
    .expect("spawn agv-sg");
  let deadline = Instant::now() + timeout;
  loop {
    match child.try_wait() {
      Ok(Some(st)) => {
        let stdout = std::fs::read(&out_path).unwrap_or_default();
        let _ = std::fs::remove_file(&out_path);
        return CliOut::Done { stdout, code: st.code() };
      }
      Ok(None) => {
        if Instant::now() > deadline {
          let _ = child.kill();
          let _ = child.wait();
          let _ = std::fs::remove_file(&out_path);
          return CliOut::Hang;
        }
        std::thread::sleep(Duration::from_millis(3));
      }
      Err(_) => return CliOut::Hang,
    }
  }
}

fn write_files(dir: &Path, files: &[Value]) -> Vec<String> {
  let mut names = vec![];
  for f in files {
    let name = f["name"].as_str().unwrap_or("x").to_string();
    std::fs::write(dir.join(&name), f["src"].as_str().unwrap_or("")).expect("write file");
    names.push(name);
  }
  names
}

fn context_args(b: u64, af: u64, args: &mut Vec<String>) {
  if b == af && b > 0 {
    args.push("-C".into());
    args.push(b.to_string());
  } else {
    if b > 0 {
      args.push("-B".into());
      args.push(b.to_string());
    }
    if af > 0 {
      args.push("-A".into());
      args.push(af.to_string());
    }
  }
}

/// `agv-sg run|scan … --json=<style>`: returns (raw stdout) or hang
fn cli_json_raw(a: &Value) -> Option<Vec<u8>> {
  let dir = tempfile::tempdir().expect("tempdir");
  let files = a["files"].as_array().cloned().unwrap_or_default();
  let names = write_files(dir.path(), &files);
  let style = a["style"].as_str().unwrap_or("compact");
  let mut args: Vec<String> = vec![];
  if a["cmd"] == "scan" {
    args.push("scan".into());
    args.push("--inline-rules".into());
    args.push(a["rule"].as_str().unwrap_or("").to_string());
  } else {
    args.push("run".into());
    args.push("-p".into());
    args.push(a["pattern"].as_str().unwrap_or("").to_string());
    args.push("-l".into());
    args.push(a["lang"].as_str().unwrap_or("").to_string());
    if let Some(r) = a["rewrite"].as_str() {
      args.push("-r".into());
      args.push(r.to_string());
    }
  }
  match a["style_arg"].as_str() {
    Some(s) => args.push(s.to_string()),
    None => args.push(format!("--json={style}")),
  }
  context_args(a["b"].as_u64().unwrap_or(0), a["a"].as_u64().unwrap_or(0), &mut args);
  if let Some(j) = a["threads"].as_u64() {
    args.push("-j".into());
    args.push(j.to_string());
  }
  args.extend(names);
  match run_cli(&args, dir.path(), Duration::from_secs(20)) {
    CliOut::Hang => None,
    CliOut::Done { stdout, .. } => Some(stdout),
  }
}

/// parse the CLI's JSON output the way a consumer would: a JSON array, or one object per line
fn parse_cli_json(style: &str, out: &[u8]) -> Result<Vec<Value>, String> {
  if style == "stream" {
    let text = std::str::from_utf8(out).map_err(|e| e.to_string())?;
    let mut res = vec![];
    let mut lines: Vec<&str> = text.split('\n').collect();
    if lines.last() == Some(&"") {
      lines.pop();
    }
    for l in lines {
      let v: Value = serde_json::from_str(l).map_err(|e| format!("line {l:?}: {e}"))?;
      if !v.is_object() {
        return Err("line is not an object".into());
      }
      res.push(v);
    }
    Ok(res)
  } else {
    serde_json::from_slice::<Vec<Value>>(out).map_err(|e| e.to_string())
  }
}

fn cli_json_result(a: &Value, out: &Option<Vec<u8>>) -> Value {
  let Some(out) = out else {
    return json!("hang");
  };
  let style = a["style"].as_str().unwrap_or("compact");
  let recs = match parse_cli_json(style, out) {
    Ok(r) => r,
    Err(e) => return json!({"unparsable": e}),
  };
  let mut by_file: BTreeMap<String, Vec<Value>> = BTreeMap::new();
  for r in &recs {
    by_file
      .entry(r["file"].as_str().unwrap_or("?").to_string())
      .or_default()
      .push(canon_record(r));
  }
  json!({"frame": toks_json(out, false), "records": by_file})
}

fn do_cli_json(a: &Value) -> Value {
  cli_json_result(a, &cli_json_raw(a))
}

fn cli_text_raw(a: &Value) -> Option<Vec<u8>> {
  let dir = tempfile::tempdir().expect("tempdir");
  let files = a["files"].as_array().cloned().unwrap_or_default();
  let names = write_files(dir.path(), &files);
  let mut args: Vec<String> = vec![
    "run".into(),
    "-p".into(),
    a["pattern"].as_str().unwrap_or("").to_string(),
    "-l".into(),
    a["lang"].as_str().unwrap_or("").to_string(),
    "--color".into(),
    "never".into(),
    "--heading".into(),
    "never".into(),
  ];
  context_args(a["b"].as_u64().unwrap_or(0), a["a"].as_u64().unwrap_or(0), &mut args);
  args.extend(names);
  match run_cli(&args, dir.path(), Duration::from_secs(20)) {
    CliOut::Hang => None,
    CliOut::Done { stdout, .. } => Some(stdout),
  }
}

fn cli_text_result(a: &Value, out: &Option<Vec<u8>>) -> Value {
  let Some(out) = out else {
    return json!("hang");
  };
  let names: Vec<String> = a["files"]
    .as_array()
    .map(|fs| fs.iter().map(|f| f["name"].as_str().unwrap_or("").to_string()).collect())
    .unwrap_or_default();
  match parse_report(out, &names) {
    Ok(m) => json!(m),
    Err(e) => json!({"unparsable": e}),
  }
}

fn do_cli_text(a: &Value) -> Value {
  cli_text_result(a, &cli_text_raw(a))
}

// ------------------------------------------------------------------------------------------
// what the library API says the matches are (input of the model for record-level ops)
// ------------------------------------------------------------------------------------------

fn env_json<'t>(nm: &ast_grep_core::NodeMatch<'t, ast_grep_core::StrDoc<SupportLang>>) -> Value {
  let env = nm.get_env();
  let mut single: Vec<Value> = vec![];
  let mut multi: Vec<Value> = vec![];
  let mut any = false;
  for v in env.get_matched_variables() {
    any = true;
    match v {
      MetaVariable::Capture(n, _) => {
        if let Some(node) = env.get_match(&n) {
          let r = node.range();
          single.push(json!([n, r.start, r.end]));
        }
      }
      MetaVariable::MultiCapture(n) => {
        let nodes = env.get_multiple_matches(&n);
        let rs: Vec<Value> = nodes.iter().map(|x| json!([x.range().start, x.range().end])).collect();
        multi.push(json!([n, rs]));
      }
      _ => {}
    }
  }
  if !any {
    return Value::Null;
  }
  single.sort_by_key(|v| v[0].as_str().unwrap_or("").to_string());
  multi.sort_by_key(|v| v[0].as_str().unwrap_or("").to_string());
  json!({"single": single, "multi": multi})
}

/// matches of a pattern by the library (pre-order), as `{s,e,mv,ro}`; `ro` = the replaced range
/// of `make_edit` (C06's subject; here only carried through to check the CLI's glue)
fn lib_matches(src: &str, lang: SupportLang, pattern: &str, rewrite: Option<&str>) -> Vec<Value> {
  let grep = lang.ast_grep(src);
  let pat = Pattern::new(pattern, lang);
  let fixer = rewrite.map(|r| Fixer::from_str(r, &lang).expect("fixer"));
  grep
    .root()
    .find_all(&pat)
    .map(|nm| {
      let r = nm.range();
      let ro = match &fixer {
        Some(f) => {
          let ed = nm.make_edit(&pat, f);
          json!([ed.position, ed.position + ed.deleted_length])
        }
        None => Value::Null,
      };
      json!({"s": r.start, "e": r.end, "mv": env_json(&nm), "ro": ro})
    })
    .collect()
}

/// an HTML page around a script: the start tag on one line or spread over several (positions inside
/// the embedded document are positions in the FILE, whatever the tag looks like)
fn html_page(rng: &mut Rng, js: &str) -> String {
  let tag = pick_s(rng, &["<script>", "<script\n  type=\"module\"\n  defer>", "<script type=\"module\"\r\n>", "<script\n>", "<script   >"]);
  let style = pick_s(rng, &["<style>a { color: red }</style>", "<style\n  media=\"print\">\na { color: red }\n</style>"]);
  let head = pick_s(rng, &["<html>\n<body>\n<p>é 中</p>\n", "", "<!-- é -->"]);
  format!("{head}{tag}{js}</script>\n{style}\n<script\n\n>foo(1)</script>\n")
}

/// `lib_matches` for the JavaScript documents embedded in an HTML page (`get_injections`), in file order
fn lib_matches_embedded(src: &str, pattern: &str, rewrite: Option<&str>) -> Vec<Value> {
  let host = SupportLang::Html.ast_grep(src);
  let lang = SupportLang::JavaScript;
  let pat = Pattern::new(pattern, lang);
  let fixer = rewrite.map(|r| Fixer::from_str(r, &lang).expect("fixer"));
  let mut out = vec![];
  for doc in host.inner.get_injections(|s| SupportLang::from_str(s).ok()) {
    if *doc.lang() != lang {
      continue;
    }
    for nm in doc.root().find_all(&pat) {
      let r = nm.range();
      let ro = match &fixer {
        Some(f) => {
          let ed = nm.make_edit(&pat, f);
          json!([ed.position, ed.position + ed.deleted_length])
        }
        None => Value::Null,
      };
      out.push(json!({"s": r.start, "e": r.end, "mv": env_json(&nm), "ro": ro}));
    }
  }
  out.sort_by_key(|m| m["s"].as_u64().unwrap_or(0));
  out
}

/// matches of a one-rule YAML by the library
fn lib_rule_matches(src: &str, lang: SupportLang, yaml: &str) -> Vec<Value> {
  let globals = GlobalRules::default();
  let rules = from_yaml_string::<SupportLang>(yaml, &globals).expect("rule loads");
  let rule = &rules[0];
  let grep = lang.ast_grep(src);
  grep
    .root()
    .find_all(&rule.matcher)
    .map(|nm| {
      let r = nm.range();
      let ro = match &rule.matcher.fixer {
        Some(f) => {
          let ed = nm.make_edit(&rule.matcher, f);
          json!([ed.position, ed.position + ed.deleted_length])
        }
        None => Value::Null,
      };
      json!({"s": r.start, "e": r.end, "mv": env_json(&nm), "ro": ro})
    })
    .collect()
}

// ------------------------------------------------------------------------------------------
// oracles: the property's own statement, from the documentation, on the implementation's output
// ------------------------------------------------------------------------------------------

struct LineTable {
  starts: Vec<usize>,
  len: usize,
}
impl LineTable {
  fn new(src: &str) -> Self {
    let mut starts = vec![0];
    for (i, c) in src.char_indices() {
      if c == '\n' {
        starts.push(i + 1);
      }
    }
    LineTable { starts, len: src.len() }
  }
  /// zero-based line of a byte offset
  fn line_of(&self, off: usize) -> usize {
    self.starts.partition_point(|s| *s <= off) - 1
  }
  /// offset just after the last byte of line `l`, terminator excluded
  fn line_end(&self, l: usize) -> usize {
    if l + 1 < self.starts.len() {
      self.starts[l + 1] - 1
    } else {
      self.len
    }
  }
}

/// zero-based (line, character column) of byte offset `off`, by counting characters
fn doc_position(src: &str, lt: &LineTable, off: usize) -> Option<(u64, u64)> {
  if off > src.len() || !src.is_char_boundary(off) {
    return None;
  }
  let l = lt.line_of(off);
  Some((l as u64, src[lt.starts[l]..off].chars().count() as u64))
}

fn check_node(src: &str, lt: &LineTable, n: &Value, what: &str) -> Result<(), String> {
  let s = n["bo"][0].as_u64().ok_or("no offset")? as usize;
  let e = n["bo"][1].as_u64().ok_or("no offset")? as usize;
  if !(s <= e && e <= src.len() && src.is_char_boundary(s) && src.is_char_boundary(e)) {
    return Err(format!("{what}: byteOffset {s}..{e} is not a range of the file"));
  }
  if n["text"].as_str() != Some(&src[s..e]) {
    return Err(format!("{what}: text differs from the file bytes at {s}..{e}"));
  }
  let (sl, sc) = doc_position(src, lt, s).ok_or("pos")?;
  let (el, ec) = doc_position(src, lt, e).ok_or("pos")?;
  if n["st"] != json!([sl, sc]) {
    return Err(format!("{what}: start {} but offset {s} is line {sl} column {sc}", n["st"]));
  }
  if n["en"] != json!([el, ec]) {
    return Err(format!("{what}: end {} but offset {e} is line {el} column {ec}", n["en"]));
  }
  Ok(())
}

/// one canonical record against the file content and the requested context
fn check_record(src: &str, rec: &Value, before: usize, after: usize) -> Result<(), String> {
  let lt = LineTable::new(src);
  check_node(src, &lt, rec, "match")?;
  let s = rec["bo"][0].as_u64().unwrap() as usize;
  let e = rec["bo"][1].as_u64().unwrap() as usize;
  // whole lines from (start line - before) to (end line + after), clipped to the file
  let first = lt.line_of(s).saturating_sub(before);
  let last = (lt.line_of(e) + after).min(lt.starts.len() - 1);
  let (ls, te) = (lt.starts[first], lt.line_end(last));
  if rec["lines"].as_str() != Some(&src[ls..te]) {
    return Err(format!("lines is not the whole lines {first}..={last} of the file"));
  }
  let lead = src[ls..s].chars().count() as u64;
  let trail = src[e..te].chars().count() as u64;
  if rec["cc"] != json!([lead, trail]) {
    return Err(format!("charCount {} but {lead} characters precede and {trail} follow", rec["cc"]));
  }
  if let Some(mv) = rec["mv"].as_object() {
    for (k, n) in mv["single"].as_object().cloned().unwrap_or_default() {
      check_node(src, &lt, &n, &format!("metaVariables.single.{k}"))?;
    }
    for (k, ns) in mv["multi"].as_object().cloned().unwrap_or_default() {
      for n in ns.as_array().cloned().unwrap_or_default() {
        check_node(src, &lt, &n, &format!("metaVariables.multi.{k}"))?;
      }
    }
  }
  if let Some(ro) = rec["ro"].as_array() {
    let (rs, re) = (ro[0].as_u64().unwrap_or(u64::MAX) as usize, ro[1].as_u64().unwrap_or(u64::MAX) as usize);
    if !(rs <= re && re <= src.len() && src.is_char_boundary(rs) && src.is_char_boundary(re)) {
      return Err(format!("replacementOffsets {rs}..{re} is not a range of the file"));
    }
  }
  Ok(())
}

/// strict reading of "`lines` is the whole lines covering the match (plus context)": the lines
/// that hold a byte of the match -- a node ending right after a newline does not cover the next line
fn check_lines_cover(src: &str, rec: &Value, before: usize, after: usize) -> Result<(), String> {
  let lt = LineTable::new(src);
  let s = rec["bo"][0].as_u64().unwrap_or(0) as usize;
  let e = rec["bo"][1].as_u64().unwrap_or(0) as usize;
  if !(s <= e && e <= src.len()) {
    return Err("range".into());
  }
  let first = lt.line_of(s).saturating_sub(before);
  let last_covered = if e > s { lt.line_of(e - 1) } else { lt.line_of(s) };
  let last = (last_covered + after).min(lt.starts.len() - 1);
  let (ls, te) = (lt.starts[first], lt.line_end(last));
  if !(src.is_char_boundary(ls) && src.is_char_boundary(te)) || rec["lines"].as_str() != Some(&src[ls..te]) {
    return Err(format!("lines is not exactly the lines {first}..={last} that the match (and context) covers"));
  }
  Ok(())
}

fn cover_fp(src: &str, s: usize, e: usize) -> String {
  if e > s && src.as_bytes().get(e - 1) == Some(&b'\n') {
    "json-lines:match-ends-with-newline".to_string()
  } else {
    "json-lines:other".to_string()
  }
}

/// input class of a record failure: what kind of text, where the match sits
fn record_fp(src: &str, s: usize, e: usize, before: usize, after: usize) -> String {
  let multibyte = !src.is_ascii();
  let crlf = src.contains("\r\n");
  let ends_nl = e > s && src.as_bytes().get(e - 1) == Some(&b'\n');
  let at0 = s == 0;
  let at_eof = e == src.len();
  format!(
    "json-record:mb={}:crlf={}:endsnl={}:at0={}:eof={}:ctx={}",
    multibyte as u8, crlf as u8, ends_nl as u8, at0 as u8, at_eof as u8, (before + after > 0) as u8
  )
}

/// every `path:num:text` entry carries the text of line `num` (1-based) of the file; the line
/// terminator (`\n` or `\r\n`) is not part of the text
fn check_report(src: &str, entries: &[Value]) -> Result<(), String> {
  let lt = LineTable::new(src);
  for ent in entries {
    if ent[0] != "e" {
      continue;
    }
    let num = ent[1].as_u64().unwrap_or(0) as usize;
    let text = ent[2].as_str().unwrap_or("");
    if num == 0 || num > lt.starts.len() {
      return Err(format!("line number {num} is not a line of the file"));
    }
    let real = &src[lt.starts[num - 1]..lt.line_end(num - 1)];
    let real_no_cr = real.strip_suffix('\r').unwrap_or(real);
    if text != real && text != real_no_cr {
      return Err(format!("entry {num}:{text:?} but line {num} of the file is {real:?}"));
    }
  }
  Ok(())
}

fn report_fp(src: &str, ranges: &[(usize, usize)], before: usize, after: usize) -> String {
  let ends_nl = ranges
    .iter()
    .any(|(s, e)| e > s && src.as_bytes().get(e - 1) == Some(&b'\n'));
  // a `\r\r\n` whose last two bytes lie inside a match: stripped twice (matched.lines(), ret.lines())
  let b = src.as_bytes();
  let crcrlf = (0..b.len().saturating_sub(2)).any(|i| {
    &b[i..i + 3] == b"\r\r\n" && ranges.iter().any(|(s, e)| *s <= i + 1 && i + 3 <= *e)
  });
  if ends_nl {
    "text-report:match-ends-with-newline".to_string()
  } else if crcrlf {
    "text-report:cr-cr-lf-in-match".to_string()
  } else {
    format!(
      "text-report:crlf={}:ctx={}",
      src.contains("\r\n") as u8,
      (before + after > 0) as u8
    )
  }
}

/// interface facts of the abstract UTF-8 encoding used by the theorems, for Rust's encoder
fn check_utf8_interface(src: &str) -> bool {
  let mut buf = [0u8; 4];
  src.chars().all(|c| {
    let b = c.encode_utf8(&mut buf).as_bytes();
    b[0] & 0xC0 != 0x80
      && b[1..].iter().all(|x| x & 0xC0 == 0x80)
      && (b.contains(&b'\n') == (c == '\n'))
  })
}

struct Tally {
  name: &'static str,
  cases: usize,
}
impl Tally {
  fn new(name: &'static str) -> Self {
    Tally { name, cases: 0 }
  }
  fn check(&mut self, o: &mut Out, res: Result<(), String>, fp: impl FnOnce() -> String, detail: impl FnOnce() -> Value) {
    self.cases += 1;
    if let Err(e) = res {
      let mut d = detail();
      d["fp"] = json!(fp());
      d["why"] = json!(e);
      o.oracle(self.name, false, d);
    }
  }
  fn finish(self, o: &mut Out) {
    o.oracle(self.name, true, json!({"cases": self.cases}));
  }
}

// ------------------------------------------------------------------------------------------
// units
// ------------------------------------------------------------------------------------------

fn long_sizes(ctx: &Ctx) -> Vec<usize> {
  if ctx.thorough {
    vec![600, 5_000, 70_000, 140_000]
  } else {
    vec![600, 70_000]
  }
}

/// generated sources (+ hand-written edge cases + very long lines), with their language index
fn corpus(ctx: &Ctx, rng: &mut Rng, n: usize) -> Vec<(usize, String)> {
  let mut out: Vec<(usize, String)> = vec![];
  for s in [
    "", "\n", "\r\n", "foo(1)", "foo(1)\n", "\nfoo(1)", "\n\nfoo(1)\n\n", "é", "\u{feff}foo(1)",
    "foo(1)\r\n\r\nfoo(2)", "a\rb\nfoo(1)\r", "foo(\"\r\r\n\")", "foo(1);foo(2)\nfoo(3)\n\nfoo(4)\n\n\nfoo(5)",
    "𝒳𝒳\nfoo(𝒳)", "`a\n\nb` foo(`\n`)",
  ] {
    out.push((0, s.to_string()));
  }
  for s in ["#define X 1\nint x = 1;\n#define Y 2\nint y = 2;\n", "#include <a.h>", "#include <a.h>\r\n#define é 2\r\n", "#define A 1\n#define B 2\n#define C 3\n"] {
    out.push((1, s.to_string()));
  }
  for i in 0..n {
    let li = i % LANGS.len();
    out.push((li, gen_source(rng, &LANGS[li], None)));
  }
  for (i, sz) in long_sizes(ctx).into_iter().enumerate() {
    let li = i % LANGS.len();
    out.push((li, gen_source(rng, &LANGS[li], Some(sz))));
  }
  out
}

/// unit `bytes`: get_char_column at every offset, start_pos/end_pos/column of every node
pub fn bytes(ctx: &Ctx, rng: &mut Rng, o: &mut Out) {
  let n = if ctx.thorough { 15000 } else { 1500 };
  let mut utf8 = Tally::new("c16_utf8_interface");
  let mut bounds = Tally::new("c16_node_boundaries");
  for (li, src) in corpus(ctx, rng, n) {
    let lang = &LANGS[li];
    utf8.check(o, if check_utf8_interface(&src) { Ok(()) } else { Err("encoder".into()) }, || "utf8".into(), || json!({"src": src}));
    // every offset (boundaries and non-boundaries), one past the end
    let offs: Vec<usize> = if src.len() <= 400 {
      (0..=src.len() + 1).collect()
    } else {
      let mut v: Vec<usize> = (0..60).map(|_| rng.below(src.len() + 1)).collect();
      v.extend([0, 1, src.len().saturating_sub(1), src.len(), src.len() + 1]);
      v
    };
    let a = json!({"src": src, "offs": offs});
    let r = do_char_column(&a);
    o.op("char_column", a, r);
    let mut ranges = node_ranges(&src, lang_of(lang.name));
    if ranges.len() > 80 {
      ranges = pick_subset(rng, &ranges, 80);
      ranges.dedup();
    }
    let ok = ranges.iter().all(|(s, e)| s <= e && *e <= src.len() && src.is_char_boundary(*s) && src.is_char_boundary(*e));
    bounds.check(o, if ok { Ok(()) } else { Err("node boundary not on a character boundary".into()) }, || "node-boundary".into(), || json!({"src": src, "lang": lang.name}));
    let a = json!({"src": src, "lang": lang.name, "ranges": ranges_json(&ranges)});
    let r = do_node_positions(&a);
    o.op("node_positions", a, r);
  }
  utf8.finish(o);
  bounds.finish(o);
}

/// unit `print`: display_context, JSON records of one file, plain-text report of one file
pub fn print(ctx: &Ctx, rng: &mut Rng, o: &mut Out) {
  let n = if ctx.thorough { 15000 } else { 1500 };
  let mut rec_oracle = Tally::new("c16_json_fields");
  let mut cover_oracle = Tally::new("c16_json_lines_cover");
  let mut rep_oracle = Tally::new("c16_text_lines");
  // the witness of the plain-text defect repaired in /repo 0b29009 (a match ending with a
  // newline), kept as a regression input and replayed first
  {
    let src = "#define X 1\nint x = 1;\n#define Y 2\nint y = 2;\n";
    let ranges = vec![(0usize, 12usize), (23, 35)];
    let a = json!({"src": src, "lang": "C", "ranges": ranges_json(&ranges), "b": 0, "a": 0});
    let r = do_prefix_report(&a);
    let entries = r.as_array().cloned().unwrap_or_default();
    rep_oracle.check(o, check_report(src, &entries), || report_fp(src, &ranges, 0, 0), || json!({"op": "prefix_report", "a": a.clone(), "r": r.clone()}));
    o.op("prefix_report", a, r);
  }
  for (li, src) in corpus(ctx, rng, n) {
    let lang = &LANGS[li];
    let sl = lang_of(lang.name);
    let all = node_ranges(&src, sl);
    let (b, af) = contexts(rng);
    // display_context of (a sample of) all nodes
    let some = if all.len() > 40 { pick_subset(rng, &all, 40) } else { all.clone() };
    let a = json!({"src": src, "lang": lang.name, "ranges": ranges_json(&some), "b": b, "a": af});
    let r = do_display_context(&a);
    o.op("display_context", a, r);
    // JSON records: chosen nodes (no env) and a pattern (with meta-variables)
    let sub = pick_subset(rng, &all, 6);
    let ms: Vec<Value> = sub.iter().map(|(s, e)| json!({"s": s, "e": e, "mv": null, "ro": null})).collect();
    let a = json!({"src": src, "lang": lang.name, "pattern": null, "ranges": ranges_json(&sub), "b": b, "a": af, "matches": ms});
    let r = do_json_matches(&a);
    for rec in r.as_array().cloned().unwrap_or_default() {
      let (s, e) = (rec["bo"][0].as_u64().unwrap_or(0) as usize, rec["bo"][1].as_u64().unwrap_or(0) as usize);
      rec_oracle.check(o, check_record(&src, &rec, b as usize, af as usize), || record_fp(&src, s, e, b as usize, af as usize), || json!({"op": "json_matches", "a": a.clone(), "record": rec.clone()}));
      cover_oracle.check(o, check_lines_cover(&src, &rec, b as usize, af as usize), || cover_fp(&src, s, e), || json!({"op": "json_matches", "a": a.clone(), "record": rec.clone()}));
    }
    o.op("json_matches", a, r);
    let pat = pick_s(rng, lang.patterns);
    let ms = lib_matches(&src, sl, pat, None);
    let a = json!({"src": src, "lang": lang.name, "pattern": pat, "ranges": [], "b": b, "a": af, "matches": ms});
    let r = do_json_matches(&a);
    for rec in r.as_array().cloned().unwrap_or_default() {
      let (s, e) = (rec["bo"][0].as_u64().unwrap_or(0) as usize, rec["bo"][1].as_u64().unwrap_or(0) as usize);
      rec_oracle.check(o, check_record(&src, &rec, b as usize, af as usize), || record_fp(&src, s, e, b as usize, af as usize), || json!({"op": "json_matches", "a": a.clone(), "record": rec.clone()}));
      cover_oracle.check(o, check_lines_cover(&src, &rec, b as usize, af as usize), || cover_fp(&src, s, e), || json!({"op": "json_matches", "a": a.clone(), "record": rec.clone()}));
    }
    o.op("json_matches", a, r);
    // plain-text report of pre-order subsets
    for _ in 0..2 {
      let sub = pick_subset(rng, &all, 6);
      let (b, af) = contexts(rng);
      let a = json!({"src": src, "lang": lang.name, "ranges": ranges_json(&sub), "b": b, "a": af});
      let r = do_prefix_report(&a);
      if let Some(entries) = r.as_array() {
        rep_oracle.check(o, check_report(&src, entries), || report_fp(&src, &sub, b as usize, af as usize), || json!({"op": "prefix_report", "a": a.clone(), "r": r.clone()}));
      }
      o.op("prefix_report", a, r);
    }
  }
  rec_oracle.finish(o);
  cover_oracle.finish(o);
  rep_oracle.finish(o);
}

/// unit `jsonframe`: the real printer on every short sequence of buffer sizes + random long ones
pub fn jsonframe(ctx: &Ctx, rng: &mut Rng, o: &mut Out) {
  let mut wf = Tally::new("c16_json_wellformed");
  for style in ["pretty", "stream", "compact"] {
    for k in 0..5 {
      let a = json!({"style": style, "k": k});
      let r = do_print_docs(&a);
      o.op("print_docs", a, r);
    }
    // all sequences over {0,1,2,3} up to length 4 (5 thorough)
    let max_len = if ctx.thorough { 5 } else { 4 };
    let mut seqs: Vec<Vec<usize>> = vec![vec![]];
    let mut frontier: Vec<Vec<usize>> = vec![vec![]];
    for _ in 0..max_len {
      let mut next = vec![];
      for s in &frontier {
        for k in 0..4 {
          let mut t = s.clone();
          t.push(k);
          next.push(t);
        }
      }
      seqs.extend(next.iter().cloned());
      frontier = next;
    }
    let extra = if ctx.thorough { 2000 } else { 200 };
    for _ in 0..extra {
      let len = rng.below(12);
      seqs.push((0..len).map(|_| if rng.chance(1, 2) { 0 } else { rng.below(6) }).collect());
    }
    for ks in seqs {
      let a = json!({"style": style, "bufs": ks});
      // the consumer's view of the very same bytes
      let total: usize = ks.iter().sum();
      let mut next = 0;
      let mut buffers = vec![];
      for k in &ks {
        buffers.push(cli::json_print_docs(style, (next..next + k).map(frame_doc).collect()));
        next += k;
      }
      let out = cli::json_frame(style, buffers);
      let parsed = parse_cli_json(style, &out);
      let ok = match &parsed {
        Ok(v) => v.len() == total && v.iter().enumerate().all(|(i, d)| *d == frame_doc(i)),
        Err(_) => false,
      };
      wf.check(o, if ok { Ok(()) } else { Err(format!("{:?}", parsed.err())) }, || format!("json-frame:{style}:empty={}", ks.contains(&0) as u8), || json!({"op": "json_frame", "a": a.clone()}));
      let r = do_json_frame(&a);
      o.op("json_frame", a, r);
    }
  }
  wf.finish(o);
}

/// unit `c16_cli`: the real CLI on temporary files
pub fn cli_unit(ctx: &Ctx, rng: &mut Rng, o: &mut Out) {
  let n_json = if ctx.thorough { 3000 } else { 306 };
  let n_text = if ctx.thorough { 1800 } else { 180 };
  let mut wf = Tally::new("c16_cli_json_wellformed");
  let mut rec_oracle = Tally::new("c16_cli_json_fields");
  let mut cover_oracle = Tally::new("c16_cli_json_lines_cover");
  let mut rep_oracle = Tally::new("c16_cli_text_lines");
  let longs = long_sizes(ctx);
  for i in 0..n_json {
    let lang = &LANGS[i % LANGS.len()];
    let sl = lang_of(lang.name);
    let style = ["pretty", "stream", "compact"][(i / LANGS.len()) % 3];
    let scan = i % 4 == 3;
    let rewrite = i % 5 == 2;
    let (b, af) = if scan { (0, 0) } else { contexts(rng) };
    let nfiles = if rng.chance(1, 8) { 0 } else { 1 + rng.below(4) }; // 0 = only a file without matches
    let mut files: Vec<Value> = vec![];
    let pat = pick_s(rng, lang.patterns);
    let kind = pick_s(rng, lang.kinds);
    let by_kind = scan && rng.chance(1, 2);
    let rule = if by_kind {
      format!("id: r1\nlanguage: {}\nrule: {{kind: {kind}}}\n", lang.name)
    } else if rewrite {
      format!("id: r1\nlanguage: {}\nrule:\n  pattern: {}\nfix: 'zz'\n", lang.name, serde_json::to_string(pat).unwrap())
    } else {
      format!("id: r1\nlanguage: {}\nrule:\n  pattern: {}\n", lang.name, serde_json::to_string(pat).unwrap())
    };
    for k in 0..nfiles {
      let long = if i % 9 == 4 && k == 0 { Some(longs[(i / 9) % longs.len()]) } else { None };
      let src = gen_source(rng, lang, long);
      if src.is_empty() {
        continue;
      }
      let ms = if scan {
        lib_rule_matches(&src, sl, &rule)
      } else {
        lib_matches(&src, sl, pat, if rewrite { Some("zz") } else { None })
      };
      files.push(json!({"name": format!("f{k}.{}", lang.ext), "src": src, "matches": ms}));
    }
    // an HTML page with the same kind of source in a script element: the embedded document's
    // matches are reported with positions in the file
    if lang.ext == "js" && !scan && rng.chance(1, 3) {
      let js = gen_source(rng, lang, None);
      let src = html_page(rng, &js);
      let ms = lib_matches_embedded(&src, pat, if rewrite { Some("zz") } else { None });
      files.push(json!({"name": "page.html", "src": src, "matches": ms}));
    }
    // a file without any match, to exercise empty buffers
    files.push(json!({"name": format!("zz.{}", lang.ext), "src": "\n", "matches": []}));
    let mut a = json!({"cmd": if scan { "scan" } else { "run" }, "style": style, "b": b, "a": af,
      "lang": lang.ext, "pattern": pat, "files": files});
    if scan {
      a["rule"] = json!(rule);
    } else if rewrite {
      a["rewrite"] = json!("zz");
    }
    if i % 7 == 0 {
      a["threads"] = json!(1);
    }
    if style == "pretty" && i % 2 == 0 {
      a["style_arg"] = json!("--json"); // bare flag = pretty
    }
    let raw = cli_json_raw(&a);
    let r = cli_json_result(&a, &raw);
    // oracles on the raw output
    let parsed = raw.as_ref().map(|out| parse_cli_json(style, out));
    let expected: usize = files.iter().map(|f| f["matches"].as_array().map(|m| m.len()).unwrap_or(0)).sum();
    let ok = matches!(&parsed, Some(Ok(v)) if v.len() == expected);
    wf.check(o, if ok { Ok(()) } else { Err(format!("not parsable or wrong record count: {:?}", parsed.as_ref().map(|p| p.as_ref().map(|v| v.len()))) ) },
      || format!("cli-json-frame:{style}:{}", if scan { "scan" } else { "run" }), || json!({"op": "cli_json", "a": a.clone()}));
    if let Some(recs) = r["records"].as_object() {
      for (name, rs) in recs {
        let src = files.iter().find(|f| f["name"] == json!(name)).map(|f| f["src"].as_str().unwrap_or("").to_string()).unwrap_or_default();
        for rec in rs.as_array().cloned().unwrap_or_default() {
          let (s, e) = (rec["bo"][0].as_u64().unwrap_or(0) as usize, rec["bo"][1].as_u64().unwrap_or(0) as usize);
          rec_oracle.check(o, check_record(&src, &rec, b as usize, af as usize), || record_fp(&src, s, e, b as usize, af as usize),
            || json!({"op": "cli_json", "a": a.clone(), "file": name, "record": rec.clone()}));
          cover_oracle.check(o, check_lines_cover(&src, &rec, b as usize, af as usize), || cover_fp(&src, s, e),
            || json!({"op": "cli_json", "a": a.clone(), "file": name, "record": rec.clone()}));
        }
      }
    }
    o.op("cli_json", a, r);
  }
  for i in 0..n_text {
    let lang = &LANGS[i % LANGS.len()];
    let sl = lang_of(lang.name);
    let (b, af) = contexts(rng);
    let pat = pick_s(rng, lang.patterns);
    let nfiles = 1 + rng.below(3);
    let mut files: Vec<Value> = vec![];
    for k in 0..nfiles {
      let long = if i % 9 == 4 && k == 0 { Some(longs[(i / 9) % longs.len()]) } else { None };
      let src = gen_source(rng, lang, long);
      if src.is_empty() {
        continue;
      }
      let rs: Vec<(usize, usize)> = lib_matches(&src, sl, pat, None)
        .iter()
        .map(|m| (m["s"].as_u64().unwrap() as usize, m["e"].as_u64().unwrap() as usize))
        .collect();
      files.push(json!({"name": format!("f{k}.{}", lang.ext), "src": src, "ranges": ranges_json(&rs)}));
    }
    let a = json!({"b": b, "a": af, "lang": lang.ext, "pattern": pat, "files": files});
    let raw = cli_text_raw(&a);
    let r = cli_text_result(&a, &raw);
    if let Some(m) = r.as_object() {
      for f in &files {
        let name = f["name"].as_str().unwrap_or("");
        let src = f["src"].as_str().unwrap_or("");
        let entries = m.get(name).and_then(|v| v.as_array()).cloned().unwrap_or_default();
        let rs = ranges_of(&f["ranges"]);
        rep_oracle.check(o, check_report(src, &entries), || report_fp(src, &rs, b as usize, af as usize),
          || json!({"op": "cli_text", "a": a.clone(), "file": name}));
      }
    }
    o.op("cli_text", a, r);
  }
  wf.finish(o);
  rec_oracle.finish(o);
  cover_oracle.finish(o);
  rep_oracle.finish(o);
}

/// Positions inside INJECTED documents, through the real CLI: `languageInjections` of sgconfig.yml
/// (a tagged template whose tag expression spans several lines, so that the injected text starts
/// lines below the start of the host match) and the built-in HTML injections. Every reported
/// line / column (match and meta variables) equals the line count / character count computed from
/// the reported byte offset in the FILE; `text` is the file's bytes at that range.
pub fn injected_positions(_ctx: &Ctx, rng: &mut Rng, o: &mut Out) {
  let dir = tempfile::tempdir().expect("tempdir");
  let w = |rel: &str, text: &str| {
    let p = dir.path().join(rel);
    std::fs::create_dir_all(p.parent().unwrap()).unwrap();
    std::fs::write(p, text).unwrap();
  };
  w(
    "sgconfig.yml",
    "ruleDirs: [rules]\nlanguageInjections:\n- hostLanguage: js\n  rule:\n    pattern: styled.$TAG`$CONTENT`\n  injected: css\n- hostLanguage: js\n  rule:\n    pattern: styled($$$ARGS)`$CONTENT`\n  injected: css\n",
  );
  w("rules/decl.yml", "id: css-decl\nlanguage: css\nseverity: warning\nmessage: declaration\nrule: {kind: declaration}\n");
  w("rules/val.yml", "id: css-val\nlanguage: css\nseverity: hint\nmessage: value $V\nrule: {pattern: {context: 'a { margin: $V }', selector: declaration}}\n");
  w("rules/call.yml", "id: js-call\nlanguage: JavaScript\nseverity: hint\nmessage: call\nrule: {pattern: 'foo($A)'}\n");
  let mut files: Vec<(String, String)> = vec![];
  for k in 0..6 {
    let nl = if k % 3 == 2 { "\r\n" } else { "\n" };
    let lead = *rng.pick(&["", "// h\u{e9} \u{4e2d}\n", "foo('\u{1d4b3}'); "]);
    let tag = match k % 3 {
      0 => "styled.div".to_string(),
      1 => format!("styled({nl}  Button,{nl})"),
      _ => format!("styled(Button, /* \u{e9} */{nl}{nl}  Other)"),
    };
    let body = format!("{nl}  margin: 0; /* h\u{e9} */ top: 0;{nl}  /* \u{e9}\u{e9} */ padding: 1px;{nl}");
    files.push((format!("src/t{k}.js"), format!("{lead}const A{k} = {tag}`{body}`{nl}foo({k}){nl}const B{k} = styled.a`color: red;`{nl}")));
  }
  files.push(("src/page.html".into(), "<p>\u{e9}</p>\n<script\n  type=\"module\"\n>\nfoo(1); // \u{4e2d}\n  foo('\u{e9}')\n</script>\n<style\n  media=\"print\">\n.a { margin: 0; }\n</style>\n".into()));
  // one language injected under several names: each script is a document of its own
  files.push(("src/names.html".into(), "<script>foo(1)</script>\n<script lang=\"javascript\">foo(2)</script>\n<script lang=\"js\">\n  foo(3)</script>\n".into()));
  for (rel, text) in &files {
    w(rel, text);
  }
  let out = run_cli(&["scan".to_string(), "--json=stream".to_string(), "src".to_string()], dir.path(), Duration::from_secs(60));
  let mut cases = 0usize;
  let mut per_rule: BTreeMap<String, usize> = BTreeMap::new();
  let pos = |src: &str, off: usize| -> (u64, u64) {
    let before = &src[..off];
    let line = before.matches('\n').count() as u64;
    let col = before[before.rfind('\n').map(|i| i + 1).unwrap_or(0)..].chars().count() as u64;
    (line, col)
  };
  let (stdout, code) = match out {
    CliOut::Done { stdout, code } => (String::from_utf8_lossy(&stdout).to_string(), code),
    CliOut::Hang => (String::new(), None),
  };
  if code.is_none() || stdout.trim().is_empty() {
    o.oracle("injected-positions", false, json!({"fp": "scan of a project with languageInjections fails or hangs", "code": code}));
  }
  for line in stdout.lines().filter(|l| !l.trim().is_empty()) {
    let Ok(v) = serde_json::from_str::<Value>(line) else {
      o.oracle("injected-positions", false, json!({"fp": "json record does not parse", "line": line.chars().take(200).collect::<String>()}));
      continue;
    };
    let file = v["file"].as_str().unwrap_or("").trim_start_matches("./").to_string();
    let Some((_, src)) = files.iter().find(|f| f.0 == file) else { continue };
    *per_rule.entry(v["ruleId"].as_str().unwrap_or("").to_string()).or_default() += 1;
    if file == "src/names.html" {
      *per_rule.entry("js-call in names.html".to_string()).or_default() += 1;
    }
    let mut nodes: Vec<(String, Value)> = vec![("match".into(), v.clone())];
    if let Some(m) = v["metaVariables"]["single"].as_object() {
      for (k, n) in m {
        nodes.push((format!("${k}"), n.clone()));
      }
    }
    for (what, n) in nodes {
      cases += 1;
      let (s, e) = (n["range"]["byteOffset"]["start"].as_u64().unwrap_or(u64::MAX) as usize, n["range"]["byteOffset"]["end"].as_u64().unwrap_or(u64::MAX) as usize);
      if !(s <= e && e <= src.len() && src.is_char_boundary(s) && src.is_char_boundary(e)) {
        o.oracle("injected-positions", false, json!({"fp": "byte range of a record is no range of the file", "file": file, "what": what, "range": [s, e]}));
        continue;
      }
      let want = (pos(src, s), pos(src, e));
      let got = (
        (n["range"]["start"]["line"].as_u64().unwrap_or(u64::MAX), n["range"]["start"]["column"].as_u64().unwrap_or(u64::MAX)),
        (n["range"]["end"]["line"].as_u64().unwrap_or(u64::MAX), n["range"]["end"]["column"].as_u64().unwrap_or(u64::MAX)),
      );
      let text_ok = n["text"].as_str() == Some(&src[s..e]);
      if want != got || !text_ok {
        let lang = v["language"].as_str().unwrap_or("");
        o.oracle("injected-positions", false, json!({"fp": format!("position in an injected document differs from the byte offset: language={lang} rows_differ={} cols_differ={} text_ok={text_ok}", want.0 .0 != got.0 .0 || want.1 .0 != got.1 .0, want.0 .1 != got.0 .1 || want.1 .1 != got.1 .1),
          "file": file, "what": what, "bytes": [s, e], "reported": [got.0 .0, got.0 .1, got.1 .0, got.1 .1], "from_bytes": [want.0 .0, want.0 .1, want.1 .0, want.1 .1], "src": src}));
      }
    }
  }
  // every injected region is searched: 4 declarations per script file (3 in the first template,
  // 1 in the second — the regions of the two injection rules interleave) and 1 in the HTML style
  let want_decl = 6 * 4 + 1;
  if per_rule.get("css-decl").copied().unwrap_or(0) != want_decl {
    o.oracle("injected-positions", false, json!({"fp": "findings of injected documents are missing (regions of two injection rules for one language interleave)",
      "css-decl": per_rule.get("css-decl"), "expected": want_decl}));
  }
  if per_rule.get("js-call in names.html").copied().unwrap_or(0) != 3 {
    o.oracle("injected-positions", false, json!({"fp": "findings of injected documents are missing (one language injected under several names)",
      "reported": per_rule.get("js-call in names.html"), "expected": 3}));
  }
  // the generator did produce embedded matches of every kind
  for rid in ["css-decl", "css-val", "js-call"] {
    if per_rule.get(rid).copied().unwrap_or(0) == 0 {
      o.oracle("injected-positions", false, json!({"fp": format!("no record of rule {rid} in the injected documents"), "per_rule": per_rule}));
    }
  }
  o.oracle("injected-positions", true, json!({"cases": cases, "per_rule": per_rule}));
}

pub fn exec(op: &str, a: &Value) -> Option<Value> {
  Some(match op {
    "char_column" => do_char_column(a),
    "node_positions" => do_node_positions(a),
    "display_context" => do_display_context(a),
    "json_matches" => do_json_matches(a),
    "prefix_report" => do_prefix_report(a),
    "json_frame" => do_json_frame(a),
    "print_docs" => do_print_docs(a),
    "cli_json" => do_cli_json(a),
    "cli_text" => do_cli_text(a),
    _ => return None,
  })
}
