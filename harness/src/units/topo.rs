//! C13 units: the dependency sort (`TopologicalSort::get_order` through a hook and through
//! `from_yaml_string` with `utils` / `transform` maps), the dispatch order of `CombinedScan::new`.
use super::Ctx;
use crate::util::*;
use ast_grep_config::verif_hooks::topo as topo_hook;
use ast_grep_config::{from_yaml_string, CombinedScan, GlobalRules, RuleConfig};
use ast_grep_language::SupportLang;
use serde_json::{json, Value};
use std::collections::{BTreeMap, BTreeSet};

type DepMap = Vec<(String, Vec<String>)>;

/// random dependency map over keys k0..k(n-1), with unknown references u0/u1 when `unknown`
fn gen_map(rng: &mut Rng, unknown: bool, max_deps: usize) -> (DepMap, &'static str) {
  let n = 1 + rng.below(7);
  let shape = *rng.pick(&["dag", "random", "selfloop", "chain", "ring"]);
  let keys: Vec<String> = (0..n).map(|i| format!("k{i}")).collect();
  let mut m: DepMap = vec![];
  for i in 0..n {
    let mut deps: Vec<String> = vec![];
    match shape {
      "chain" => {
        if i + 1 < n {
          deps.push(keys[i + 1].clone());
        }
      }
      "ring" => deps.push(keys[(i + 1) % n].clone()),
      _ => {
        let k = rng.below(max_deps + 1);
        for _ in 0..k {
          let j = match shape {
            "dag" => {
              if i + 1 >= n {
                continue;
              }
              i + 1 + rng.below(n - i - 1)
            }
            _ => rng.below(n),
          };
          if shape == "random" && j == i && rng.chance(3, 4) {
            continue;
          }
          deps.push(keys[j].clone());
        }
        if shape == "selfloop" && rng.chance(1, 3) {
          deps.push(keys[i].clone());
        }
      }
    }
    if unknown && rng.chance(1, 5) {
      let pos = rng.below(deps.len() + 1);
      deps.insert(pos, format!("u{}", rng.below(2)));
    }
    m.push((keys[i].clone(), deps));
  }
  // random insertion order
  for i in (1..m.len()).rev() {
    let j = rng.below(i + 1);
    m.swap(i, j);
  }
  (m, shape)
}

fn order_json(r: &Result<Vec<String>, String>) -> Value {
  match r {
    Ok(o) => json!(["ok", o]),
    Err(k) => json!(["cyclic", k]),
  }
}

/// reference: keys reachable from `from` in one or more steps through keys of the map
fn reach(m: &BTreeMap<String, Vec<String>>, from: &str) -> BTreeSet<String> {
  let mut seen = BTreeSet::new();
  let mut stack: Vec<String> = m.get(from).cloned().unwrap_or_default();
  while let Some(x) = stack.pop() {
    if !m.contains_key(&x) || !seen.insert(x.clone()) {
      continue;
    }
    stack.extend(m[&x].iter().cloned());
  }
  seen
}

fn has_cycle(m: &BTreeMap<String, Vec<String>>) -> bool {
  m.keys().any(|k| reach(m, k).contains(k))
}

/// reference check of one `get_order` answer against the documentation's reading
fn check_answer(m: &BTreeMap<String, Vec<String>>, r: &Result<Vec<String>, String>) -> Option<&'static str> {
  match r {
    Ok(order) => {
      if has_cycle(m) {
        return Some("accepted-a-cycle");
      }
      let set: BTreeSet<&String> = order.iter().collect();
      if set.len() != order.len() || order.len() != m.len() || !m.keys().all(|k| set.contains(k)) {
        return Some("order-not-a-permutation-of-keys");
      }
      for (i, k) in order.iter().enumerate() {
        for d in &m[k] {
          if m.contains_key(d) && !order[..i].contains(d) {
            return Some("dependency-after-dependent");
          }
        }
      }
      None
    }
    Err(k) => {
      if !reach(m, k).contains(k) {
        Some("reported-key-not-on-cycle")
      } else {
        None
      }
    }
  }
}

fn utils_yaml(m: &DepMap) -> String {
  let mut s = String::from("id: t\nlanguage: TypeScript\nrule: {kind: number}\nutils:\n");
  for (k, deps) in m {
    if deps.is_empty() {
      s.push_str(&format!("  {k}: {{kind: number}}\n"));
    } else if deps.len() == 1 {
      s.push_str(&format!("  {k}: {{matches: {}}}\n", deps[0]));
    } else {
      let subs: Vec<String> = deps.iter().map(|d| format!("{{matches: {d}}}")).collect();
      s.push_str(&format!("  {k}: {{all: [{}]}}\n", subs.join(", ")));
    }
  }
  s
}

fn transform_yaml(m: &DepMap) -> String {
  let mut s = String::from("id: t\nlanguage: TypeScript\nrule: {pattern: 'foo($A, $B)'}\ntransform:\n");
  for (i, (k, deps)) in m.iter().enumerate() {
    let src = &deps[0];
    match i % 3 {
      0 => s.push_str(&format!("  {k}: {{substring: {{source: ${src}, startChar: 1}}}}\n")),
      1 => s.push_str(&format!("  {k}: {{replace: {{source: ${src}, replace: a, by: b}}}}\n")),
      _ => s.push_str(&format!("  {k}: {{convert: {{source: ${src}, toCase: upperCase}}}}\n")),
    }
  }
  s
}

/// "ok" | ["cyclic", key] | ["other", text]
fn yaml_verdict(yaml: &str) -> Value {
  guard(|| {
    let globals = GlobalRules::<SupportLang>::default();
    match from_yaml_string::<SupportLang>(yaml, &globals) {
      Ok(_) => json!("ok"),
      Err(e) => {
        let mut cur: Option<&dyn std::error::Error> = Some(&e);
        let mut texts = vec![];
        while let Some(x) = cur {
          let t = x.to_string();
          if t.contains("cyclic dependency") {
            let key = t.split('`').nth(1).unwrap_or("").to_string();
            return json!(["cyclic", key]);
          }
          texts.push(t);
          cur = x.source();
        }
        json!(["other", texts.join(" / ")])
      }
    }
  })
}

fn ids_rule(id: &str, fix: bool) -> String {
  format!(
    "id: {id}\nlanguage: TypeScript\nrule: {{kind: number}}\n{}",
    if fix { "fix: '0'\n" } else { "" }
  )
}

fn combined_order(rules: &[(bool, String)]) -> Value {
  guard(|| {
    let globals = GlobalRules::<SupportLang>::default();
    let yaml: Vec<String> = rules.iter().map(|(f, id)| ids_rule(id, *f)).collect();
    let configs: Vec<RuleConfig<SupportLang>> =
      from_yaml_string(&yaml.join("---\n"), &globals).expect("generated rules load");
    let scan = CombinedScan::new(configs.iter().collect());
    let order: Vec<Value> = (0..configs.len())
      .map(|i| {
        let r = scan.get_rule(i);
        json!([r.fix.is_some(), r.id])
      })
      .collect();
    json!(order)
  })
}

pub fn unit(ctx: &Ctx, rng: &mut Rng, o: &mut Out) {
  // 1. hook level: exact comparison, the iteration order of the map is part of the op
  let n = if ctx.thorough { 40_000 } else { 4_000 };
  let mut oracle_cases = 0usize;
  for _ in 0..n {
    let (m, shape) = gen_map(rng, true, 3);
    let bm: BTreeMap<String, Vec<String>> = m.iter().cloned().collect();
    let mut verdicts = BTreeSet::new();
    // several fresh HashMaps (fresh hash seeds) of the same map
    for rep in 0..3 {
      let (keys, res) = topo_hook::get_order_dump(m.clone());
      let in_order: Vec<Value> = keys.iter().map(|k| json!([k, bm[k]])).collect();
      if rep == 0 || rng.chance(1, 2) {
        o.op("topo_order", json!({"maps": in_order}), order_json(&res));
      }
      verdicts.insert(res.is_ok());
      oracle_cases += 1;
      if let Some(why) = check_answer(&bm, &res) {
        o.oracle("c13-topo", false, json!({"fp": format!("topo {why} shape={shape}"), "maps": m, "keys": keys, "answer": order_json(&res)}));
      }
    }
    if verdicts.len() > 1 {
      o.oracle("c13-topo", false, json!({"fp": format!("topo verdict-depends-on-hash-order shape={shape}"), "maps": m}));
    }
  }
  o.oracle("c13-topo", true, json!({"cases": oracle_cases}));

  // 2. through the rule loader: `utils` (matches chains) and `transform` maps
  let n = if ctx.thorough { 6_000 } else { 600 };
  let mut cases = 0usize;
  for i in 0..n {
    let kind = if i % 2 == 0 { "utils" } else { "transform" };
    let (mut m, shape) = gen_map(rng, false, if kind == "utils" { 3 } else { 1 });
    if kind == "transform" {
      // exactly one source per transformation: a key or a variable of the pattern
      for (_, deps) in m.iter_mut() {
        deps.truncate(1);
        if deps.is_empty() {
          deps.push(rng.pick(&["A", "B"]).to_string());
        }
      }
      // keys must be valid meta-variable names
      for (k, deps) in m.iter_mut() {
        *k = k.to_uppercase();
        for d in deps.iter_mut() {
          *d = d.to_uppercase();
        }
      }
    }
    let yaml = if kind == "utils" { utils_yaml(&m) } else { transform_yaml(&m) };
    let bm: BTreeMap<String, Vec<String>> = m.iter().cloned().collect();
    // the YAML is parsed into a fresh HashMap: run it a few times to see several orders
    let mut seen = BTreeSet::new();
    for _ in 0..3 {
      let v = yaml_verdict(&yaml);
      let tag = match &v {
        Value::String(s) => s.clone(),
        Value::Array(a) => a[0].as_str().unwrap_or("").to_string(),
        _ => "?".into(),
      };
      cases += 1;
      if let Some(k) = v.as_array().filter(|a| a[0] == "cyclic").map(|a| a[1].as_str().unwrap_or("").to_string()) {
        if !reach(&bm, &k).contains(&k) {
          o.oracle("c13-topo-yaml", false, json!({"fp": format!("topo-yaml reported-key-not-on-cycle kind={kind}"), "yaml": yaml, "key": k}));
        }
      }
      let expect_cyclic = has_cycle(&bm);
      if (tag == "cyclic") != expect_cyclic || (tag != "cyclic" && tag != "ok") {
        o.oracle("c13-topo-yaml", false, json!({"fp": format!("topo-yaml verdict kind={kind} shape={shape} got={tag}"), "yaml": yaml, "answer": v}));
      }
      seen.insert(tag);
    }
    let tag = seen.iter().next().cloned().unwrap_or_default();
    if seen.len() > 1 {
      o.oracle("c13-topo-yaml", false, json!({"fp": format!("topo-yaml verdict-depends-on-hash-order kind={kind}"), "yaml": yaml}));
    }
    let maps: Vec<Value> = m.iter().map(|(k, d)| json!([k, d])).collect();
    o.op("topo_yaml", json!({"kind": kind, "maps": maps}), json!(tag));
  }
  o.oracle("c13-topo-yaml", true, json!({"cases": cases}));

  // 3. dispatch order of CombinedScan::new
  let n = if ctx.thorough { 3_000 } else { 300 };
  let mut cases = 0usize;
  let names = ["a", "ab", "b", "B", "a-1", "a_1", "z", "r10", "r2", "é", "aa", "A"];
  for _ in 0..n {
    let k = 1 + rng.below(6);
    let mut pool: Vec<&str> = names.to_vec();
    let mut rules: Vec<(bool, String)> = vec![];
    for _ in 0..k {
      let id = pool.remove(rng.below(pool.len()));
      rules.push((rng.chance(1, 2), id.to_string()));
    }
    let r1 = combined_order(&rules);
    let mut perm = rules.clone();
    for i in (1..perm.len()).rev() {
      let j = rng.below(i + 1);
      perm.swap(i, j);
    }
    let r2 = combined_order(&perm);
    cases += 2;
    if r1 != r2 {
      o.oracle("c13-combined", false, json!({"fp": "combined order-depends-on-input-order", "rules": rules, "perm": perm, "a": r1, "b": r2}));
    }
    let a: Vec<Value> = rules.iter().map(|(f, id)| json!([f, id])).collect();
    o.op("combined_order", json!({"rules": a}), r1);
  }
  o.oracle("c13-combined", true, json!({"cases": cases}));
}

pub fn exec(op: &str, a: &Value) -> Option<Value> {
  let maps = || -> DepMap {
    a["maps"]
      .as_array()
      .map(|v| {
        v.iter()
          .map(|e| {
            (
              e[0].as_str().unwrap_or("").to_string(),
              e[1].as_array().map(|d| d.iter().filter_map(|x| x.as_str().map(String::from)).collect()).unwrap_or_default(),
            )
          })
          .collect()
      })
      .unwrap_or_default()
  };
  Some(match op {
    // stand-alone replay cannot force the hash order: the verdict is what is replayable
    "topo_order" => {
      // retry with fresh hash seeds until the map iterates in the recorded order
      let m = maps();
      let want: Vec<String> = m.iter().map(|(k, _)| k.clone()).collect();
      for _ in 0..20_000 {
        let (keys, res) = topo_hook::get_order_dump(m.clone());
        if keys == want {
          return Some(order_json(&res));
        }
      }
      let (_, res) = topo_hook::get_order_dump(m);
      json!({"harness_error": "recorded hash order not reproduced", "verdict": res.is_ok()})
    }
    "topo_yaml" => {
      let m = maps();
      let yaml = if a["kind"] == "utils" { utils_yaml(&m) } else { transform_yaml(&m) };
      match yaml_verdict(&yaml) {
        Value::Array(v) => v[0].clone(),
        v => v,
      }
    }
    "combined_order" => {
      let rules: Vec<(bool, String)> = a["rules"]
        .as_array()?
        .iter()
        .map(|e| (e[0].as_bool().unwrap_or(false), e[1].as_str().unwrap_or("").to_string()))
        .collect();
      combined_order(&rules)
    }
    _ => return None,
  })
}
