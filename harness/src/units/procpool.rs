//! Isolated execution for C11: every document is loaded (and, if accepted, scanned) in a child
//! process, because `catch_unwind` cannot contain aborts and stack overflows.
//!
//! Two kinds of children:
//!  * the harness re-executing itself (`agv-harness yaml_child`): a line protocol, one JSON job per
//!    line on stdin, one JSON answer per line on stdout.  The child serves jobs until it dies; the
//!    parent restarts it and attributes the death (signal / exit status / 10 s silence) to the job
//!    that was in flight.
//!  * the real CLI (`agv-sg ...`), one process per invocation, in a scratch project directory.
//!
//! Outcome enum of the property: `ok | err | panic | abort(signal) | hang`.
use serde_json::{json, Value};
use std::io::{BufRead, BufReader, Write};
use std::os::unix::process::ExitStatusExt;
use std::path::{Path, PathBuf};
use std::process::{Child, ChildStdin, Command, Stdio};
use std::sync::atomic::{AtomicUsize, Ordering};
use std::sync::mpsc::{channel, Receiver};
use std::sync::{Arc, Mutex};
use std::time::{Duration, Instant};

pub const WALL_LIMIT: Duration = Duration::from_secs(10);
/// a job that exceeded WALL_LIMIT without any sign of a panic is run once more with this limit
/// before it is called a hang (a loaded machine must not turn a slow scan into a finding)
pub const RETRY_LIMIT: Duration = Duration::from_secs(90);

/// CPU ticks (utime + stime over all threads) of a process, and whether one of its threads is
/// running, runnable or in uninterruptible I/O
pub fn proc_activity(pid: u32) -> Option<(u64, bool)> {
  let mut ticks = 0u64;
  let mut runnable = false;
  for t in std::fs::read_dir(format!("/proc/{pid}/task")).ok()? {
    let Ok(t) = t else { continue };
    let Ok(stat) = std::fs::read_to_string(t.path().join("stat")) else { continue };
    let Some((_, rest)) = stat.rsplit_once(')') else { continue };
    let f: Vec<&str> = rest.split_whitespace().collect();
    if f.len() < 13 {
      continue;
    }
    if f[0] == "R" || f[0] == "D" {
      runnable = true;
    }
    ticks += f[11].parse::<u64>().unwrap_or(0) + f[12].parse::<u64>().unwrap_or(0);
  }
  Some((ticks, runnable))
}

/// A wall-clock limit has expired: is the process still doing work? A dead-locked process (every
/// thread asleep, no CPU time consumed over the window) is a hang; one that is being starved by
/// other load on the machine is only slow and gets more time (up to the caller's hard cap).
pub fn still_working(pid: u32) -> bool {
  let a = proc_activity(pid);
  let mut any = false;
  for _ in 0..6 {
    std::thread::sleep(Duration::from_millis(500));
    if let Some((_, r)) = proc_activity(pid) {
      any |= r;
    }
  }
  let b = proc_activity(pid);
  match (a, b) {
    (Some((ta, ra)), Some((tb, rb))) => tb > ta || ra || rb || any,
    _ => false,
  }
}

#[derive(Clone, Debug, PartialEq)]
pub enum Class {
  Ok,
  Err,
  Panic,
  Abort(i32),
  Hang,
}
impl Class {
  pub fn name(&self) -> String {
    match self {
      Class::Ok => "ok".into(),
      Class::Err => "err".into(),
      Class::Panic => "panic".into(),
      Class::Abort(s) => format!("abort({s})"),
      Class::Hang => "hang".into(),
    }
  }
  pub fn crashed(&self) -> bool {
    !matches!(self, Class::Ok | Class::Err)
  }
}

/// answer to one job
#[derive(Clone, Debug)]
pub struct Answer {
  /// class of the whole job (worst of load and scan)
  pub class: Class,
  /// the child's own report, when it survived (`load`, `v`, `scan`, `msg`, ...)
  pub detail: Value,
}

pub fn self_exe() -> PathBuf {
  std::env::current_exe().expect("current exe")
}
pub fn sg_bin() -> PathBuf {
  self_exe().parent().expect("bin dir").join("agv-sg")
}

struct ApiChild {
  child: Child,
  stdin: ChildStdin,
  rx: Receiver<String>,
}

fn spawn_api_child() -> ApiChild {
  let mut child = Command::new(self_exe())
    .arg("yaml_child")
    .stdin(Stdio::piped())
    .stdout(Stdio::piped())
    .stderr(Stdio::null())
    .spawn()
    .expect("spawn yaml_child");
  let stdin = child.stdin.take().expect("stdin");
  let stdout = child.stdout.take().expect("stdout");
  let (tx, rx) = channel();
  std::thread::spawn(move || {
    let rd = BufReader::new(stdout);
    for line in rd.lines() {
      match line {
        Ok(l) => {
          if tx.send(l).is_err() {
            break;
          }
        }
        Err(_) => break,
      }
    }
  });
  ApiChild { child, stdin, rx }
}

fn status_class(st: std::process::ExitStatus) -> Class {
  if let Some(sig) = st.signal() {
    return Class::Abort(sig);
  }
  match st.code() {
    Some(101) => Class::Panic,
    Some(134) => Class::Abort(6),
    Some(139) => Class::Abort(11),
    _ => Class::Panic, // the child never exits on its own while its stdin is open
  }
}

fn api_job(slot: &mut Option<ApiChild>, job: &Value) -> Answer {
  let a = api_job_with(slot, job, WALL_LIMIT);
  if matches!(a.class, Class::Hang) {
    return api_job_with(slot, job, RETRY_LIMIT);
  }
  a
}

fn api_job_with(slot: &mut Option<ApiChild>, job: &Value, limit: Duration) -> Answer {
  if slot.is_none() {
    *slot = Some(spawn_api_child());
  }
  let c = slot.as_mut().unwrap();
  let mut line = job.to_string();
  line.push('\n');
  let sent = c.stdin.write_all(line.as_bytes()).and_then(|_| c.stdin.flush());
  if sent.is_err() {
    // the child died between jobs (cannot happen with a well-behaved child): restart once
    let mut dead = slot.take().unwrap();
    let _ = dead.child.kill();
    let _ = dead.child.wait();
    *slot = Some(spawn_api_child());
    let c = slot.as_mut().unwrap();
    c.stdin.write_all(line.as_bytes()).expect("write job");
    c.stdin.flush().expect("flush job");
  }
  // first answer: the load stage; second answer (only after a successful load): the scan stage
  let first = wait_line(slot, limit);
  let load = match first {
    Ok(v) => v,
    Err(class) => return Answer { class: class.clone(), detail: json!({"load": class.name(), "stage": "load"}) },
  };
  let l = load["load"].as_str().unwrap_or("");
  if l != "ok" {
    let class = if l == "err" { Class::Err } else { Class::Panic };
    return Answer { class, detail: load };
  }
  match wait_line(slot, limit) {
    Ok(scan) => {
      let mut detail = load.clone();
      detail["scan"] = scan["scan"].clone();
      detail["matches"] = scan["matches"].clone();
      if !scan["fi"].is_null() {
        detail["fi"] = scan["fi"].clone();
      }
      if !scan["msg"].is_null() {
        detail["msg"] = scan["msg"].clone();
      }
      let class = if scan["scan"] == "ok" { Class::Ok } else { Class::Panic };
      Answer { class, detail }
    }
    Err(class) => {
      let mut detail = load.clone();
      detail["scan"] = json!(class.name());
      Answer { class, detail }
    }
  }
}

fn wait_line(slot: &mut Option<ApiChild>, limit: Duration) -> Result<Value, Class> {
  let c = slot.as_mut().unwrap();
  match c.rx.recv_timeout(limit) {
    Ok(ans) => Ok(serde_json::from_str(&ans).unwrap_or_else(|_| json!({"bad_answer": ans}))),
    Err(std::sync::mpsc::RecvTimeoutError::Timeout) => {
      // the retry stage gives a child that is demonstrably still computing two more periods
      if limit >= RETRY_LIMIT {
        for _ in 0..2 {
          if !still_working(c.child.id()) {
            break;
          }
          if let Ok(ans) = c.rx.recv_timeout(limit) {
            return Ok(serde_json::from_str(&ans).unwrap_or_else(|_| json!({"bad_answer": ans})));
          }
        }
      }
      let mut dead = slot.take().unwrap();
      let _ = dead.child.kill();
      let _ = dead.child.wait();
      Err(Class::Hang)
    }
    Err(std::sync::mpsc::RecvTimeoutError::Disconnected) => {
      // stdout closed: the child is gone (abort, stack overflow, exit)
      let mut dead = slot.take().unwrap();
      let deadline = Instant::now() + Duration::from_secs(5);
      let st = loop {
        match dead.child.try_wait() {
          Ok(Some(st)) => break Some(st),
          Ok(None) if Instant::now() < deadline => std::thread::sleep(Duration::from_millis(2)),
          _ => {
            let _ = dead.child.kill();
            break dead.child.wait().ok();
          }
        }
      };
      Err(st.map(status_class).unwrap_or(Class::Abort(0)))
    }
  }
}

thread_local! {
  /// file to connect to the standard input of the next CLI child of this worker thread
  static STDIN_FILE: std::cell::RefCell<Option<PathBuf>> = const { std::cell::RefCell::new(None) };
}

/// run the real CLI once; `files` are written below a fresh scratch directory
fn cli_job(job: &Value) -> Answer {
  let dir = tempfile::tempdir().expect("tempdir");
  let root = dir.path();
  if let Some(files) = job["files"].as_array() {
    for f in files {
      let name = f[0].as_str().unwrap_or("x");
      let p = root.join(name);
      if let Some(parent) = p.parent() {
        let _ = std::fs::create_dir_all(parent);
      }
      // content is either a string or an array of bytes (raw stream)
      match &f[1] {
        Value::String(s) => std::fs::write(&p, s).expect("write"),
        Value::Array(bytes) => {
          let b: Vec<u8> = bytes.iter().map(|x| x.as_u64().unwrap_or(0) as u8).collect();
          std::fs::write(&p, b).expect("write")
        }
        _ => {}
      }
    }
  }
  let args: Vec<String> = job["args"].as_array().map(|a| a.iter().map(|x| x.as_str().unwrap_or("").to_string()).collect()).unwrap_or_default();
  if let Some(input) = job["stdin"].as_str() {
    // standard input comes from a file (no pipe to feed, no dead-lock)
    let p = root.join(".agv-stdin");
    std::fs::write(&p, input).expect("write stdin file");
    STDIN_FILE.with(|f| *f.borrow_mut() = Some(p));
  } else {
    STDIN_FILE.with(|f| *f.borrow_mut() = None);
  }
  run_cli_class(&args, root)
}

pub fn run_cli_class(args: &[String], cwd: &Path) -> Answer {
  let a = run_cli_class_with(args, cwd, WALL_LIMIT);
  if matches!(a.class, Class::Hang) && a.detail["panicked"] != json!(true) {
    return run_cli_class_with(args, cwd, RETRY_LIMIT);
  }
  a
}

fn run_cli_class_with(args: &[String], cwd: &Path, limit: Duration) -> Answer {
  let err_path = cwd.join(".agv-stderr");
  let err_file = std::fs::File::create(&err_path).expect("stderr file");
  let mut child = Command::new(sg_bin())
    .args(args)
    .current_dir(cwd)
    .stdin(match STDIN_FILE.with(|f| f.borrow().clone()).and_then(|p| std::fs::File::open(p).ok()) {
      Some(f) => Stdio::from(f),
      None => Stdio::null(),
    })
    .stdout(Stdio::null())
    .stderr(Stdio::from(err_file))
    .env("NO_COLOR", "1")
    .env("RUST_BACKTRACE", "0")
    .spawn()
    .expect("spawn agv-sg");
  let mut deadline = Instant::now() + limit;
  let hard_cap = Instant::now() + limit * 3;
  let st = loop {
    match child.try_wait() {
      Ok(Some(st)) => break Some(st),
      Ok(None) => {
        if Instant::now() > deadline {
          if limit >= RETRY_LIMIT && Instant::now() < hard_cap && still_working(child.id()) {
            deadline = Instant::now() + Duration::from_secs(10);
            continue;
          }
          let _ = child.kill();
          let _ = child.wait();
          break None;
        }
        std::thread::sleep(Duration::from_millis(2));
      }
      Err(_) => break None,
    }
  };
  let stderr = std::fs::read(&err_path).unwrap_or_default();
  let stderr = String::from_utf8_lossy(&stderr).to_string();
  let head: String = stderr.chars().take(300).collect();
  let panicked = stderr.contains("panicked at");
  let Some(st) = st else {
    // H2-style: a panic in a walker thread leaves the consumer waiting forever
    return Answer { class: Class::Hang, detail: json!({"stderr": head, "panicked": panicked}) };
  };
  let class = if let Some(sig) = st.signal() {
    Class::Abort(sig)
  } else {
    match st.code() {
      Some(101) => Class::Panic,
      Some(134) => Class::Abort(6),
      Some(139) => Class::Abort(11),
      _ if panicked => Class::Panic,
      Some(0) | Some(3) => Class::Ok,
      // exit 1: error-severity findings (ok) or an error without context (`Error: ...`)
      Some(1) if !stderr.trim_start().starts_with("Error") || stderr.contains("found in code") => Class::Ok,
      _ => Class::Err,
    }
  };
  Answer { class, detail: json!({"code": st.code(), "stderr": head}) }
}

/// run all jobs on `nproc` workers; answers come back in job order
pub fn run_jobs(jobs: &[Value], nproc: usize) -> Vec<Answer> {
  let n = jobs.len();
  let next = Arc::new(AtomicUsize::new(0));
  let results: Arc<Mutex<Vec<Option<Answer>>>> = Arc::new(Mutex::new(vec![None; n]));
  let jobs = Arc::new(jobs.to_vec());
  let mut handles = vec![];
  for _ in 0..nproc.max(1).min(n.max(1)) {
    let next = next.clone();
    let results = results.clone();
    let jobs = jobs.clone();
    handles.push(std::thread::spawn(move || {
      let mut slot: Option<ApiChild> = None;
      loop {
        let i = next.fetch_add(1, Ordering::SeqCst);
        if i >= jobs.len() {
          break;
        }
        let job = &jobs[i];
        let ans = if job["k"] == "cli" { cli_job(job) } else { api_job(&mut slot, job) };
        results.lock().unwrap()[i] = Some(ans);
      }
      if let Some(mut c) = slot.take() {
        drop(c.stdin);
        let _ = c.child.wait();
      }
    }));
  }
  for h in handles {
    let _ = h.join();
  }
  let mut guard = results.lock().unwrap();
  guard.drain(..).map(|a| a.expect("answer")).collect()
}

pub fn nproc() -> usize {
  let n = std::thread::available_parallelism().map(|n| n.get()).unwrap_or(4);
  n.min(16)
}
