//! C12 units: accepted rules are self-consistent.
//!
//! * `c12_accept` : rule documents assembled from valid parts (five rule shapes, optional utils /
//!                  constraints / transformation chain / rewriters / fix in string or object form)
//!                  with **exactly one** perturbation (rename / remove the definition or the use of a
//!                  variable, a utility, a rewriter; make utilities or transformations cyclic through
//!                  every operator; clash a transformation key; mismatch the sigil of a fix variable;
//!                  toggle the fix form).  Loaded by the real `from_yaml_string` in an isolated child;
//!                  compared with the Lean model `Loader.load` (op `yaml_load`: class + error variant);
//!                  for accepted rules the replacement text of the first match on a matching source
//!                  is compared with the model (op `fix_apply`: `Fixer.parse` + `createTemplate` +
//!                  `replaceFixer` of Model/Template on the captures dumped from the real match).
//! * oracles (references written from the rule / fix / transformation documentation, on the JSON
//!   document, not on the code):
//!     `c12-accept-consistent`  accepted ⇒ every used variable is defined, every `matches` / rewriter
//!                              reference resolves, transformations and same-node utility references
//!                              are acyclic
//!     `c12-perturbation-rejected`  the single perturbation yields the corresponding error
//!     `c12-fix-substitutes`    accepted ∧ matched ⇒ every `$V` / `$$$V` of the fix is replaced by its
//!                              captured or transformed value (or is legitimately unbound)
//!     `c12_globals`            a fixed list of sets of GLOBAL utility rules through the real
//!                              `parse_global_utils`: undefined `matches` and same-node cycles (also
//!                              through the rule's own local utilities) are rejected, references to
//!                              other globals and recursion through relations are accepted
//! * `globals_load` (emitted by `c12_accept`): sets of global utility documents through the real
//!   `parse_global_utils` (role `util` of the API child), compared with the Lean model
//!   `Loader.loadGlobals` (class + error kind): the 22 fixed sets of `c12_globals` and generated
//!   sets of 1–4 documents (rules with local utilities, references between the globals, sections
//!   that exercise the variable checks) with one perturbation in half of them (undefined reference
//!   in the rule / a local utility / a constraint / a fix expansion, a global requiring itself
//!   through its own decorated local utilities, mutual and self reference, a cycle among local
//!   utilities, an undefined fix variable); oracle `c12_globals_generated`: a reference written
//!   from the utility-rule documentation on the JSON documents
use super::procpool::{self};
use super::yaml::{api_job, SrcPool};
use super::yaml_gen::{core_facts, doc_facts, expando_of, fix_facts, CYCLE_OPS};
use super::Ctx;
use crate::util::*;
use ast_grep_language::SupportLang;
use serde_json::{json, Map, Value};
use std::collections::{BTreeMap, BTreeSet};

const LANG: SupportLang = SupportLang::JavaScript;
const SRC: &str = "foo(abc, b1);\n";

pub struct Case {
  /// JavaScript (sigil `$` kept) or Python (sigil rewritten to the expando char inside the parser)
  pub lang: SupportLang,
  pub doc: Value,
  pub perturbation: String,
  /// expected error variant ("" = accepted)
  pub expect: String,
}

fn wrap_ref(op: &str, target: &str) -> Value {
  match op {
    "matches" => json!({"matches": target}),
    "all" => json!({"all": [{"kind": "identifier"}, {"matches": target}]}),
    "any" => json!({"any": [{"kind": "identifier"}, {"matches": target}]}),
    "not" => json!({"not": {"matches": target}}),
    "inside" => json!({"inside": {"matches": target, "stopBy": "end"}}),
    "has" => json!({"has": {"matches": target, "stopBy": "end"}}),
    "precedes" => json!({"precedes": {"matches": target, "stopBy": "end"}}),
    "follows" => json!({"follows": {"matches": target, "stopBy": "end"}}),
    "ofRule" => json!({"nthChild": {"position": 1, "ofRule": {"matches": target}}}),
    "stopBy" => json!({"inside": {"kind": "expression_statement", "stopBy": {"matches": target}}}),
    _ => json!({"has": {"kind": "identifier", "stopBy": {"matches": target}}}),
  }
}


/// add harmless sibling keys next to the referencing operator of a cycle member: the cycle must
/// be found whatever else the rule object contains (`matches` + `any` at one level, ...)
fn decorate(obj: &mut Value, op: &str, rng: &mut Rng, utils: &mut Value) {
  let n = rng.below(3);
  for _ in 0..n {
    match rng.below(8) {
      0 if op != "matches" => {
        utils["leaf"] = json!({"kind": "identifier"});
        obj["matches"] = json!("leaf");
      }
      1 => obj["kind"] = json!("identifier"),
      2 => obj["regex"] = json!("a"),
      3 if op != "not" => obj["not"] = json!({"kind": "string"}),
      4 if op != "any" => obj["any"] = json!([{"kind": "identifier"}, {"regex": "^1"}]),
      5 if op != "all" => obj["all"] = json!([{"kind": "identifier"}]),
      6 if op != "ofRule" => obj["nthChild"] = json!(1),
      7 if op != "has" && op != "stopByHas" => obj["has"] = json!({"kind": "identifier"}),
      _ => {}
    }
  }
}

/// is `op` evaluated on the same node as the rule that contains it?
fn same_node(op: &str) -> bool {
  matches!(op, "matches" | "all" | "any" | "not" | "ofRule")
}

fn rename(v: &mut Value, from: &str, to: &str) {
  match v {
    Value::String(s) => {
      // whole-variable replacement: `$A` not followed by a name character
      let mut out = String::new();
      let b = s.as_bytes();
      let mut i = 0;
      while i < b.len() {
        if b[i] == b'$' && s[i + 1..].starts_with(from) {
          let after = i + 1 + from.len();
          let cont = after < b.len() && (b[after].is_ascii_uppercase() || b[after].is_ascii_digit() || b[after] == b'_');
          if !cont {
            out.push('$');
            out.push_str(to);
            i = after;
            continue;
          }
        }
        out.push(b[i] as char);
        i += 1;
      }
      *s = out;
    }
    Value::Array(a) => a.iter_mut().for_each(|x| rename(x, from, to)),
    Value::Object(o) => o.values_mut().for_each(|x| rename(x, from, to)),
    _ => {}
  }
}

/// assemble one document; `which` selects the perturbation
pub fn assemble(rng: &mut Rng, which: usize) -> Case {
  let shape = rng.below(5);
  let multi = shape == 1;
  let mut doc = Map::new();
  doc.insert("id".into(), json!("c12"));
  let lang = if which % 3 == 2 { SupportLang::Python } else { SupportLang::JavaScript };
  doc.insert("language".into(), json!(if lang == SupportLang::Python { "Python" } else { "JavaScript" }));
  // the severity written in the file never decides whether the file is accepted
  if rng.chance(2, 3) {
    doc.insert("severity".into(), json!(rng.pick(&["off", "hint", "info", "warning", "error"])));
  }
  let rule = match shape {
    0 => json!({"pattern": "foo($A, $B)"}),
    1 => json!({"pattern": "foo($$$ARGS)"}),
    2 => {
      doc.insert("utils".into(), json!({"call": {"pattern": "foo($A, $B)"}}));
      json!({"matches": "call"})
    }
    3 => json!({"pattern": "foo($A, $B)", "inside": {"kind": "expression_statement", "stopBy": "end"}, "not": {"has": {"kind": "string", "stopBy": "end"}}}),
    _ => json!({"any": [{"pattern": "foo($A, $B)"}, {"pattern": "bar($C)"}]}),
  };
  doc.insert("rule".into(), rule);
  let first = if multi { "$$$ARGS" } else { "$A" };
  let first_name = if multi { "ARGS" } else { "A" };
  // sections
  let with_constraints = !multi && rng.chance(1, 2);
  if with_constraints {
    doc.insert("constraints".into(), if rng.chance(1, 2) { json!({"A": {"regex": "^a"}}) } else { json!({"B": {"kind": "identifier"}, "A": {"pattern": "$D"}}) });
  }
  let with_transform = rng.chance(2, 3);
  let with_rw = with_transform && rng.chance(1, 3);
  if with_transform {
    let mut t = Map::new();
    t.insert("T1".into(), json!({"substring": {"source": first, "startChar": 1}}));
    t.insert("T2".into(), json!({"convert": {"source": "$T1", "toCase": "upperCase"}}));
    if !multi {
      t.insert("T3".into(), json!({"replace": {"source": "$B", "replace": "\\d", "by": "x"}}));
    }
    if with_rw {
      t.insert("RW".into(), json!({"rewrite": {"source": first, "rewriters": ["rw"], "joinBy": "+"}}));
    }
    doc.insert("transform".into(), Value::Object(t));
  }
  if with_rw {
    doc.insert("rewriters".into(), json!([{"id": "rw", "rule": {"kind": "identifier", "pattern": "$X"}, "fix": "<$X>"}]));
  }
  let with_fix = rng.chance(4, 5);
  let mut object_form = rng.chance(1, 2);
  if with_fix {
    let mut tmpl = String::from("bar(");
    let mut pieces: Vec<String> = vec![];
    if multi {
      pieces.push("$$$ARGS".into());
    } else {
      pieces.push("$B".into());
      pieces.push("$A".into());
    }
    if with_transform {
      pieces.push("$T2".into());
      if rng.chance(1, 2) {
        pieces.push("$T1".into());
      }
      if with_rw {
        pieces.push("$RW".into());
      }
    }
    if shape == 4 {
      pieces.push("$C".into()); // legitimately unbound on `foo(..)`
    }
    tmpl.push_str(&pieces.join(", "));
    tmpl.push(')');
    doc.insert("fix".into(), if object_form { json!({"template": tmpl}) } else { json!(tmpl) });
  }
  // exactly one perturbation
  let mut expect = String::new();
  let names = [
    "none", "rename_def", "rename_use_fix", "rename_use_transform", "rename_constraint_key", "remove_transform", "cyclic_transform", "cyclic_transform_self", "key_clash", "rename_util",
    "remove_util", "undef_util_in_util", "undef_util_in_constraint", "undef_util_in_expansion", "cycle_utils", "cycle_utils_self", "rename_rewriter", "remove_rewriters", "rewriter_no_fix", "rewriter_undef_var",
    "sigil_mismatch", "toggle_fix_form", "no_kinds", "undef_rewriter_in_rewriter", "rewriter_uses_upper_var",
    "undef_rewriter_in_indirect_rewriter", "undef_rewriter_in_orphan_rewriter", "indirect_rewriter_ok",
    "cyclic_transform_rewrite_self", "cyclic_transform_rewrite_pair", "rewriter_uses_outer_transform",
  ];
  let p = names[which % names.len()];
  let mut tag = p.to_string();
  let has_fix = doc.contains_key("fix");
  let has_t = doc.contains_key("transform");
  let applied: bool = match p {
    "none" => true,
    "rename_def" => {
      // the single definition of the first variable disappears
      let target = if shape == 2 { doc.get_mut("utils").unwrap() } else { doc.get_mut("rule").unwrap() };
      rename(target, first_name, "Z");
      let uses_c = doc.get("constraints").map(|c| c.get(first_name).is_some()).unwrap_or(false);
      expect = if uses_c {
        "Core.UndefinedMetaVar.constraints".into()
      } else if has_t {
        "Core.UndefinedMetaVar.transform".into()
      } else if has_fix {
        "Core.UndefinedMetaVar.fix".into()
      } else {
        String::new()
      };
      true
    }
    "rename_use_fix" if has_fix => {
      rename(doc.get_mut("fix").unwrap(), first_name, "Z");
      expect = "Core.UndefinedMetaVar.fix".into();
      true
    }
    "rename_use_transform" if has_t => {
      rename(&mut doc.get_mut("transform").unwrap()["T1"], first_name, "Z");
      expect = "Core.UndefinedMetaVar.transform".into();
      true
    }
    "rename_constraint_key" if with_constraints => {
      let c = doc.get_mut("constraints").unwrap().as_object_mut().unwrap();
      let v = c.remove("A").unwrap();
      c.insert("Z".into(), v);
      expect = "Core.UndefinedMetaVar.constraints".into();
      true
    }
    "remove_transform" if has_t => {
      doc.get_mut("transform").unwrap().as_object_mut().unwrap().remove("T1");
      expect = "Core.UndefinedMetaVar.transform".into();
      true
    }
    "cyclic_transform" if has_t => {
      doc.get_mut("transform").unwrap()["T1"]["substring"]["source"] = json!("$T2");
      expect = "Core.Transform.Cyclic".into();
      true
    }
    // a transformation cycle closed by a `rewrite` member (any operator may close a cycle)
    "cyclic_transform_rewrite_self" | "cyclic_transform_rewrite_pair" if with_rw => {
      let t = doc.get_mut("transform").unwrap();
      if p == "cyclic_transform_rewrite_self" {
        t["CT"] = json!({"rewrite": {"source": "$CT", "rewriters": ["rw"]}});
      } else {
        t["CT"] = json!({"rewrite": {"source": "$CU", "rewriters": ["rw"]}});
        t["CU"] = json!({"replace": {"source": "$CT", "replace": "a", "by": "b"}});
      }
      expect = "Core.Transform.Cyclic".into();
      true
    }
    "cyclic_transform_self" if has_t => {
      doc.get_mut("transform").unwrap()["T2"]["convert"]["source"] = json!(rng.pick(&["$T2", "$$$T2"]));
      expect = "Core.Transform.Cyclic".into();
      true
    }
    "key_clash" if has_t && !multi => {
      let t = doc.get_mut("transform").unwrap().as_object_mut().unwrap();
      t.insert("B".into(), json!({"substring": {"source": "$A"}}));
      expect = "Core.Transform.AlreadyDefined".into();
      true
    }
    "rename_util" if shape == 2 => {
      doc.insert("rule".into(), json!({"matches": "callx"}));
      expect = "Core.Rule.MatchesReference.UndefinedUtil".into();
      true
    }
    "remove_util" if shape == 2 => {
      doc.remove("utils");
      expect = "Core.Rule.MatchesReference.UndefinedUtil".into();
      true
    }
    "undef_util_in_util" => {
      let mut u = doc.get("utils").cloned().unwrap_or(json!({}));
      // the unresolved reference sits behind any operator a reference can sit behind (a relation's
      // `stopBy` rule and `nthChild.ofRule` included), not only directly in the rule object
      let mut x = wrap_ref(*rng.pick(&CYCLE_OPS), "nope");
      x["kind"] = json!("identifier");
      u["extra"] = x;
      doc.insert("utils".into(), u);
      expect = "Core.Utils.MatchesReference.UndefinedUtil".into();
      true
    }
    "undef_util_in_constraint" if !multi => {
      let mut x = wrap_ref(*rng.pick(&CYCLE_OPS), "nope");
      x["kind"] = json!("identifier");
      doc.insert("constraints".into(), json!({"A": x}));
      expect = "Core.Rule.MatchesReference.UndefinedUtil".into();
      true
    }
    "undef_util_in_expansion" => {
      let mut x = wrap_ref(*rng.pick(&CYCLE_OPS), "nope");
      x["regex"] = json!(",");
      doc.insert("fix".into(), json!({"template": "x", "expandEnd": x}));
      object_form = true;
      expect = "Core.Fixer.WrongExpansion.MatchesReference.UndefinedUtil".into();
      true
    }
    "cycle_utils" | "cycle_utils_self" => {
      let op1 = *rng.pick(&CYCLE_OPS);
      let op2 = *rng.pick(&CYCLE_OPS);
      let mut u = doc.get("utils").cloned().unwrap_or(json!({}));
      let same = if p == "cycle_utils_self" {
        let mut c0 = wrap_ref(op1, "cy0");
        decorate(&mut c0, op1, rng, &mut u);
        u["cy0"] = c0;
        tag = format!("{p}:{op1}");
        same_node(op1)
      } else {
        let mut c0 = wrap_ref(op1, "cy1");
        let mut c1 = wrap_ref(op2, "cy0");
        decorate(&mut c0, op1, rng, &mut u);
        decorate(&mut c1, op2, rng, &mut u);
        u["cy0"] = c0;
        u["cy1"] = c1;
        tag = format!("{p}:{op1}+{op2}");
        same_node(op1) && same_node(op2)
      };
      doc.insert("utils".into(), u);
      // a cycle that stays on one node must be rejected; a cycle that moves through the tree
      // (relational rules) is legitimate recursion (the utilities are not used by the rule)
      expect = if same { "Core.Utils.MatchesReference.CyclicRule".into() } else { String::new() };
      true
    }
    "rename_rewriter" if with_rw => {
      doc.get_mut("transform").unwrap()["RW"]["rewrite"]["rewriters"] = json!(["rwx"]);
      expect = "UndefinedRewriter".into();
      true
    }
    "remove_rewriters" if with_rw => {
      doc.remove("rewriters");
      expect = "UndefinedRewriter".into();
      true
    }
    "rewriter_no_fix" if with_rw => {
      doc.get_mut("rewriters").unwrap()[0].as_object_mut().unwrap().remove("fix");
      expect = "NoFixInRewriter".into();
      true
    }
    "rewriter_undef_var" if with_rw => {
      doc.get_mut("rewriters").unwrap()[0]["fix"] = json!("<$NOPE>");
      expect = "Rewriter.UndefinedMetaVar.fix".into();
      true
    }
    "rewriter_uses_upper_var" if with_rw && !multi => {
      // a rewriter may use the variables of the enclosing rule
      doc.get_mut("rewriters").unwrap()[0]["fix"] = json!("<$X $B>");
      true
    }
    // a rewriter's fix sees the nodes the enclosing rule CAPTURES (`$B` above), not the texts its
    // `transform` section produces: a transformation key of the rule is undefined there
    "rewriter_uses_outer_transform" => {
      let src = if multi { "$$$ARGS" } else { "$A" };
      if !doc.contains_key("transform") {
        doc.insert("transform".into(), json!({}));
      }
      let t = doc.get_mut("transform").unwrap();
      // a key of its own, so that the shapes with and without a transformation chain are covered
      t["T"] = json!({"substring": {"source": src, "startChar": 0}});
      if t.get("RW").is_none() {
        t["RW"] = json!({"rewrite": {"source": src, "rewriters": ["rw"], "joinBy": "+"}});
      }
      // the rewriter uses its own capture and the outer key; with a transformation chain in the
      // rule, sometimes one of the chain's keys instead
      let key = if with_transform && rng.chance(1, 2) { "T2" } else { "T" };
      let fix = if rng.chance(1, 2) { format!("[${key}|$X]") } else { format!("<$X ${key}>") };
      doc.insert("rewriters".into(), json!([{"id": "rw", "rule": {"kind": "identifier", "pattern": "$X"}, "fix": fix}]));
      tag = format!("{p}:{key}");
      expect = "Rewriter.UndefinedMetaVar.fix".into();
      true
    }
    "undef_rewriter_in_rewriter" if with_rw => {
      doc.get_mut("rewriters").unwrap()[0]["transform"] = json!({"Y": {"rewrite": {"source": "$X", "rewriters": ["nested"]}}});
      expect = "UndefinedRewriter".into();
      true
    }
    // the undefined id sits in a rewriter the rule does not name itself: reached only through
    // another rewriter (rule -> rw -> rw2 -> ?), or not referenced at all
    "undef_rewriter_in_indirect_rewriter" | "indirect_rewriter_ok" if with_rw => {
      let rws = doc.get_mut("rewriters").unwrap().as_array_mut().unwrap();
      rws[0]["transform"] = json!({"Y": {"rewrite": {"source": "$X", "rewriters": ["rw2"]}}});
      let inner = if p == "indirect_rewriter_ok" { json!(["rw"]) } else { json!(["nested"]) };
      rws.push(json!({"id": "rw2", "rule": {"kind": "identifier", "pattern": "$Z"}, "transform": {"W": {"rewrite": {"source": "$Z", "rewriters": inner}}}, "fix": "[$Z]"}));
      if p != "indirect_rewriter_ok" {
        expect = "UndefinedRewriter".into();
      }
      true
    }
    "undef_rewriter_in_orphan_rewriter" if with_rw => {
      let rws = doc.get_mut("rewriters").unwrap().as_array_mut().unwrap();
      rws.push(json!({"id": "orphan", "rule": {"kind": "identifier", "pattern": "$Z"}, "transform": {"W": {"rewrite": {"source": "$Z", "rewriters": ["nested"]}}}, "fix": "[$Z]"}));
      expect = "UndefinedRewriter".into();
      true
    }
    "sigil_mismatch" if has_fix => {
      // `$ARGS` for a `$$$ARGS` capture / `$$$A` for a `$A` capture: same name, other sigil
      let f = doc.get_mut("fix").unwrap();
      let t = if object_form { f["template"].as_str().unwrap().to_string() } else { f.as_str().unwrap().to_string() };
      let t2 = if multi { t.replace("$$$ARGS", "$ARGS") } else { t.replace("$A", "$$$A") };
      if object_form {
        f["template"] = json!(t2);
      } else {
        *f = json!(t2);
      }
      true
    }
    "toggle_fix_form" if has_fix => {
      let f = doc.get_mut("fix").unwrap();
      if object_form {
        let t = f["template"].clone();
        *f = t;
      } else {
        let t = f.clone();
        *f = json!({"template": t});
      }
      object_form = !object_form;
      true
    }
    "no_kinds" => {
      doc.insert("rule".into(), json!({"regex": "foo", "not": {"kind": "string"}}));
      doc.remove("utils");
      doc.remove("constraints");
      doc.remove("transform");
      doc.remove("rewriters");
      doc.remove("fix");
      expect = "MissingPotentialKinds".into();
      true
    }
    _ => false,
  };
  let _ = object_form;
  Case { lang, doc: Value::Object(doc), perturbation: if applied { tag } else { "none".into() }, expect }
}

// ---------------------------------------------------------------------------------------
// the reference (from the documentation)
// ---------------------------------------------------------------------------------------

fn pattern_vars(v: &Value, out: &mut BTreeSet<String>) {
  match v {
    Value::Object(o) => {
      for (k, x) in o {
        if k == "pattern" {
          if let Some(s) = x.as_str() {
            for (name, _) in occurrences(s) {
              out.insert(name);
            }
          }
        } else if k != "matches" && k != "regex" && k != "kind" && k != "field" {
          pattern_vars(x, out);
        }
      }
    }
    Value::Array(a) => a.iter().for_each(|x| pattern_vars(x, out)),
    _ => {}
  }
}

/// `$NAME` / `$$$NAME` occurrences of a template or pattern: (name, is_multi) with byte spans
pub fn occurrences_spans(s: &str) -> Vec<(String, bool, usize, usize)> {
  let b = s.as_bytes();
  let mut out = vec![];
  let mut i = 0;
  while i < b.len() {
    if b[i] == b'$' {
      let st = i;
      let mut j = i;
      while j < b.len() && b[j] == b'$' && j - st < 3 {
        j += 1;
      }
      let sig = j - st;
      let ns = j;
      while j < b.len() && (b[j].is_ascii_uppercase() || b[j].is_ascii_digit() || b[j] == b'_') {
        j += 1;
      }
      if j > ns && (sig == 1 || sig == 3) {
        out.push((s[ns..j].to_string(), sig == 3, st, j));
        i = j;
        continue;
      }
      i = j.max(i + 1);
    } else {
      i += 1;
    }
  }
  out
}

fn occurrences(s: &str) -> Vec<(String, bool)> {
  occurrences_spans(s).into_iter().map(|(n, m, _, _)| (n, m)).collect()
}

fn matches_refs(v: &Value, out: &mut Vec<String>) {
  match v {
    Value::Object(o) => {
      for (k, x) in o {
        if k == "matches" {
          if let Some(s) = x.as_str() {
            out.push(s.to_string());
          }
        } else {
          matches_refs(x, out);
        }
      }
    }
    Value::Array(a) => a.iter().for_each(|x| matches_refs(x, out)),
    _ => {}
  }
}

/// `matches` references reachable without leaving the node (all / any / not / several keys /
/// nthChild.ofRule)
fn same_node_refs(v: &Value, out: &mut Vec<String>) {
  if let Value::Object(o) = v {
    for (k, x) in o {
      match k.as_str() {
        "matches" => {
          if let Some(s) = x.as_str() {
            out.push(s.to_string());
          }
        }
        "all" | "any" => {
          if let Some(a) = x.as_array() {
            a.iter().for_each(|r| same_node_refs(r, out));
          }
        }
        "not" => same_node_refs(x, out),
        "nthChild" => {
          if let Some(of) = x.get("ofRule") {
            same_node_refs(of, out);
          }
        }
        _ => {}
      }
    }
  }
}

fn strip_sigil(s: &str) -> String {
  s.trim_start_matches('$').to_string()
}

/// the first inconsistency of a document, `None` when it is self-consistent
pub fn inconsistency(doc: &Value) -> Option<String> {
  let empty = Map::new();
  let utils = doc.get("utils").and_then(|u| u.as_object()).unwrap_or(&empty);
  let transform = doc.get("transform").and_then(|u| u.as_object()).unwrap_or(&empty);
  let constraints = doc.get("constraints").and_then(|u| u.as_object()).unwrap_or(&empty);
  let mut defined = BTreeSet::new();
  pattern_vars(&doc["rule"], &mut defined);
  for r in utils.values().chain(constraints.values()) {
    pattern_vars(r, &mut defined);
  }
  for k in constraints.keys() {
    if !defined.contains(k) {
      return Some("constraint key is not a variable of the rule".into());
    }
  }
  for k in transform.keys() {
    if defined.contains(k) {
      return Some("transformation redefines a variable".into());
    }
  }
  let mut with_t = defined.clone();
  with_t.extend(transform.keys().cloned());
  for t in transform.values() {
    for body in t.as_object().into_iter().flat_map(|o| o.values()) {
      if let Some(s) = body.get("source").and_then(|s| s.as_str()) {
        if !with_t.contains(&strip_sigil(s)) {
          return Some("transformation source is undefined".into());
        }
      }
    }
  }
  // transformation cycles
  for start in transform.keys() {
    let mut cur = start.clone();
    for _ in 0..=transform.len() {
      let next = transform.get(&cur).and_then(|t| t.as_object()).and_then(|o| o.values().next()).and_then(|b| b.get("source")).and_then(|s| s.as_str()).map(strip_sigil);
      match next {
        Some(n) if transform.contains_key(&n) => {
          if &n == start {
            return Some("transformation depends on itself".into());
          }
          cur = n;
        }
        _ => break,
      }
    }
  }
  if let Some(fix) = doc.get("fix") {
    let t = fix.as_str().or_else(|| fix.get("template").and_then(|t| t.as_str())).unwrap_or("");
    for (name, _) in occurrences(t) {
      if !with_t.contains(&name) {
        return Some("fix variable is undefined".into());
      }
    }
    for k in ["expandStart", "expandEnd"] {
      if let Some(e) = fix.get(k) {
        let mut refs = vec![];
        matches_refs(e, &mut refs);
        if refs.iter().any(|r| !utils.contains_key(r)) {
          return Some("undefined utility in a fix expansion".into());
        }
      }
    }
  }
  let mut refs = vec![];
  matches_refs(&doc["rule"], &mut refs);
  if refs.iter().any(|r| !utils.contains_key(r)) {
    return Some("undefined utility in the rule".into());
  }
  for c in constraints.values() {
    let mut refs = vec![];
    matches_refs(c, &mut refs);
    if refs.iter().any(|r| !utils.contains_key(r)) {
      return Some("undefined utility in a constraint".into());
    }
  }
  for u in utils.values() {
    let mut refs = vec![];
    matches_refs(u, &mut refs);
    if refs.iter().any(|r| !utils.contains_key(r)) {
      return Some("undefined utility in a utility".into());
    }
  }
  // same-node utility cycles
  let mut edges: BTreeMap<String, Vec<String>> = BTreeMap::new();
  for (k, r) in utils {
    let mut out = vec![];
    same_node_refs(r, &mut out);
    edges.insert(k.clone(), out.into_iter().filter(|t| utils.contains_key(t)).collect());
  }
  for start in utils.keys() {
    let mut seen = BTreeSet::new();
    let mut stack = vec![start.clone()];
    while let Some(n) = stack.pop() {
      for t in edges.get(&n).into_iter().flatten() {
        if t == start {
          return Some("utility requires itself on the same node".into());
        }
        if seen.insert(t.clone()) {
          stack.push(t.clone());
        }
      }
    }
  }
  // rewriters
  let rewriters: Vec<&Value> = doc.get("rewriters").and_then(|r| r.as_array()).map(|a| a.iter().collect()).unwrap_or_default();
  let ids: BTreeSet<&str> = rewriters.iter().filter_map(|r| r.get("id").and_then(|s| s.as_str())).collect();
  let mut all_transforms: Vec<&Map<String, Value>> = vec![transform];
  for r in &rewriters {
    if let Some(t) = r.get("transform").and_then(|t| t.as_object()) {
      all_transforms.push(t);
    }
  }
  for t in all_transforms {
    for tr in t.values() {
      if let Some(rw) = tr.get("rewrite").and_then(|r| r.get("rewriters")).and_then(|r| r.as_array()) {
        if rw.iter().any(|x| !x.as_str().map(|s| ids.contains(s)).unwrap_or(false)) {
          return Some("undefined rewriter".into());
        }
      }
    }
  }
  // the fix of a rewriter: its own captures and transformation keys, and the variables the
  // enclosing rule CAPTURES (a rewriter is applied to nodes: the texts produced by the rule's
  // `transform` section are not visible to it)
  for r in &rewriters {
    let mut own = defined.clone();
    pattern_vars(&r["rule"], &mut own);
    for sec in ["utils", "constraints"] {
      if let Some(m) = r.get(sec).and_then(|m| m.as_object()) {
        m.values().for_each(|x| pattern_vars(x, &mut own));
      }
    }
    if let Some(t) = r.get("transform").and_then(|t| t.as_object()) {
      own.extend(t.keys().cloned());
    }
    if let Some(fix) = r.get("fix") {
      let t = fix.as_str().or_else(|| fix.get("template").and_then(|t| t.as_str())).unwrap_or("");
      if occurrences(t).iter().any(|(name, _)| !own.contains(name)) {
        return Some("fix variable of a rewriter is undefined".into());
      }
    }
  }
  None
}

/// the fix text the documentation promises: every `$V` / `$$$V` replaced by the captured text,
/// the transformed string, or nothing when the variable is not bound in this match.
/// Returns (expected text, names whose sigil does not fit the capture).
fn reference_fix(template: &str, src: &str, fi: &Value, tkeys: &BTreeSet<String>) -> (String, Vec<String>) {
  let lookup = |arr: &Value, name: &str| -> Option<String> {
    arr.as_array()?.iter().find(|x| x[0] == name).map(|x| {
      if x.as_array().map(|a| a.len()).unwrap_or(0) == 3 {
        src[x[1].as_u64().unwrap() as usize..x[2].as_u64().unwrap() as usize].to_string()
      } else {
        x[1].as_str().unwrap_or("").to_string()
      }
    })
  };
  let mut out = String::new();
  let mut mismatched = vec![];
  let mut last = 0;
  for (name, is_multi, s, e) in occurrences_spans(template) {
    out.push_str(&template[last..s]);
    last = e;
    let val = if tkeys.contains(&name) {
      if is_multi {
        mismatched.push(name.clone());
      }
      lookup(&fi["transformed"], &name)
    } else {
      let single = lookup(&fi["single"], &name);
      let multi = lookup(&fi["multi"], &name);
      match (is_multi, single, multi) {
        (false, Some(v), _) => Some(v),
        (true, _, Some(v)) => Some(v),
        (false, None, Some(v)) | (true, Some(v), None) => {
          mismatched.push(name.clone());
          Some(v)
        }
        _ => None,
      }
    };
    out.push_str(&val.unwrap_or_default());
  }
  out.push_str(&template[last..]);
  (out, mismatched)
}

// ---------------------------------------------------------------------------------------
// the unit
// ---------------------------------------------------------------------------------------

pub fn c12_accept(ctx: &Ctx, rng: &mut Rng, o: &mut Out) {
  let pool = SrcPool::new(rng);
  let n = if ctx.thorough { 60000 } else { 3000 };
  let mut cases: Vec<Case> = vec![];
  let mut jobs = vec![];
  for i in 0..n {
    let c = assemble(rng, i);
    let text = c.doc.to_string();
    let mut job = api_job("rule", &text, &pool, &[]);
    job["src"] = json!([[if c.lang == SupportLang::Python { "Python" } else { "JavaScript" }, SRC]]);
    job["fixinfo"] = json!(SRC);
    jobs.push(job);
    cases.push(c);
  }
  let answers = procpool::run_jobs(&jobs, procpool::nproc());
  let mut tally: BTreeMap<String, usize> = BTreeMap::new();
  let (mut f_cons, mut f_pert, mut f_subst, mut n_subst, mut crashed) = (0usize, 0usize, 0usize, 0usize, 0usize);
  for (c, ans) in cases.iter().zip(answers.iter()) {
    let load = ans.detail["load"].as_str().unwrap_or("?").to_string();
    let v = ans.detail["v"].as_str().unwrap_or("").to_string();
    *tally.entry(format!("{}/{}", c.perturbation.split(':').next().unwrap_or(""), if load == "err" { v.clone() } else { load.clone() })).or_default() += 1;
    let text = c.doc.to_string();
    // correspondence 1: accept / reject and the error variant
    let facts = doc_facts(&c.doc, c.lang, &[]).ok();
    let order_free = c.doc.get("utils").and_then(|u| u.as_object()).map(|u| u.len() <= 2).unwrap_or(true);
    let cmpv = order_free;
    let args = match &facts {
      Some(f) => json!({"doc": f, "yaml_err": false, "cmpv": cmpv, "yaml": text, "faults": [c.perturbation]}),
      None => json!({"doc": null, "yaml_err": true, "cmpv": cmpv, "yaml": text, "faults": [c.perturbation]}),
    };
    let r = match load.as_str() {
      "ok" => json!({"c": "ok", "v": ""}),
      "err" => json!({"c": "err", "v": if cmpv { v.clone() } else { "*".to_string() }}),
      other => json!({"c": other, "v": ""}),
    };
    o.op("yaml_load", args, r);
    if ans.class.crashed() {
      // a crash is C11's finding; here it only means "no verdict"
      crashed += 1;
      continue;
    }
    let accepted = load == "ok";
    // oracle 1: accepted ⇒ consistent
    if accepted {
      if let Some(why) = inconsistency(&c.doc) {
        f_cons += 1;
        o.oracle("c12-accept-consistent", false, json!({"fp": format!("c12 accepted although {why}"), "perturbation": c.perturbation, "doc": text}));
      }
    }
    // oracle 2: the perturbation is answered by the corresponding error
    let got = if accepted { String::new() } else { v.clone() };
    if got != c.expect {
      f_pert += 1;
      let kind = c.perturbation.split(':').next().unwrap_or("");
      o.oracle("c12-perturbation-rejected", false, json!({"fp": format!("c12 perturbation {kind} expected [{}] got [{}]", c.expect, got), "perturbation": c.perturbation, "doc": text}));
    }
    // correspondence 2 + oracle 3: the replacement text
    let fi = &ans.detail["fi"];
    if accepted && fi["matched"] == true && fi.get("repl").is_some() {
      n_subst += 1;
      let fix = c.doc.get("fix").unwrap();
      let template = fix.as_str().or_else(|| fix.get("template").and_then(|t| t.as_str())).unwrap_or("").to_string();
      let tkeys: BTreeSet<String> = c.doc.get("transform").and_then(|t| t.as_object()).map(|t| t.keys().cloned().collect()).unwrap_or_default();
      let keys: Vec<&String> = tkeys.iter().collect();
      if let Ok(ff) = fix_facts(Some(fix), c.lang) {
        o.op(
          "fix_apply",
          json!({"src": SRC, "start": fi["ms"], "fix": ff, "keys": keys, "single": fi["single"], "multi": fi["multi"], "transformed": fi["transformed"], "yaml": text}),
          json!({"out": fi["repl"]}),
        );
      }
      let (want, mismatched) = reference_fix(&template, SRC, fi, &tkeys);
      let got = fi["repl"].as_str().unwrap_or("");
      if want != got {
        f_subst += 1;
        let form = if fix.is_string() { "string" } else { "object" };
        let why = if !mismatched.is_empty() {
          "sigil of a fix variable differs from its capture".to_string()
        } else if occurrences(&template).iter().any(|(n, _)| tkeys.contains(n)) {
          format!("transformed variable in a {form}-form fix")
        } else {
          format!("captured variable in a {form}-form fix")
        };
        o.oracle("c12-fix-substitutes", false, json!({"fp": format!("c12 fix not substituted: {why}"), "want": want, "got": got, "perturbation": c.perturbation, "doc": text}));
      }
    }
  }
  o.oracle("c12-accept-consistent", true, json!({"cases": cases.len(), "failures": f_cons, "no_verdict_crashed": crashed, "tally": tally}));
  o.oracle("c12-perturbation-rejected", true, json!({"cases": cases.len(), "failures": f_pert}));
  o.oracle("c12-fix-substitutes", true, json!({"cases": n_subst, "failures": f_subst}));
  c12_globals(o);
  c12_fix_witnesses(o);
  c12_rule_with_globals(o);
  c12_globals_generated(ctx, rng, o);
}

/// `c12_globals`: global utility rules (the files of `utilDirs`) are self-consistent as a SET.
/// Every case is a set of global utility documents handed to the real
/// `DeserializeEnv::parse_global_utils` (in an isolated child: role `util` registers the documents,
/// then loads and runs a rule `matches: <id of the last one>`, so an accepted set is exercised by a
/// scan as well); demanded: accepted, or rejected with the given error kind.
///   * every `matches` of a global rule resolves once ALL of them are registered,
///   * a global rule that requires itself on the same node — directly, through another global rule
///     or through its OWN local utilities (under `matches` / `all` / `any` / `not` /
///     `nthChild.ofRule`) — is a `CyclicRule`; recursion through a relation is legitimate.
fn c12_globals(o: &mut Out) {
  let g = |id: &str, body: Value| -> String {
    let mut d = json!({"id": id, "language": "JavaScript"});
    for (k, v) in body.as_object().unwrap() {
      d[k.as_str()] = v.clone();
    }
    d.to_string()
  };
  let own_cycle = |x: Value| json!({"utils": {"x": x}, "rule": {"kind": "number", "matches": "x"}});
  const UNDEF: &str = "MatchesReference.UndefinedUtil";
  const CYCLIC: &str = "MatchesReference.CyclicRule";
  // (name, documents (the last one is the one the user rule refers to), expected error suffix)
  let cases: Vec<(&str, Vec<String>, &str)> = vec![
    ("1 undefined reference in the rule", vec![g("g", json!({"rule": {"kind": "number", "matches": "nonexistent"}}))], UNDEF),
    ("1 undefined reference in a local utility", vec![g("g", json!({"utils": {"x": {"kind": "number", "matches": "nonexistent"}}, "rule": {"matches": "x"}}))], UNDEF),
    ("1 undefined reference in a constraint", vec![g("g", json!({"rule": {"pattern": "$A"}, "constraints": {"A": {"kind": "number", "matches": "nonexistent"}}}))], UNDEF),
    ("1 undefined reference next to a defined one", vec![g("b", json!({"rule": {"kind": "number"}})), g("g", json!({"rule": {"any": [{"matches": "b"}, {"matches": "nonexistent"}]}}))], UNDEF),
    ("2 reference to another global", vec![g("b", json!({"rule": {"kind": "number"}})), g("a", json!({"rule": {"matches": "b"}}))], ""),
    ("2 reference to another global, other order", vec![g("a", json!({"rule": {"matches": "b"}})), g("b", json!({"rule": {"kind": "number"}}))], ""),
    ("3 own local utility requires the global", vec![g("g", own_cycle(json!({"matches": "g"})))], CYCLIC),
    ("4 own local utility requires the global under any", vec![g("g", own_cycle(json!({"any": [{"kind": "string"}, {"matches": "g"}]})))], CYCLIC),
    ("4 own local utility requires the global under all", vec![g("g", own_cycle(json!({"all": [{"kind": "number"}, {"matches": "g"}]})))], CYCLIC),
    ("4 own local utility requires the global under not", vec![g("g", own_cycle(json!({"not": {"matches": "g"}})))], CYCLIC),
    ("4 own local utility requires the global under nthChild.ofRule", vec![g("g", own_cycle(json!({"nthChild": {"position": 1, "ofRule": {"matches": "g"}}})))], CYCLIC),
    ("4 chain of two own local utilities requires the global", vec![g("g", json!({"utils": {"x": {"matches": "y"}, "y": {"matches": "g"}}, "rule": {"kind": "number", "matches": "x"}}))], CYCLIC),
    ("4 own local utility requires the global, rule under all", vec![g("g", json!({"utils": {"x": {"matches": "g"}}, "rule": {"all": [{"kind": "number"}, {"matches": "x"}]}}))], CYCLIC),
    ("4 own local utility of another global closes the cycle", vec![g("h", json!({"rule": {"matches": "g"}})), g("g", own_cycle(json!({"matches": "h"})))], CYCLIC),
    ("5 two globals require each other", vec![g("g1", json!({"rule": {"matches": "g2"}})), g("g2", json!({"rule": {"matches": "g1"}}))], CYCLIC),
    ("5 a global requires itself", vec![g("g", json!({"rule": {"kind": "number", "matches": "g"}}))], CYCLIC),
    ("6 own local utility refers to another global", vec![g("b", json!({"rule": {"kind": "number"}})), g("g", own_cycle(json!({"matches": "b"})))], ""),
    ("6 own local utility refers to another global, other order", vec![g("g", own_cycle(json!({"matches": "b"}))), g("b", json!({"rule": {"kind": "number"}}))], ""),
    ("7 own local utility refers to the global through a relation", vec![g("g", own_cycle(json!({"inside": {"matches": "g", "stopBy": "end"}})))], ""),
    ("7 own local utility refers to the global through has", vec![g("g", json!({"utils": {"x": {"has": {"matches": "g", "stopBy": "end"}}}, "rule": {"any": [{"kind": "number"}, {"matches": "x"}]}}))], ""),
    ("8 cycle among own local utilities only", vec![g("g", json!({"utils": {"x": {"matches": "y"}, "y": {"matches": "x"}}, "rule": {"kind": "number", "matches": "x"}}))], CYCLIC),
    ("8 own local utility requires itself", vec![g("g", json!({"utils": {"x": {"any": [{"kind": "number"}, {"matches": "x"}]}}, "rule": {"kind": "number", "matches": "x"}}))], CYCLIC),
  ];
  let mut jobs = vec![];
  for (_, docs, _) in &cases {
    let (last, before) = docs.split_last().unwrap();
    jobs.push(json!({"k": "api", "role": "util", "y": last, "g": before, "src": [["JavaScript", "foo(1, [2, 'a'], b);\nlet c = 3;\n"]]}));
  }
  let answers = procpool::run_jobs(&jobs, procpool::nproc());
  let mut failures = 0usize;
  for ((name, docs, want), ans) in cases.iter().zip(answers.iter()) {
    // correspondence: the same set through the Lean model of `parse_global_utils`
    let parsed: Vec<Value> = docs.iter().filter_map(|d| serde_json::from_str(d).ok()).collect();
    emit_globals_load(o, &parsed, ans, &format!("fixed:{name}"));
    let load = ans.detail["load"].as_str().unwrap_or("?");
    let v = ans.detail["v"].as_str().unwrap_or("");
    let got = if ans.class.crashed() {
      format!("crashed ({})", ans.class.name())
    } else if load == "ok" {
      "accepted".to_string()
    } else {
      format!("rejected {v}")
    };
    let ok = !ans.class.crashed()
      && if want.is_empty() { load == "ok" } else { load == "err" && v.starts_with("Global.") && v.ends_with(want) };
    if !ok {
      failures += 1;
      let demanded = if want.is_empty() { "accepted".to_string() } else { format!("rejected ..{want}") };
      o.oracle("c12_globals", false, json!({"fp": format!("c12 global utilities, case {name}: demanded [{demanded}]"), "got": got, "detail": ans.detail, "globals": docs}));
    }
  }
  o.oracle("c12_globals", true, json!({"cases": cases.len(), "failures": failures}));
}

/// `c12_fix_witnesses`: accepted rules whose fix uses variables captured in every place a variable can
/// be captured (the rule's pattern, a `has` sub-rule, a local utility, a `constraints` pattern —
/// single and `$$$` captures alike) — the replacement text is the documented one, written out here
/// literally (the reference of `c12-fix-substitutes` reads the implementation's own environment and
/// cannot see a capture that was lost on the way to it).
pub fn c12_fix_witnesses(o: &mut Out) {
  // (name, rule document, source, expected replacement of the first match)
  let cases: Vec<(&str, Value, &str, &str)> = vec![
    ("multi capture of the pattern", json!({"rule": {"pattern": "log($$$ARGS)"}, "fix": "log2($$$ARGS)"}), "log(a, b)", "log2(a, b)"),
    ("single capture of a constraint pattern", json!({"rule": {"pattern": "log($CALL)"}, "constraints": {"CALL": {"pattern": "format($X)"}}, "fix": "log2($X)"}), "log(format(a))", "log2(a)"),
    ("multi capture of a constraint pattern", json!({"rule": {"pattern": "log($CALL)"}, "constraints": {"CALL": {"pattern": "format($$$ARGS)"}}, "fix": "log2($$$ARGS)"}), "log(format(a, b))", "log2(a, b)"),
    ("multi capture of a constraint pattern, object fix", json!({"rule": {"pattern": "log($CALL)"}, "constraints": {"CALL": {"pattern": "format($$$ARGS)"}}, "fix": {"template": "log2($$$ARGS)"}}), "log(format(a, b))", "log2(a, b)"),
    ("multi capture of a constraint pattern as transform source", json!({"rule": {"pattern": "log($CALL)"}, "constraints": {"CALL": {"pattern": "format($FMT, $$$REST)"}}, "transform": {"UP": {"convert": {"source": "$$$REST", "toCase": "upperCase"}}}, "fix": "log2($FMT, $UP, $$$REST)"}), "log(format(f, x, y))", "log2(f, X, Y, x, y)"),
    ("multi capture of a has sub-rule", json!({"rule": {"pattern": "log($CALL)", "has": {"pattern": "format($$$ARGS)", "stopBy": "end"}}, "fix": "log2($$$ARGS)"}), "log(format(a, b))", "log2(a, b)"),
    ("multi capture of a local utility", json!({"utils": {"fmt": {"pattern": "format($$$ARGS)"}}, "rule": {"pattern": "log($CALL)", "has": {"matches": "fmt", "stopBy": "end"}}, "fix": "log2($$$ARGS)"}), "log(format(a, b))", "log2(a, b)"),
    ("transformation with a digit-first name, string fix", json!({"rule": {"pattern": "log($A, $B)"}, "transform": {"1ST": {"convert": {"source": "$A", "toCase": "upperCase"}}, "SECOND": {"replace": {"source": "$B", "replace": "x", "by": "y"}}}, "fix": "emit($1ST, $SECOND, $100)"}), "log(abc, xyz)", "emit(ABC, yyz, $100)"),
    ("transformation with a digit-first name, object fix", json!({"rule": {"pattern": "log($A, $B)"}, "transform": {"1ST": {"convert": {"source": "$A", "toCase": "upperCase"}}}, "fix": {"template": "emit($1ST, $100)"}}), "log(abc, xyz)", "emit(ABC, $100)"),
    ("chain of three transformations, names not alphabetical along the dependency", json!({"rule": {"pattern": "function $NAME() {}"}, "transform": {"STRIPPED": {"replace": {"source": "$NAME", "replace": "^get_", "by": ""}}, "PROP": {"convert": {"source": "$STRIPPED", "toCase": "camelCase"}}, "KEY": {"substring": {"source": "$PROP", "startChar": 0, "endChar": 4}}}, "fix": "function $PROP() { return this.$KEY }"}), "function get_user_name() {}", "function userName() { return this.user }"),
    ("chain of three transformations, names in reverse alphabetical order", json!({"rule": {"pattern": "function $NAME() {}"}, "transform": {"ZA": {"replace": {"source": "$NAME", "replace": "^get_", "by": ""}}, "MB": {"convert": {"source": "$ZA", "toCase": "camelCase"}}, "AC": {"substring": {"source": "$MB", "startChar": 0, "endChar": 4}}}, "fix": "$ZA|$MB|$AC"}), "function get_user_name() {}", "user_name|userName|user"),
    ("chain of four transformations, the middle ones swapped alphabetically", json!({"rule": {"pattern": "function $NAME() {}"}, "transform": {"A": {"replace": {"source": "$NAME", "replace": "^get_", "by": ""}}, "D": {"convert": {"source": "$A", "toCase": "camelCase"}}, "C": {"substring": {"source": "$D", "startChar": 0, "endChar": 4}}, "B": {"convert": {"source": "$C", "toCase": "upperCase"}}}, "fix": "$A|$D|$C|$B"}), "function get_user_name() {}", "user_name|userName|user|USER"),
    ("constraint on a multi-capture-free rule, any of two patterns", json!({"rule": {"pattern": "log($CALL)"}, "constraints": {"CALL": {"any": [{"pattern": "fmt($$$ARGS)"}, {"pattern": "format($$$ARGS)"}]}}, "fix": "log2($$$ARGS)"}), "log(format(a, b))", "log2(a, b)"),
  ];
  let mut jobs = vec![];
  for (_, doc, src, _) in &cases {
    let mut d = doc.clone();
    d["id"] = json!("w");
    d["language"] = json!("JavaScript");
    jobs.push(json!({"k": "api", "role": "rule", "y": d.to_string(), "g": [], "src": [["JavaScript", src]], "fixinfo": src}));
  }
  let answers = procpool::run_jobs(&jobs, procpool::nproc());
  let mut failures = 0usize;
  for ((name, doc, src, want), ans) in cases.iter().zip(answers.iter()) {
    let load = ans.detail["load"].as_str().unwrap_or("?");
    let fi = &ans.detail["fi"];
    let got = fi["repl"].as_str();
    if ans.class.crashed() || load != "ok" || got != Some(*want) {
      failures += 1;
      o.oracle(
        "c12-fix-witnesses",
        false,
        json!({"fp": format!("c12 fix of an accepted rule: {name}"), "rule": doc, "source": src, "want": want, "got": got, "load": load, "v": ans.detail["v"], "matched": fi["matched"]}),
      );
    }
  }
  o.oracle("c12-fix-witnesses", true, json!({"cases": cases.len(), "failures": failures}));
}

/// `c12_rule_with_globals`: a rule file loaded next to the project's GLOBAL utility rules (`utilDirs`).
/// The variables a global utility captures are not defined for a rule (least of all for one that
/// does not refer to the utility): a `fix`, a transformation source or a `constraints` key that uses
/// such a name without capturing it must be rejected exactly as without any global rule; the same
/// rule capturing the variable itself is accepted.
fn c12_rule_with_globals(o: &mut Out) {
  let globals_sets: Vec<(&str, Vec<String>)> = vec![
    ("none", vec![]),
    ("one capturing global", vec![json!({"id": "log-call", "language": "JavaScript", "rule": {"pattern": "logger.$METHOD($$$ARGS)"}}).to_string()]),
    (
      "two globals, one with a local utility",
      vec![
        json!({"id": "num", "language": "JavaScript", "rule": {"kind": "number", "pattern": "$ARGS"}}).to_string(),
        json!({"id": "call", "language": "JavaScript", "utils": {"inner": {"pattern": "$METHOD($$$REST)"}}, "rule": {"matches": "inner"}}).to_string(),
      ],
    ),
  ];
  // (name, section added to the rule `foo($A)`, the error an undefined variable must give)
  let sections: Vec<(&str, Value, &str)> = vec![
    ("fix string", json!({"fix": "bar($METHOD)"}), "UndefinedMetaVar.fix"),
    ("fix string multi", json!({"fix": "bar($$$ARGS)"}), "UndefinedMetaVar.fix"),
    ("fix object", json!({"fix": {"template": "bar($METHOD)"}}), "UndefinedMetaVar.fix"),
    ("transform source", json!({"transform": {"T": {"substring": {"source": "$METHOD", "startChar": 1}}}, "fix": "bar($T)"}), "UndefinedMetaVar.transform"),
    ("transform replace source", json!({"transform": {"T": {"replace": {"source": "$ARGS", "replace": "a", "by": "b"}}}}), "UndefinedMetaVar.transform"),
    ("constraints key", json!({"constraints": {"METHOD": {"regex": "^l"}}}), "UndefinedMetaVar.constraints"),
    ("message only", json!({"message": "found $METHOD"}), ""),
  ];
  let mut jobs = vec![];
  let mut meta = vec![];
  for (gname, gs) in &globals_sets {
    for (sname, section, err) in &sections {
      for captured in [false, true] {
        // the control captures the variable itself: `foo($A, $METHOD, $$$ARGS)`
        let pattern = if captured { "foo($A, $METHOD, $$$ARGS)" } else { "foo($A)" };
        let mut d = json!({"id": "r", "language": "JavaScript", "rule": {"pattern": pattern}});
        for (k, v) in section.as_object().unwrap() {
          d[k.as_str()] = v.clone();
        }
        jobs.push(json!({"k": "api", "role": "rule", "y": d.to_string(), "g": gs, "src": [["JavaScript", "foo(1, info, 2);\nlogger.info(1, 2);\n"]]}));
        meta.push((gname.to_string(), sname.to_string(), captured, if captured { "" } else { *err }, d));
      }
    }
  }
  let answers = procpool::run_jobs(&jobs, procpool::nproc());
  let mut failures = 0usize;
  for ((gname, sname, captured, want, doc), ans) in meta.iter().zip(answers.iter()) {
    let load = ans.detail["load"].as_str().unwrap_or("?");
    let v = ans.detail["v"].as_str().unwrap_or("");
    let ok = !ans.class.crashed() && if want.is_empty() { load == "ok" } else { load == "err" && v.ends_with(want) };
    if !ok {
      failures += 1;
      let demanded = if want.is_empty() { "accepted".to_string() } else { format!("rejected ..{want}") };
      let got = if ans.class.crashed() { format!("crashed ({})", ans.class.name()) } else if load == "ok" { "accepted".to_string() } else { format!("rejected {v}") };
      o.oracle(
        "c12_rule_with_globals",
        false,
        json!({"fp": format!("c12 rule next to global utilities ({gname}), {sname}, captured by the rule itself={captured}: demanded [{demanded}]"),
               "got": got, "rule": doc, "globals": globals_sets.iter().find(|g| g.0 == gname).map(|g| g.1.clone())}),
      );
    }
  }
  o.oracle("c12_rule_with_globals", true, json!({"cases": meta.len(), "failures": failures}));
}

// ---------------------------------------------------------------------------------------
// `globals_load`: sets of global utility documents, real `parse_global_utils` vs `Loader.loadGlobals`
// ---------------------------------------------------------------------------------------

/// the facts of a set of global utility documents (`core` as in a document of `yaml_load`)
fn globals_facts(docs: &[Value]) -> Option<Value> {
  let mut out = vec![];
  for d in docs {
    let o = d.as_object()?;
    let core = core_facts(o, LANG).ok()?;
    out.push(json!({"id": o.get("id")?.as_str()?, "core": core, "expando": expando_of(LANG).to_string()}));
  }
  Some(json!(out))
}

/// role `util` of the API child: the documents before the last one are registered as `g`, the last
/// one is the utility file `y`: all of them go through ONE call of `parse_global_utils`
fn globals_job(docs: &[Value]) -> Value {
  let texts: Vec<String> = docs.iter().map(|d| d.to_string()).collect();
  let (last, before) = texts.split_last().unwrap();
  json!({"k": "api", "role": "util", "y": last, "g": before, "src": [["JavaScript", "foo(1, [2, 'a'], b);\nlet c = 3;\n"]]})
}

fn globals_result(ans: &procpool::Answer) -> Value {
  let load = ans.detail["load"].as_str().unwrap_or("?");
  let v = ans.detail["v"].as_str().unwrap_or("");
  match load {
    "ok" => json!({"c": "ok", "v": ""}),
    "err" => json!({"c": "err", "v": v}),
    other => json!({"c": other, "v": ""}),
  }
}

fn emit_globals_load(o: &mut Out, docs: &[Value], ans: &procpool::Answer, tag: &str) {
  if let Some(facts) = globals_facts(docs) {
    o.op("globals_load", json!({"globals": facts, "cmpv": true, "docs": docs, "tag": tag}), globals_result(ans));
  } else {
    eprintln!("globals_load: document outside the structured class: {}", json!(docs));
  }
}

const G_SAME: [&str; 5] = ["matches", "all", "any", "not", "ofRule"];
const G_REL: [&str; 6] = ["inside", "has", "precedes", "follows", "stopBy", "stopByHas"];
/// relations that move UP the tree only: recursion through them always terminates (recursion
/// through relations of opposite directions is accepted by the loader and diverges in the scan:
/// C11's known finding, not this unit's subject)
const G_UP: [&str; 2] = ["inside", "stopBy"];

/// add the operator keys of `extra` to the rule object `obj`: as sibling keys where they are free,
/// else `obj` becomes `all: [obj, extra]`
fn merge_into(obj: &mut Value, extra: Value) {
  let clash = extra.as_object().map(|e| e.keys().any(|k| obj.get(k).is_some())).unwrap_or(true);
  if clash {
    let old = obj.take();
    *obj = json!({"all": [old, extra]});
  } else {
    for (k, v) in extra.as_object().unwrap() {
      obj[k.as_str()] = v.clone();
    }
  }
}

struct GSet {
  docs: Vec<Value>,
  tag: String,
  /// expected error kind when it does not follow from the references (variable faults)
  expect_var: Option<&'static str>,
}

fn utils_of(d: &mut Value) -> &mut Value {
  if d.get("utils").is_none() {
    d["utils"] = json!({});
  }
  &mut d["utils"]
}

/// one set of 1–4 global utility documents `g0..`; references between globals go from a higher to
/// a lower index (no cycle), recursion into the rule itself goes through an upward relation, a
/// reference to a higher index names a rule without references (so that the scan of an unperturbed
/// set terminates); `which` odd = exactly one perturbation
fn gen_global_set(rng: &mut Rng, which: usize) -> GSet {
  let perturb = which % 2 == 1;
  let kind = (which / 2) % 7;
  let mut n = 1 + rng.below(4);
  if perturb && kind == 2 {
    n = n.max(2);
  }
  let ids: Vec<String> = (0..n).map(|k| format!("g{k}")).collect();
  let mut docs: Vec<Value> = vec![];
  for k in 0..n {
    let shape = rng.below(5);
    let mut rule = match shape {
      0 => json!({"kind": "number"}),
      1 => json!({"pattern": "foo($A, $B)"}),
      2 => json!({"any": [{"kind": "identifier"}, {"kind": "number"}]}),
      3 => json!({"kind": "identifier", "regex": "^a"}),
      _ => json!({"pattern": "$A", "inside": {"kind": "expression_statement", "stopBy": "end"}}),
    };
    let has_a = shape == 1 || shape == 4;
    let mut d = json!({"id": ids[k], "language": "JavaScript"});
    // local utilities, used by the rule on the same node
    if rng.chance(1, 2) {
      utils_of(&mut d)["u0"] = json!({"kind": "string"});
      merge_into(&mut rule, wrap_ref(*rng.pick(&G_SAME), "u0"));
    }
    if k > 0 && rng.chance(1, 2) {
      // a local utility requires an earlier global rule on the same node (or refers to it elsewhere)
      let t = ids[rng.below(k)].clone();
      let mut u = wrap_ref(*rng.pick(&CYCLE_OPS), &t);
      if rng.chance(1, 2) {
        u["kind"] = json!("identifier");
      }
      utils_of(&mut d)["u1"] = u;
      merge_into(&mut rule, wrap_ref(*rng.pick(&G_SAME), "u1"));
    }
    if rng.chance(1, 3) {
      // recursion through a relation: into an earlier global rule or the rule itself
      let t = ids[rng.below(k + 1)].clone();
      utils_of(&mut d)["u2"] = wrap_ref(*rng.pick(&G_UP), &t);
      merge_into(&mut rule, wrap_ref(*rng.pick(&G_SAME), "u2"));
    }
    if k > 0 && rng.chance(1, 6) {
      // a local utility named like a global rule shadows it
      utils_of(&mut d)[ids[0].as_str()] = json!({"kind": "string"});
      merge_into(&mut rule, wrap_ref(*rng.pick(&G_SAME), &ids[0]));
    }
    // direct references to other global rules
    if k > 0 && rng.chance(1, 2) {
      let t = ids[rng.below(k)].clone();
      merge_into(&mut rule, wrap_ref(*rng.pick(&G_SAME), &t));
    }
    if rng.chance(1, 3) {
      let t = ids[rng.below(k + 1)].clone();
      merge_into(&mut rule, wrap_ref(*rng.pick(&G_UP), &t));
    }
    // sections that exercise the variable checks (`CheckHint::Global` runs them)
    if has_a {
      if rng.chance(1, 2) {
        let mut c = json!({"regex": "^a"});
        if k > 0 && rng.chance(1, 2) {
          // a constraint is evaluated on the captured node
          let t = ids[rng.below(k)].clone();
          c = wrap_ref(*rng.pick(&CYCLE_OPS), &t);
          c["kind"] = json!("identifier");
        }
        d["constraints"] = json!({"A": c});
      }
      if rng.chance(1, 2) {
        d["transform"] = json!({"T": {"substring": {"source": "$A", "startChar": 1}}});
        d["fix"] = if rng.chance(1, 2) { json!("bar($T, $A)") } else { json!({"template": "bar($A, $T)", "expandEnd": {"regex": ","}}) };
      } else if k > 0 && rng.chance(1, 2) {
        let t = ids[rng.below(k)].clone();
        let mut x = wrap_ref(*rng.pick(&CYCLE_OPS), &t);
        x["regex"] = json!(",");
        d["fix"] = json!({"template": "bar($A)", "expandStart": x});
      }
    }
    d["rule"] = rule;
    docs.push(d);
  }
  // references to a LATER global rule (not registered yet when this one is built): through any
  // relation, to a rule that has no references of its own
  for k in 0..n {
    let plain: Vec<usize> = (k + 1..n).filter(|j| !docs[*j].to_string().contains("\"matches\"")).collect();
    if !plain.is_empty() && rng.chance(1, 2) {
      let t = ids[*rng.pick(&plain)].clone();
      let mut rule = docs[k]["rule"].take();
      if rng.chance(1, 2) {
        utils_of(&mut docs[k])["u3"] = wrap_ref(*rng.pick(&G_REL), &t);
        merge_into(&mut rule, wrap_ref(*rng.pick(&G_SAME), "u3"));
      } else {
        merge_into(&mut rule, wrap_ref(*rng.pick(&G_REL), &t));
      }
      docs[k]["rule"] = rule;
    }
  }
  let mut tag = "none".to_string();
  let mut expect_var = None;
  if perturb {
    let k = rng.below(n);
    let own = ids[k].clone();
    match kind {
      0 => {
        // a reference that resolves nowhere
        let op = *rng.pick(&CYCLE_OPS);
        let place = rng.below(4);
        let d = &mut docs[k];
        let has_a = d["rule"].to_string().contains("$A");
        match place {
          0 => {
            let mut x = wrap_ref(op, "nope");
            x["kind"] = json!("identifier");
            utils_of(d)["ux"] = x;
            tag = format!("undef_in_util:{op}");
          }
          1 if has_a => {
            let mut x = wrap_ref(op, "nope");
            x["kind"] = json!("identifier");
            d["constraints"] = json!({"A": x});
            tag = format!("undef_in_constraint:{op}");
          }
          2 => {
            let mut x = wrap_ref(op, "nope");
            x["regex"] = json!(",");
            d.as_object_mut().unwrap().remove("transform");
            d["fix"] = json!({"template": "x", "expandEnd": x});
            tag = format!("undef_in_expansion:{op}");
          }
          _ => {
            let mut rule = d["rule"].take();
            merge_into(&mut rule, wrap_ref(op, "nope"));
            d["rule"] = rule;
            tag = format!("undef_in_rule:{op}");
          }
        }
      }
      1 => {
        // the global rule requires itself through its own local utilities (decorated, chained)
        let op = *rng.pick(&CYCLE_OPS);
        let d = &mut docs[k];
        let mut utils = d.get("utils").cloned().unwrap_or(json!({}));
        if rng.chance(1, 3) {
          let op2 = *rng.pick(&CYCLE_OPS);
          let mut c0 = wrap_ref(op, "cy2");
          let mut c1 = wrap_ref(op2, &own);
          decorate(&mut c0, op, rng, &mut utils);
          decorate(&mut c1, op2, rng, &mut utils);
          utils["cy"] = c0;
          utils["cy2"] = c1;
          tag = format!("own_cycle_chain:{op}+{op2}");
        } else {
          let mut c0 = wrap_ref(op, &own);
          decorate(&mut c0, op, rng, &mut utils);
          utils["cy"] = c0;
          tag = format!("own_cycle:{op}");
        }
        d["utils"] = utils;
        let mut rule = d["rule"].take();
        merge_into(&mut rule, wrap_ref(*rng.pick(&G_SAME), "cy"));
        d["rule"] = rule;
      }
      2 => {
        // two global rules refer to each other, one of them possibly through a local utility
        let mut j = rng.below(n);
        if j == k {
          j = (k + 1) % n;
        }
        let other = ids[j].clone();
        let (op1, op2) = (*rng.pick(&CYCLE_OPS), *rng.pick(&CYCLE_OPS));
        let mut rule = docs[k]["rule"].take();
        merge_into(&mut rule, wrap_ref(op1, &other));
        docs[k]["rule"] = rule;
        let through_local = rng.chance(1, 2);
        let mut rule = docs[j]["rule"].take();
        if through_local {
          utils_of(&mut docs[j])["mu"] = wrap_ref(op2, &own);
          merge_into(&mut rule, wrap_ref(*rng.pick(&G_SAME), "mu"));
        } else {
          merge_into(&mut rule, wrap_ref(op2, &own));
        }
        docs[j]["rule"] = rule;
        tag = format!("mutual{}:{op1}+{op2}", if through_local { "_local" } else { "" });
      }
      3 => {
        let op = *rng.pick(&CYCLE_OPS);
        let mut rule = docs[k]["rule"].take();
        merge_into(&mut rule, wrap_ref(op, &own));
        docs[k]["rule"] = rule;
        tag = format!("self:{op}");
      }
      4 => {
        // a cycle among the local utilities only
        let (op1, op2) = (*rng.pick(&CYCLE_OPS), *rng.pick(&CYCLE_OPS));
        let d = &mut docs[k];
        let mut utils = d.get("utils").cloned().unwrap_or(json!({}));
        let mut c0 = wrap_ref(op1, "lc1");
        let mut c1 = wrap_ref(op2, "lc0");
        decorate(&mut c0, op1, rng, &mut utils);
        decorate(&mut c1, op2, rng, &mut utils);
        utils["lc0"] = c0;
        utils["lc1"] = c1;
        d["utils"] = utils;
        if rng.chance(1, 2) {
          let mut rule = d["rule"].take();
          merge_into(&mut rule, wrap_ref(*rng.pick(&G_SAME), "lc0"));
          d["rule"] = rule;
        }
        tag = format!("local_cycle:{op1}+{op2}");
      }
      5 => {
        docs[k]["fix"] = json!("bar($NOPE)");
        expect_var = Some("UndefinedMetaVar.fix");
        tag = "undef_fix_var".into();
      }
      _ => {
        // renamed reference: the target of one existing reference to a global rule
        let text = docs[k].to_string();
        let hit = ids.iter().find(|g| text.contains(&format!("\"matches\":\"{g}\"")));
        if let Some(g) = hit {
          let is_local = docs[k].get("utils").map(|u| u.get(g.as_str()).is_some()).unwrap_or(false);
          if !is_local {
            let renamed = text.replacen(&format!("\"matches\":\"{g}\""), "\"matches\":\"nope\"", 1);
            docs[k] = serde_json::from_str(&renamed).unwrap();
            tag = "rename_ref".into();
          }
        }
      }
    }
  }
  // the order of the files does not matter
  for i in (1..docs.len()).rev() {
    let j = rng.below(i + 1);
    docs.swap(i, j);
  }
  GSet { docs, tag, expect_var }
}

/// the reference: the first inconsistency of a SET of global utility documents as the utility-rule
/// documentation describes them (`None` = consistent), as the suffix of the demanded error kind.
/// A `matches` names a local utility of the same file first, else a global rule of the set.
fn globals_inconsistency(docs: &[Value]) -> Option<&'static str> {
  let empty = Map::new();
  let ids: BTreeSet<String> = docs.iter().filter_map(|d| d["id"].as_str().map(|s| s.to_string())).collect();
  for d in docs {
    let utils = d.get("utils").and_then(|u| u.as_object()).unwrap_or(&empty);
    let mut refs = vec![];
    matches_refs(&d["rule"], &mut refs);
    for sec in ["constraints", "utils", "fix"] {
      if let Some(x) = d.get(sec) {
        matches_refs(x, &mut refs);
      }
    }
    if refs.iter().any(|r| !utils.contains_key(r) && !ids.contains(r)) {
      return Some("MatchesReference.UndefinedUtil");
    }
  }
  // no local utility requires itself on the same node
  for d in docs {
    let utils = d.get("utils").and_then(|u| u.as_object()).unwrap_or(&empty);
    for start in utils.keys() {
      let mut seen = BTreeSet::new();
      let mut stack = vec![start.clone()];
      while let Some(x) = stack.pop() {
        let mut out = vec![];
        same_node_refs(&utils[&x], &mut out);
        for t in out {
          if !utils.contains_key(&t) {
            continue;
          }
          if &t == start {
            return Some("Utils.MatchesReference.CyclicRule");
          }
          if seen.insert(t.clone()) {
            stack.push(t);
          }
        }
      }
    }
  }
  // no global rule requires itself on the same node: directly, through other global rules,
  // through its own local utilities
  let mut edges: BTreeMap<String, BTreeSet<String>> = BTreeMap::new();
  for d in docs {
    let utils = d.get("utils").and_then(|u| u.as_object()).unwrap_or(&empty);
    let mut out = BTreeSet::new();
    let mut seen: BTreeSet<String> = BTreeSet::new();
    let mut stack: Vec<&Value> = vec![&d["rule"]];
    while let Some(r) = stack.pop() {
      let mut refs = vec![];
      same_node_refs(r, &mut refs);
      for t in refs {
        match utils.get(&t) {
          Some(body) => {
            if seen.insert(t.clone()) {
              stack.push(body);
            }
          }
          None => {
            out.insert(t);
          }
        }
      }
    }
    edges.insert(d["id"].as_str().unwrap_or("").to_string(), out);
  }
  for start in edges.keys() {
    let mut seen = BTreeSet::new();
    let mut stack = vec![start.clone()];
    while let Some(x) = stack.pop() {
      for t in edges.get(&x).into_iter().flatten() {
        if t == start {
          return Some("Rule.MatchesReference.CyclicRule");
        }
        if seen.insert(t.clone()) {
          stack.push(t.clone());
        }
      }
    }
  }
  None
}

/// generated sets of global utility documents: op `globals_load` + oracle `c12_globals_generated`
fn c12_globals_generated(ctx: &Ctx, rng: &mut Rng, o: &mut Out) {
  let n = if ctx.thorough { 3000 } else { 150 };
  let sets: Vec<GSet> = (0..n).map(|i| gen_global_set(rng, i)).collect();
  let jobs: Vec<Value> = sets.iter().map(|s| globals_job(&s.docs)).collect();
  let answers = procpool::run_jobs(&jobs, procpool::nproc());
  let (mut failures, mut no_verdict) = (0usize, 0usize);
  let mut tally: BTreeMap<String, usize> = BTreeMap::new();
  for (s, ans) in sets.iter().zip(answers.iter()) {
    emit_globals_load(o, &s.docs, ans, &s.tag);
    let load = ans.detail["load"].as_str().unwrap_or("?");
    let v = ans.detail["v"].as_str().unwrap_or("");
    let got = if ans.class.crashed() {
      format!("crashed ({})", ans.class.name())
    } else if load == "ok" {
      "accepted".to_string()
    } else {
      format!("rejected {v}")
    };
    let kind = s.tag.split(':').next().unwrap_or("");
    *tally.entry(format!("{kind}/{}", if load == "err" { v } else { load })).or_default() += 1;
    let want = s.expect_var.or_else(|| globals_inconsistency(&s.docs));
    if ans.class.crashed() && load == "ok" {
      // the set was loaded; the crash happened in the scan that follows: recursion through
      // relations of opposite directions (a perturbation may build it) is C11's known finding —
      // no verdict here
      no_verdict += 1;
      if want.is_some() {
        failures += 1;
        o.oracle("c12_globals_generated", false, json!({"fp": format!("c12 generated global utilities, perturbation {kind}: demanded [rejected]"), "got": "accepted", "tag": s.tag, "globals": s.docs}));
      }
      continue;
    }
    let ok = !ans.class.crashed()
      && match want {
        None => load == "ok",
        Some(w) => load == "err" && v.starts_with("Global.") && v.ends_with(w),
      };
    if !ok {
      failures += 1;
      let demanded = want.map(|w| format!("rejected ..{w}")).unwrap_or_else(|| "accepted".into());
      o.oracle("c12_globals_generated", false, json!({"fp": format!("c12 generated global utilities, perturbation {kind}: demanded [{demanded}]"), "got": got, "tag": s.tag, "globals": s.docs}));
    }
  }
  o.oracle("c12_globals_generated", true, json!({"cases": sets.len(), "failures": failures, "no_verdict_scan_crashed": no_verdict, "tally": tally}));
}

/// replay of `globals_load`: the recorded documents through the real `parse_global_utils`
pub fn exec(op: &str, a: &Value) -> Option<Value> {
  if op != "globals_load" && op != "globals_load_prefix" {
    return None;
  }
  let docs = a["docs"].as_array()?.clone();
  if docs.is_empty() {
    return None;
  }
  let ans = procpool::run_jobs(&[globals_job(&docs)], 1).pop()?;
  Some(globals_result(&ans))
}
