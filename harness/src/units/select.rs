//! C15 units: which rule runs on which file (language by extension / language globs, `files` /
//! `ignores` globs, severity flags, `--filter`), exit status.
//!   * `select_unit` (in-process): `Path::extension` + `SupportLang::from_path`,
//!     `RuleCollection::{try_new, for_path}` with the real `globset` as the glob oracle;
//!   * `select_cli` (real CLI, one process per case): severity flags on a fixed project, generated
//!     projects (`scan --json=stream` from the project root), overlapping `languageGlobs` (H21).
use super::Ctx;
use crate::util::*;
use ast_grep_config::{from_yaml_string, GlobalRules, RuleCollection, RuleConfig};
use ast_grep_core::Language;
use ast_grep_language::SupportLang;
use serde_json::{json, Value};
use std::collections::{BTreeMap, BTreeSet};
use std::path::{Path, PathBuf};
use std::process::{Command, Stdio};
use std::time::{Duration, Instant};

const SEVS: [&str; 5] = ["error", "warning", "info", "hint", "off"];

fn lang_index(l: SupportLang) -> usize {
  SupportLang::all_langs().iter().position(|x| *x == l).unwrap()
}

fn shuffle<T>(rng: &mut Rng, v: &mut [T]) {
  for i in (1..v.len()).rev() {
    v.swap(i, rng.below(i + 1));
  }
}

// ---------------------------------------------------------------------------------------
// languages used by the generators: (index, name in YAML, extensions, kinds per line template)

struct LangT {
  idx: usize,
  name: &'static str,
  exts: &'static [&'static str],
  /// comment prefix for an own-line suppression, if the generator uses one in this language
  comment: Option<&'static str>,
  /// (line text, kind present on the line)
  lines: &'static [(&'static str, &'static str)],
  /// a kind of the grammar that never occurs in the templates
  absent: &'static str,
}

const JSFAM: &[(&str, &str)] =
  &[("let a = 1", "number"), ("let s = \"x\"", "string"), ("f(x)", "call_expression"), ("let t = true", "true")];
const LANGS: &[LangT] = &[
  LangT { idx: 21, name: "TypeScript", exts: &["ts", "mts"], comment: Some("//"), lines: JSFAM, absent: "regex" },
  LangT { idx: 10, name: "JavaScript", exts: &["js", "mjs"], comment: Some("//"), lines: JSFAM, absent: "regex" },
  LangT { idx: 20, name: "Tsx", exts: &["tsx"], comment: Some("//"), lines: JSFAM, absent: "regex" },
  LangT {
    idx: 15,
    name: "Python",
    exts: &["py", "pyi"],
    comment: Some("#"),
    lines: &[("a = 1", "integer"), ("s = \"x\"", "string"), ("f(x)", "call")],
    absent: "lambda",
  },
  LangT {
    idx: 17,
    name: "Rust",
    exts: &["rs"],
    comment: Some("//"),
    lines: &[
      ("fn f1() { let a = 1; }", "integer_literal"),
      ("fn f2() { let s = \"x\"; }", "string_literal"),
      ("fn f3() { g(x); }", "call_expression"),
    ],
    absent: "macro_invocation",
  },
  LangT {
    idx: 4,
    name: "Css",
    exts: &["css"],
    comment: None,
    lines: &[("a { width: 1; }", "integer_value"), ("b { color: red; }", "plain_value")],
    absent: "important",
  },
  LangT { idx: 8, name: "Html", exts: &["html"], comment: None, lines: &[("<div>t</div>", "element")], absent: "doctype" },
];

fn lang_t(idx: usize) -> &'static LangT {
  LANGS.iter().find(|l| l.idx == idx).unwrap()
}

// ---------------------------------------------------------------------------------------
// running the CLI

const HANG: i32 = -999;

struct Sg {
  bin: PathBuf,
  scratch: tempfile::TempDir,
}

impl Sg {
  fn new() -> Sg {
    let bin = std::env::current_exe().unwrap().parent().unwrap().join("agv-sg");
    Sg { bin, scratch: tempfile::tempdir().unwrap() }
  }
  /// one fresh process; stdout to a file; killed after 20 s -> HANG
  fn run(&self, cwd: &Path, args: &[String]) -> (i32, String) {
    let so = self.scratch.path().join("stdout");
    let mut child = Command::new(&self.bin)
      .args(args)
      .current_dir(cwd)
      .stdin(Stdio::null())
      .stdout(std::fs::File::create(&so).unwrap())
      .stderr(Stdio::null())
      .spawn()
      .expect("spawn agv-sg");
    let t0 = Instant::now();
    let code = loop {
      match child.try_wait() {
        Ok(Some(st)) => break st.code().unwrap_or(-1),
        Ok(None) if t0.elapsed() > Duration::from_secs(20) => {
          let _ = child.kill();
          let _ = child.wait();
          break HANG;
        }
        _ => std::thread::sleep(Duration::from_millis(3)),
      }
    };
    (code, String::from_utf8_lossy(&std::fs::read(&so).unwrap_or_default()).into_owned())
  }
}

/// `--json=stream` output -> sorted [[file, ruleId, count]], and per rule id the severities seen
fn parse_findings(out: &str) -> (Vec<(String, String, usize)>, BTreeMap<String, BTreeSet<String>>) {
  let mut cnt: BTreeMap<(String, String), usize> = BTreeMap::new();
  let mut sev: BTreeMap<String, BTreeSet<String>> = BTreeMap::new();
  for line in out.lines() {
    if let Ok(v) = serde_json::from_str::<Value>(line) {
      let f = v["file"].as_str().unwrap_or("?").to_string();
      let id = v["ruleId"].as_str().unwrap_or("?").to_string();
      *cnt.entry((f, id.clone())).or_default() += 1;
      sev.entry(id).or_default().insert(v["severity"].as_str().unwrap_or("?").to_string());
    }
  }
  (cnt.into_iter().map(|((f, id), n)| (f, id, n)).collect(), sev)
}

fn flag_args(occs: &[(String, Option<String>)], filter: &Option<String>) -> Vec<String> {
  let mut a: Vec<String> = vec!["scan".into(), "--json=stream".into()];
  for (s, id) in occs {
    match id {
      Some(i) => a.push(format!("--{s}={i}")),
      None => a.push(format!("--{s}")),
    }
  }
  if let Some(f) = filter {
    a.push(format!("--filter={f}"));
  }
  a
}

fn gen_flags(rng: &mut Rng, ids: &[String]) -> (Vec<(String, Option<String>)>, Option<String>) {
  let mut occs = vec![];
  let n = match rng.below(10) {
    0..=2 => 0,
    3..=5 => 1,
    6..=7 => 2,
    8 => 3,
    _ => 5,
  };
  for _ in 0..n {
    let s = rng.pick(&SEVS).to_string();
    let id = match rng.below(8) {
      0..=2 => None,
      3..=5 => Some(rng.pick(ids).clone()),
      6 => Some(if rng.chance(1, 2) { "nonexistent".to_string() } else { "unused-suppression".to_string() }),
      _ => Some(rng.pick(ids).clone()),
    };
    occs.push((s, id));
  }
  let filter = if rng.chance(1, 5) {
    Some(rng.pick(&["^r[0-2]", "1|3", "zzz", ".", "r", "^r[13]$", "[a-c]"]).to_string())
  } else {
    None
  };
  (occs, filter)
}

fn occs_json(occs: &[(String, Option<String>)]) -> Value {
  json!(occs.iter().map(|(s, i)| json!([s, i])).collect::<Vec<_>>())
}

fn filter_json(filter: &Option<String>, ids: &[String]) -> Value {
  match filter {
    None => Value::Null,
    Some(f) => {
      let re = regex::Regex::new(f).unwrap();
      let mut all: Vec<String> = ids.to_vec();
      all.push("unused-suppression".into());
      let ok: Vec<&String> = all.iter().filter(|i| re.is_match(i)).collect();
      json!({"re": f, "ok": ok})
    }
  }
}

/// documented reading of the severity flags: a flag naming the rule, else a bare flag, else the
/// rule's own; among several the weakest wins (off < hint < info < warning < error)
fn doc_severity(occs: &[(String, Option<String>)], id: &str, own: &str) -> String {
  severity_reading(occs, id, own, false)
}

/// `drop_mixed`: the reading of the recorded finding (a bare `--SEV` is lost when `--SEV=ID` also
/// occurs); only used to *classify* a failure of the documented reading
fn severity_reading(occs: &[(String, Option<String>)], id: &str, own: &str, drop_mixed: bool) -> String {
  let rank = |s: &str| SEVS.iter().position(|x| *x == s).unwrap();
  let by_id: Vec<&String> = occs.iter().filter(|(_, i)| i.as_deref() == Some(id)).map(|(s, _)| s).collect();
  let bare: Vec<&String> = occs
    .iter()
    .filter(|(s, i)| i.is_none() && !(drop_mixed && occs.iter().any(|(s2, i2)| s2 == s && i2.is_some())))
    .map(|(s, _)| s)
    .collect();
  let pick = |v: &Vec<&String>| v.iter().max_by_key(|s| rank(s)).map(|s| s.to_string());
  pick(&by_id).or_else(|| pick(&bare)).unwrap_or_else(|| own.to_string())
}

fn mixed_flags(occs: &[(String, Option<String>)]) -> bool {
  SEVS.iter().any(|s| {
    occs.iter().any(|(x, i)| x == s && i.is_none()) && occs.iter().any(|(x, i)| x == s && i.is_some())
  })
}

// ---------------------------------------------------------------------------------------
// select_unit: in-process

fn glob_pool() -> Vec<&'static str> {
  vec![
    "**/*.ts", "*.ts", "src/**", "src/*", "src/**/*.ts", "**/a.*", "./src/**", "./*.ts", "src", "src/", "lib/**/x.*",
    "**/*.{ts,js}", "{src,lib}/**", "**/sub/**", "sub/**", "*", "**", "*.py", "**/*.rs", "a.ts", "src/a.ts",
    "**/.*", "src/sub", "**/sub", "?.ts", "[ab].*", "**/*.html", "*.{css,html}", "lib/*/*", "[", "a{b",
  ]
}

fn path_pool(rng: &mut Rng, n: usize) -> Vec<String> {
  let dirs = ["", "src/", "src/sub/", "lib/", "lib/x/", "lib/x/sub/", ".hid/", "src/.h/"];
  let names = ["a", "b", "x", "index", ".dot", "a.b"];
  let exts = ["ts", "js", "tsx", "py", "rs", "html", "css", "txt", "foo", "", "TS", "mjs", "pyi", "mts", "json"];
  let mut out = BTreeSet::new();
  while out.len() < n {
    let e = rng.pick(&exts);
    let p = format!(
      "{}{}{}{}",
      rng.pick(&dirs),
      rng.pick(&names),
      if e.is_empty() && rng.chance(1, 2) { "" } else { "." },
      e
    );
    out.insert(p);
  }
  out.into_iter().collect()
}

fn glob_matches(g: &str, p: &str) -> Option<bool> {
  globset::Glob::new(g).ok().map(|gl| gl.compile_matcher().is_match(p))
}

struct URule {
  id: String,
  lang: usize,
  sev: String,
  files: Option<Vec<String>>,
  ignores: Option<Vec<String>>,
  kind: String,
}

fn urule_yaml(r: &URule) -> String {
  let mut s = format!(
    "id: {}\nlanguage: {}\nseverity: {}\nrule: {{kind: \"{}\"}}\n",
    r.id,
    lang_t(r.lang).name,
    r.sev,
    r.kind
  );
  // every other rule carries a fix: severity, selection and exit status must not depend on it
  if r.id.bytes().last().map(|b| b % 2 == 0).unwrap_or(false) {
    s.push_str("fix: 'fixed'\n");
  }
  if let Some(f) = &r.files {
    s.push_str(&format!("files: {}\n", serde_json::to_string(f).unwrap()));
  }
  if let Some(f) = &r.ignores {
    s.push_str(&format!("ignores: {}\n", serde_json::to_string(f).unwrap()));
  }
  s
}

fn urule_json(r: &URule) -> Value {
  json!({"id": r.id, "lang": r.lang, "sev": r.sev, "files": r.files, "ignores": r.ignores})
}

fn gen_globs(rng: &mut Rng, pool: &[&str], allow_invalid: bool) -> Option<Vec<String>> {
  if rng.chance(1, 2) {
    return None;
  }
  let n = if rng.chance(1, 12) { 0 } else { 1 + rng.below(3) };
  let mut v = vec![];
  while v.len() < n {
    let g = *rng.pick(pool);
    if !allow_invalid && globset::Glob::new(g).is_err() {
      continue;
    }
    if allow_invalid && globset::Glob::new(g).is_err() && !rng.chance(1, 6) {
      continue;
    }
    v.push(g.to_string());
  }
  Some(v)
}

fn gen_urules(rng: &mut Rng, n: usize, pool: &[&str], allow_invalid: bool, langs: &[usize]) -> Vec<URule> {
  (0..n)
    .map(|i| {
      let lang = *rng.pick(langs);
      let lt = lang_t(lang);
      let kind = if rng.chance(1, 8) { lt.absent } else { rng.pick(lt.lines).1 };
      URule {
        id: format!("r{i}"),
        lang,
        sev: rng.pick(&SEVS).to_string(),
        files: gen_globs(rng, pool, allow_invalid),
        ignores: if rng.chance(1, 2) { gen_globs(rng, pool, allow_invalid) } else { None },
        kind: kind.to_string(),
      }
    })
    .collect()
}

/// glob match matrix (true pairs) and validity, through the real globset
fn glob_tables(rules: &[URule], paths: &[String]) -> (Value, Value) {
  let mut globs = BTreeSet::new();
  for r in rules {
    for g in r.files.iter().flatten().chain(r.ignores.iter().flatten()) {
      globs.insert(g.clone());
    }
  }
  let mut gm = vec![];
  let mut invalid = vec![];
  for g in &globs {
    match globset::Glob::new(g) {
      Err(_) => invalid.push(g.clone()),
      Ok(gl) => {
        let m = gl.compile_matcher();
        for p in paths {
          if m.is_match(p) {
            gm.push(json!([g, p]));
          }
        }
      }
    }
  }
  (json!(gm), json!(invalid))
}

fn coll_for_path(rules: &[URule], paths: &[String]) -> Value {
  guard(|| {
    let globals = GlobalRules::<SupportLang>::default();
    let yaml: Vec<String> = rules.iter().map(urule_yaml).collect();
    let configs: Vec<RuleConfig<SupportLang>> = from_yaml_string(&yaml.join("---\n"), &globals).expect("generated rules load");
    match RuleCollection::try_new(configs) {
      Err(_) => json!("glob-error"),
      Ok(c) => json!(paths
        .iter()
        .map(|p| c.for_path(p).iter().map(|r| r.id.clone()).collect::<Vec<_>>())
        .collect::<Vec<_>>()),
    }
  })
}

fn path_ext(p: &str) -> Value {
  let path = Path::new(p);
  json!({
    "name": path.file_name().and_then(|s| s.to_str()),
    "ext": path.extension().and_then(|s| s.to_str()),
    "lang": SupportLang::from_path(path).map(lang_index),
  })
}

pub fn unit(ctx: &Ctx, rng: &mut Rng, o: &mut Out) {
  // Path::file_name / extension / SupportLang::from_path: every short path over a small alphabet
  let alphabet = ['a', '.', '/', 't', 's', 'c'];
  for p in all_strings(&alphabet, if ctx.thorough { 6 } else { 5 }) {
    o.op("path_ext", json!({"p": p}), path_ext(&p));
  }
  // every extension of every language, in a few positions, plus near misses
  let mut exts: Vec<String> = vec![];
  for l in SupportLang::all_langs() {
    let types = l.file_types();
    for def in types.definitions() {
      for g in def.globs() {
        exts.push(g.trim_start_matches("*.").to_string());
      }
    }
  }
  for e in &exts {
    for p in [
      format!("x.{e}"),
      format!("src/x.y.{e}"),
      format!(".{e}"),
      format!("dir.{e}/x"),
      format!("x.{e}."),
      format!("x.{}", e.to_uppercase()),
      format!("./a/../x.{e}"),
      format!("x.{e}/"),
      format!("{e}"),
      format!("x.{e}x"),
    ] {
      o.op("path_ext", json!({"p": p}), path_ext(&p));
    }
  }
  // RuleCollection::try_new / for_path with the real globset
  let n = if ctx.thorough { 6000 } else { 400 };
  let pool = glob_pool();
  let langs = [21usize, 10, 20, 15, 17, 4, 8];
  let mut cases = 0usize;
  for _ in 0..n {
    let npaths = 10 + rng.below(8);
    let paths = path_pool(rng, npaths);
    let nrules = 2 + rng.below(6);
    let rules = gen_urules(rng, nrules, &pool, true, &langs);
    let (gm, invalid) = glob_tables(&rules, &paths);
    let r = coll_for_path(&rules, &paths);
    // oracle, from the documentation: a rule runs on a path iff language by extension, not off,
    // some `files` glob matches when present, no `ignores` glob matches
    if let Some(per_path) = r.as_array() {
      for (p, got) in paths.iter().zip(per_path) {
        let ext = Path::new(p).extension().and_then(|s| s.to_str()).unwrap_or("");
        let mut want: Vec<String> = rules
          .iter()
          .filter(|r| {
            r.sev != "off"
              && lang_t(r.lang).exts.iter().chain(extra_exts(r.lang).iter()).any(|e| *e == ext)
              && has_stem(p)
              && r.files.as_ref().map_or(true, |fs| fs.iter().any(|g| glob_matches(g, p) == Some(true)))
              && !r.ignores.as_ref().map_or(false, |fs| fs.iter().any(|g| glob_matches(g, p) == Some(true)))
          })
          .map(|r| r.id.clone())
          .collect();
        want.sort();
        cases += 1;
        if json!(want) != *got {
          o.oracle("c15-collection", false, json!({"fp": "collection for_path", "path": p, "expected": want, "actual": got, "rules": rules.iter().map(urule_json).collect::<Vec<_>>()}));
        }
      }
    }
    o.op(
      "coll_for_path",
      json!({"rules": rules.iter().map(urule_json).collect::<Vec<_>>(), "paths": paths, "gm": gm, "invalid": invalid}),
      r,
    );
  }
  o.oracle("c15-collection", true, json!({"cases": cases}));
}

/// extensions of the generator's languages beyond `LangT::exts` (documented language table)
fn extra_exts(lang: usize) -> &'static [&'static str] {
  match lang {
    21 => &["cts"],
    10 => &["cjs", "jsx"],
    15 => &["py3", "bzl"],
    8 => &["htm", "xhtml"],
    4 => &["scss"],
    _ => &[],
  }
}

/// the file name has something before its last dot (`.ts` alone is a hidden file, not an extension)
fn has_stem(p: &str) -> bool {
  let name = p.rsplit('/').next().unwrap_or("");
  match name.rfind('.') {
    Some(i) => i > 0,
    None => false,
  }
}

// ---------------------------------------------------------------------------------------
// select_cli: generated projects

struct PFile {
  path: String,
  /// language of the *content* (what the templates were taken from); None = unknown content
  content_lang: Option<usize>,
  /// (text, kind of the grammar present on the line or "" , suppression: None / Some(None)=bare / Some(Some(id)))
  lines: Vec<(String, String, Option<Option<String>>)>,
  /// Html only: an embedded `<script>` / `<style>` line, as (line index, injected language)
  injected: Vec<(usize, usize)>,
}

struct Proj {
  files: Vec<PFile>,
  rules: Vec<URule>,
  lang_globs: Vec<(String, usize, Vec<String>)>, // (key as written, language index, globs)
}

fn gen_file(rng: &mut Rng, path: String, content_lang: Option<usize>, ids: &[String]) -> PFile {
  let mut lines = vec![];
  let mut injected = vec![];
  match content_lang {
    None => lines.push(("some text 1 \"x\"".to_string(), String::new(), None)),
    Some(8) => {
      let n = 1 + rng.below(3);
      for _ in 0..n {
        match rng.below(3) {
          0 => lines.push(("<div>t</div>".to_string(), "element".to_string(), None)),
          1 => {
            injected.push((lines.len(), 10));
            lines.push(("<script>let a = 1</script>".to_string(), "number".to_string(), None));
          }
          _ => {
            injected.push((lines.len(), 4));
            lines.push(("<style>a { width: 1; }</style>".to_string(), "integer_value".to_string(), None));
          }
        }
      }
    }
    Some(l) => {
      let lt = lang_t(l);
      let n = 1 + rng.below(4);
      for _ in 0..n {
        let (text, kind) = *rng.pick(lt.lines);
        if let (Some(c), true) = (lt.comment, rng.chance(1, 5)) {
          let sup = if rng.chance(1, 2) { None } else { Some(rng.pick(ids).clone()) };
          let text = match &sup {
            None => format!("{c} ast-grep-ignore"),
            Some(i) => format!("{c} ast-grep-ignore: {i}"),
          };
          lines.push((text, String::new(), Some(sup)));
        }
        lines.push((text.to_string(), kind.to_string(), None));
      }
    }
  }
  PFile { path, content_lang, lines, injected }
}

fn gen_project(rng: &mut Rng, overlap: bool) -> Proj {
  let nrules = 3 + rng.below(6);
  let langs = [21usize, 10, 20, 15, 17, 4, 8];
  let pool: Vec<&str> = glob_pool();
  let allow_invalid = rng.chance(1, 12);
  let rules = gen_urules(rng, nrules, &pool, allow_invalid, &langs);
  let ids: Vec<String> = rules.iter().map(|r| r.id.clone()).collect();
  // language globs: extra extensions / names for some languages
  let mut lang_globs: Vec<(String, usize, Vec<String>)> = vec![];
  if overlap {
    // two or three languages of the JS family claim the same glob
    let mut fam = vec![("ts", 21usize), ("js", 10), ("tsx", 20), ("javascript", 10), ("typescript", 21)];
    shuffle(rng, &mut fam);
    let k = 2 + rng.below(2);
    for (key, idx) in fam.into_iter().take(k) {
      lang_globs.push((key.to_string(), idx, vec!["*.foo".to_string()]));
    }
  } else if rng.chance(1, 2) {
    let cands: Vec<(&str, usize, Vec<&str>)> = vec![
      ("ts", 21, vec!["*.foo"]),
      ("js", 10, vec!["*.bar", "Jsfile"]),
      ("python", 15, vec!["BUILD", "*.pyx"]),
      ("html", 8, vec!["*.vue"]),
      ("js", 10, vec!["*.ts"]), // a language glob overrides the built-in extension
      ("tsx", 20, vec!["*.js", "*.mjs"]),
      ("rust", 17, vec!["*.rsx"]),
      // a second key for a language that may already have one (`js`/`javascript`), and globs that
      // overlap with those of other entries: registration order = sorted by key since 1c5d0c8
      ("javascript", 10, vec!["*.baz"]),
      ("typescript", 21, vec!["*.qux", "*.foo"]),
      ("py", 15, vec!["*.pyz", "*.pyx"]),
    ];
    let k = 1 + rng.below(3);
    let allow_overlap = rng.chance(1, 3);
    let mut used_keys = BTreeSet::new();
    let mut used_globs: BTreeSet<&str> = BTreeSet::new();
    for _ in 0..k {
      let (key, idx, globs) = rng.pick(&cands).clone();
      if used_keys.contains(key) || (!allow_overlap && globs.iter().any(|g| used_globs.contains(g))) {
        continue;
      }
      used_keys.insert(key);
      used_globs.extend(globs.iter());
      lang_globs.push((key.to_string(), idx, globs.iter().map(|s| s.to_string()).collect()));
    }
  }
  // files
  let nfiles = 10 + rng.below(31);
  let dirs = ["", "src/", "src/sub/", "lib/", "lib/x/", "lib/x/sub/", ".hid/", "src/.h/", "a.ts/"];
  let mut files: Vec<PFile> = vec![];
  let mut seen = BTreeSet::new();
  let extra: Vec<(&str, Option<usize>)> = vec![
    ("txt", None), ("foo", Some(21)), ("bar", Some(10)), ("", None), ("TS", Some(21)), ("vue", Some(8)), ("pyx", Some(15)),
    ("rsx", Some(17)), ("ts.bak", Some(21)), ("baz", Some(10)), ("qux", Some(21)), ("pyz", Some(15)),
  ];
  while files.len() < nfiles {
    let dir = rng.pick(&dirs);
    let stem = rng.pick(&["a", "b", "x", "index", ".dot", "a.b", "BUILD", "Jsfile", ""]);
    let (ext, content): (String, Option<usize>) = if rng.chance(3, 4) {
      let lt = rng.pick(LANGS);
      (rng.pick(lt.exts).to_string(), Some(lt.idx))
    } else {
      let (e, c) = rng.pick(&extra);
      (e.to_string(), *c)
    };
    let content = if !ext.is_empty() { content } else if *stem == "BUILD" { Some(15) } else if *stem == "Jsfile" { Some(10) } else { content };
    let name = if ext.is_empty() { stem.to_string() } else { format!("{stem}.{ext}") };
    if name.is_empty() || name == "." {
      continue;
    }
    let path = format!("{dir}{name}");
    if !seen.insert(path.clone()) || path == "sgconfig.yml" {
      continue;
    }
    // a file must not have the name of a directory of the project (`lib/x` vs `lib/x/`, `a.ts` vs `a.ts/`)
    let is_dir = |d: &str| dirs.iter().any(|x| x.trim_end_matches('/') == d || x.starts_with(&format!("{d}/")));
    if is_dir(&path) {
      seen.remove(&path);
      continue;
    }
    files.push(gen_file(rng, path, content, &ids));
  }
  Proj { files, rules, lang_globs }
}

fn materialize(p: &Proj) -> tempfile::TempDir {
  let dir = tempfile::tempdir().unwrap();
  let root = dir.path();
  let mut cfg = String::from("ruleDirs: [rules]\n");
  if !p.lang_globs.is_empty() {
    cfg.push_str("languageGlobs:\n");
    for (k, _, gs) in &p.lang_globs {
      cfg.push_str(&format!("  {k}: {}\n", serde_json::to_string(gs).unwrap()));
    }
  }
  std::fs::write(root.join("sgconfig.yml"), cfg).unwrap();
  std::fs::create_dir_all(root.join("rules")).unwrap();
  let yaml: Vec<String> = p.rules.iter().map(urule_yaml).collect();
  std::fs::write(root.join("rules/all.yml"), yaml.join("---\n")).unwrap();
  for f in &p.files {
    let path = root.join(&f.path);
    std::fs::create_dir_all(path.parent().unwrap()).unwrap();
    let text: Vec<&str> = f.lines.iter().map(|l| l.0.as_str()).collect();
    std::fs::write(path, text.join("\n") + "\n").unwrap();
  }
  dir
}

fn type_glob_matches(g: &str, p: &str) -> bool {
  let mut b = ignore::types::TypesBuilder::new();
  b.add("x", g).unwrap();
  b.select("x");
  b.build().unwrap().matched(p, false).is_whitelist()
}

/// kinds present on a line, seen as a document of language `doc`: the templates of the JS family
/// parse alike in JavaScript / TypeScript / Tsx
fn line_kind_in(f: &PFile, i: usize, doc: usize) -> Option<&str> {
  let (_, kind, sup) = &f.lines[i];
  if sup.is_some() || kind.is_empty() {
    return None;
  }
  let fam = |l: usize| matches!(l, 21 | 10 | 20);
  match f.content_lang {
    Some(8) => {
      let inj = f.injected.iter().find(|(li, _)| *li == i).map(|(_, l)| *l);
      match inj {
        Some(l) if l == doc => Some(kind.as_str()),
        None if doc == 8 => Some(kind.as_str()),
        _ => None,
      }
    }
    Some(c) if c == doc || (fam(c) && fam(doc)) => Some(kind.as_str()),
    _ => None,
  }
}

/// expected unsuppressed matches (reference, from the templates) and the suppression comments:
/// `mc` = [[rule id, path, doc language, count]], `sup` = [[path, doc language, [candidate ids]]]
fn match_tables(p: &Proj) -> (Vec<Value>, Vec<Value>) {
  let mut mc = vec![];
  let mut sup = vec![];
  let docs = [21usize, 10, 20, 15, 17, 4, 8];
  for f in &p.files {
    for &doc in &docs {
      // is `doc` a plausible document language of this content? (own family or injected)
      for r in p.rules.iter().filter(|r| r.lang == doc) {
        let mut n = 0;
        for i in 0..f.lines.len() {
          if line_kind_in(f, i, doc) != Some(r.kind.as_str()) {
            continue;
          }
          let suppressed = i > 0
            && match &f.lines[i - 1].2 {
              Some(None) => true,
              Some(Some(id)) => *id == r.id,
              None => false,
            };
          if !suppressed {
            n += 1;
          }
        }
        if n > 0 {
          mc.push(json!([r.id, f.path, doc, n]));
        }
      }
      let fam = |l: usize| matches!(l, 21 | 10 | 20);
      let own = f.content_lang.map_or(false, |c| c == doc || (fam(c) && fam(doc)));
      if !own || f.content_lang == Some(8) {
        continue;
      }
      for i in 0..f.lines.len() {
        if let Some(s) = &f.lines[i].2 {
          let cands: Vec<&String> = p
            .rules
            .iter()
            .filter(|r| {
              r.lang == doc
                && i + 1 < f.lines.len()
                && line_kind_in(f, i + 1, doc) == Some(r.kind.as_str())
                && s.as_ref().map_or(true, |id| *id == r.id)
            })
            .map(|r| &r.id)
            .collect();
          sup.push(json!([f.path, doc, cands]));
        }
      }
    }
  }
  (mc, sup)
}

fn proj_args(p: &Proj, occs: &[(String, Option<String>)], filter: &Option<String>) -> Value {
  let paths: Vec<String> = p.files.iter().map(|f| f.path.clone()).collect();
  let (gm, invalid) = glob_tables(&p.rules, &paths);
  let mut tgm = vec![];
  for (_, _, gs) in &p.lang_globs {
    for g in gs {
      for path in &paths {
        if type_glob_matches(g, path) {
          tgm.push(json!([g, path]));
        }
      }
    }
  }
  let (mc, sup) = match_tables(p);
  let ids: Vec<String> = p.rules.iter().map(|r| r.id.clone()).collect();
  json!({
    "files": p.files.iter().map(|f| json!({"p": f.path, "present": f.injected.iter().map(|x| x.1).collect::<BTreeSet<_>>()})).collect::<Vec<_>>(),
    "rules": p.rules.iter().map(urule_json).collect::<Vec<_>>(),
    "occs": occs_json(occs),
    "filter": filter_json(filter, &ids),
    "langGlobs": p.lang_globs.iter().map(|(k, l, gs)| json!([k, l, gs])).collect::<Vec<_>>(),
    "gm": gm, "invalid": invalid, "tgm": tgm, "mc": mc, "sup": sup,
  })
}

/// documented language of a path: language globs (first in the given order), then the extension
fn doc_lang(p: &Proj, order: &[usize], path: &str) -> Option<usize> {
  for &i in order {
    let (_, l, gs) = &p.lang_globs[i];
    if gs.iter().any(|g| type_glob_matches(g, path)) {
      return Some(*l);
    }
  }
  if !has_stem(path) {
    return None;
  }
  let ext = path.rsplit('/').next().unwrap().rsplit('.').next().unwrap();
  LANGS.iter().find(|l| l.exts.iter().chain(extra_exts(l.idx).iter()).any(|e| *e == ext)).map(|l| l.idx)
}

fn hidden_dir(path: &str) -> bool {
  let comps: Vec<&str> = path.split('/').collect();
  comps[..comps.len() - 1].iter().any(|c| c.starts_with('.'))
}

/// reference written from the documentation: expected findings and exit code
fn reference(p: &Proj, occs: &[(String, Option<String>)], filter: &Option<String>, order: &[usize]) -> (Vec<(String, String, usize)>, i32) {
  reference_with(p, occs, filter, order, false, false)
}

/// the precedence among `languageGlobs` entries documented since 1c5d0c8: sorted by key
fn sorted_order(p: &Proj) -> Vec<usize> {
  let mut order: Vec<usize> = (0..p.lang_globs.len()).collect();
  order.sort_by(|a, b| p.lang_globs[*a].0.as_bytes().cmp(p.lang_globs[*b].0.as_bytes()));
  order
}

/// two `languageGlobs` keys name the same language
fn alias_keys(p: &Proj) -> bool {
  let langs: BTreeSet<usize> = p.lang_globs.iter().map(|x| x.1).collect();
  langs.len() < p.lang_globs.len()
}

/// `drop_mixed` / `alias_first`: readings of the two recorded findings, only used to *classify* a
/// failure of the documented reading (`alias_first`: the walker's file types of a language contain
/// the globs of its first registered `languageGlobs` entry only)
fn reference_with(p: &Proj, occs: &[(String, Option<String>)], filter: &Option<String>, order: &[usize], drop_mixed: bool, alias_first: bool) -> (Vec<(String, String, usize)>, i32) {
  let re = filter.as_ref().map(|f| regex::Regex::new(f).unwrap());
  let selected: Vec<&URule> = p.rules.iter().filter(|r| re.as_ref().map_or(true, |re| re.is_match(&r.id))).collect();
  if selected.is_empty() && re.is_some() {
    return (vec![], 2);
  }
  let eff: Vec<(&URule, String)> = selected.iter().map(|r| (*r, severity_reading(occs, &r.id, &r.sev, drop_mixed))).collect();
  let enabled: Vec<&(&URule, String)> = eff.iter().filter(|(_, s)| s != "off").collect();
  for (r, _) in &enabled {
    for g in r.files.iter().flatten().chain(r.ignores.iter().flatten()) {
      if globset::Glob::new(g).is_err() {
        return (vec![], 9);
      }
    }
  }
  // unused suppressions are only suggested when the scan includes all rules (no --off, no --filter)
  let no_flags = !occs.iter().any(|(s, _)| s == "off") && filter.is_none();
  let unused_sev = {
    let s = severity_reading(occs, "unused-suppression", if no_flags { "hint" } else { "off" }, drop_mixed);
    s
  };
  let rule_langs: BTreeSet<usize> = enabled.iter().map(|(r, _)| r.lang).collect();
  let (mc, sup) = match_tables(p);
  let mut out: BTreeMap<(String, String), usize> = BTreeMap::new();
  let mut errors = 0usize;
  for f in &p.files {
    if hidden_dir(&f.path) {
      continue;
    }
    let Some(fl) = doc_lang(p, order, &f.path) else { continue };
    // the walker's type filter (trusted `ignore` crate): file names matching `*.<ext>` of a rule's
    // language, a language glob of it, or those of a language that can host it (Html)
    let hosted: BTreeSet<usize> = if fl == 8 { f.injected.iter().map(|x| x.1).collect() } else { BTreeSet::new() };
    let name = f.path.rsplit('/').next().unwrap();
    let type_match = |l: usize| {
      lang_t(l).exts.iter().chain(extra_exts(l).iter()).any(|e| name.ends_with(&format!(".{e}")))
        || if alias_first {
          order.iter().map(|i| &p.lang_globs[*i]).find(|(_, gl, _)| *gl == l).map_or(false, |(_, _, gs)| gs.iter().any(|g| type_glob_matches(g, &f.path)))
        } else {
          p.lang_globs.iter().any(|(_, gl, gs)| *gl == l && gs.iter().any(|g| type_glob_matches(g, &f.path)))
        }
    };
    // with no enabled rule there is no type filter at all: every non-hidden file is walked (and a
    // file of a known language is then scanned with zero rules: only unused suppressions can show)
    let visited = if rule_langs.is_empty() {
      !name.starts_with('.')
    } else {
      rule_langs.iter().any(|l| type_match(*l) || (matches!(l, 4 | 10 | 21 | 20) && type_match(8)))
    };
    if !visited {
      continue;
    }
    let mut docs = vec![fl];
    docs.extend(hosted.iter());
    for doc in docs {
      let applied: Vec<&(&URule, String)> = enabled
        .iter()
        .filter(|(r, _)| {
          r.lang == doc
            && r.files.as_ref().map_or(true, |fs| fs.iter().any(|g| glob_matches(g, &f.path) == Some(true)))
            && !r.ignores.as_ref().map_or(false, |fs| fs.iter().any(|g| glob_matches(g, &f.path) == Some(true)))
        })
        .copied()
        .collect();
      for (r, s) in &applied {
        let n: usize = mc
          .iter()
          .filter(|m| m[0] == json!(r.id) && m[1] == json!(f.path) && m[2] == json!(doc))
          .map(|m| m[3].as_u64().unwrap() as usize)
          .sum();
        if n > 0 {
          *out.entry((f.path.clone(), r.id.clone())).or_default() += n;
          if s == "error" {
            errors += n;
          }
        }
      }
      if unused_sev != "off" {
        let n = sup
          .iter()
          .filter(|s| s[0] == json!(f.path) && s[1] == json!(doc))
          .filter(|s| !s[2].as_array().unwrap().iter().any(|c| applied.iter().any(|(r, _)| json!(r.id) == *c)))
          .count();
        if n > 0 {
          *out.entry((f.path.clone(), "unused-suppression".to_string())).or_default() += n;
          if unused_sev == "error" {
            errors += n;
          }
        }
      }
    }
  }
  (out.into_iter().map(|((f, id), n)| (f, id, n)).collect(), if errors > 0 { 1 } else { 0 })
}

fn findings_json(v: &[(String, String, usize)]) -> Value {
  json!(v.iter().map(|(f, id, n)| json!([f, id, n])).collect::<Vec<_>>())
}

pub fn cli(ctx: &Ctx, rng: &mut Rng, o: &mut Out) {
  let sg = Sg::new();
  // ---- severity flags on a fixed project
  let fixed = tempfile::tempdir().unwrap();
  std::fs::write(fixed.path().join("sgconfig.yml"), "ruleDirs: [rules]\n").unwrap();
  std::fs::create_dir_all(fixed.path().join("rules")).unwrap();
  std::fs::write(fixed.path().join("a.ts"), "let a = 1\n").unwrap();
  let ids: Vec<String> = (0..4).map(|i| format!("r{i}")).collect();
  let n = if ctx.thorough { 3000 } else { 220 };
  let mut cases = 0usize;
  for _ in 0..n {
    let own: Vec<String> = ids.iter().map(|_| rng.pick(&SEVS).to_string()).collect();
    let yaml: Vec<String> = ids
      .iter()
      .zip(&own)
      .map(|(id, s)| format!("id: {id}\nlanguage: TypeScript\nseverity: {s}\nrule: {{kind: number}}\n{}", if rng.chance(1, 2) { "fix: '0'\n" } else { "" }))
      .collect();
    std::fs::write(fixed.path().join("rules/all.yml"), yaml.join("---\n")).unwrap();
    let (occs, filter) = gen_flags(rng, &ids);
    let (code, out) = sg.run(fixed.path(), &flag_args(&occs, &filter));
    let (_, sev) = parse_findings(&out);
    let got: BTreeMap<&String, Value> = ids
      .iter()
      .map(|id| (id, sev.get(id).map(|s| json!(s.iter().next())).unwrap_or(Value::Null)))
      .collect();
    let r = if code == HANG { json!("hang") } else { json!({"sev": got, "exit": code}) };
    // oracle: documented reading of the flags
    cases += 1;
    let re = filter.as_ref().map(|f| regex::Regex::new(f).unwrap());
    let kept: Vec<usize> = (0..ids.len()).filter(|i| re.as_ref().map_or(true, |re| re.is_match(&ids[*i]))).collect();
    let (want_sev, want_exit): (BTreeMap<&String, Value>, i32) = if kept.is_empty() {
      (ids.iter().map(|id| (id, Value::Null)).collect(), 2)
    } else {
      let m: BTreeMap<&String, Value> = ids
        .iter()
        .enumerate()
        .map(|(i, id)| {
          let s = doc_severity(&occs, id, &own[i]);
          (id, if !kept.contains(&i) || s == "off" { Value::Null } else { json!(s) })
        })
        .collect();
      let e = if m.values().any(|v| v == "error") { 1 } else { 0 };
      (m, e)
    };
    if json!({"sev": want_sev, "exit": want_exit}) != r {
      let quirk_ok = {
        let m: BTreeMap<&String, Value> = ids
          .iter()
          .enumerate()
          .map(|(i, id)| {
            let s = severity_reading(&occs, id, &own[i], true);
            (id, if !kept.contains(&i) || s == "off" { Value::Null } else { json!(s) })
          })
          .collect();
        let e = if kept.is_empty() { 2 } else if m.values().any(|v| v == "error") { 1 } else { 0 };
        json!({"sev": m, "exit": e}) == r
      };
      let class = if mixed_flags(&occs) && quirk_ok { "flags bare-and-id-of-same-severity".to_string() } else { format!("flags n={} filter={}", occs.len(), filter.is_some()) };
      o.oracle("c15-severity", false, json!({"fp": format!("c15 {class}"), "own": own, "args": flag_args(&occs, &filter), "expected": {"sev": want_sev, "exit": want_exit}, "actual": r}));
    }
    o.op(
      "sev_cli",
      json!({"rules": ids.iter().zip(&own).map(|(i, s)| json!({"id": i, "sev": s})).collect::<Vec<_>>(), "occs": occs_json(&occs), "filter": filter_json(&filter, &ids)}),
      r,
    );
  }
  o.oracle("c15-severity", true, json!({"cases": cases}));

  // ---- generated projects, non-overlapping language globs
  let n = if ctx.thorough { 1500 } else { 110 };
  let mut cases = 0usize;
  let mut transient_hangs: Vec<String> = vec![];
  for pi in 0..n {
    let mut p = gen_project(rng, false);
    if pi % 4 == 0 {
      // two rules that match the SAME node of one file, and a suppression that names only the one
      // that is tried first (rules without a fix are tried in the order of their ids): the other
      // rule's finding — of error severity — is not suppressed and decides the exit status
      let (a, b) = (format!("a-style{pi}"), format!("no-num{pi}"));
      p.rules.push(URule { id: a.clone(), lang: 10, sev: "hint".into(), files: None, ignores: None, kind: "number".into() });
      p.rules.push(URule { id: b.clone(), lang: 10, sev: "error".into(), files: None, ignores: None, kind: "number".into() });
      let (first, other) = if pi % 8 == 0 { (a, b) } else { (b, a) };
      p.files.push(PFile {
        path: format!("src/two-rules-{pi}.js"),
        content_lang: Some(10),
        lines: vec![
          (format!("// ast-grep-ignore: {first}"), String::new(), Some(Some(first))),
          ("let a = 1".to_string(), "number".to_string(), None),
          ("let b = 2".to_string(), "number".to_string(), None),
          (format!("// ast-grep-ignore: {other}"), String::new(), Some(Some(other))),
          ("let c = 3".to_string(), "number".to_string(), None),
        ],
        injected: vec![],
      });
    }
    let ids: Vec<String> = p.rules.iter().map(|r| r.id.clone()).collect();
    let (occs, filter) = gen_flags(rng, &ids);
    let dir = materialize(&p);
    let (mut code, mut out) = sg.run(dir.path(), &flag_args(&occs, &filter));
    // a launch that does not finish in 20 s is retried twice: a reproducible hang is this property's
    // failure (`c15 hang`); a transient one is a schedule-dependent observation (C11/C17 territory),
    // counted in the family's summary line and the project directory is kept for inspection
    let mut kept_dir = None;
    if code == HANG {
      let mut again = 0;
      for _ in 0..2 {
        let (c2, o2) = sg.run(dir.path(), &flag_args(&occs, &filter));
        if c2 == HANG {
          again += 1;
        } else {
          code = c2;
          out = o2;
          break;
        }
      }
      let k = dir.into_path();
      eprintln!("agv-sg did not finish within 20 s ({} of {} launches); project kept at {}", again + 1, if again == 2 { 3 } else { again + 2 }, k.display());
      if code != HANG {
        transient_hangs.push(k.display().to_string());
      }
      kept_dir = Some(k);
    }
    let (found, _) = parse_findings(&out);
    let r = if code == HANG { json!("hang") } else { json!({"findings": findings_json(&found), "exit": code}) };
    let order = sorted_order(&p);
    let (want, want_exit) = reference(&p, &occs, &filter, &order);
    cases += 1;
    if json!({"findings": findings_json(&want), "exit": want_exit}) != r {
      let class = if code == HANG {
        "hang".to_string()
      } else if mixed_flags(&occs) && {
        let (w2, e2) = reference_with(&p, &occs, &filter, &order, true, false);
        json!({"findings": findings_json(&w2), "exit": e2}) == r
      } {
        "flags bare-and-id-of-same-severity".to_string()
      } else if alias_keys(&p) && {
        let (w2, e2) = reference_with(&p, &occs, &filter, &order, false, true);
        json!({"findings": findings_json(&w2), "exit": e2}) == r
      } {
        "langglobs two-keys-same-language".to_string()
      } else if alias_keys(&p) && mixed_flags(&occs) && {
        let (w2, e2) = reference_with(&p, &occs, &filter, &order, true, true);
        json!({"findings": findings_json(&w2), "exit": e2}) == r
      } {
        "langglobs two-keys-same-language + flags bare-and-id-of-same-severity".to_string()
      } else {
        let first = found.iter().find(|x| !want.contains(x)).or_else(|| want.iter().find(|x| !found.contains(x)));
        format!(
          "project langglobs={} filter={} flags={} first-diff-ext={}",
          !p.lang_globs.is_empty(),
          filter.is_some(),
          !occs.is_empty(),
          first.map(|x| x.0.rsplit('.').next().unwrap_or("").to_string()).unwrap_or_else(|| "exit".into())
        )
      };
      o.oracle("c15-select", false, json!({"fp": format!("c15 {class}"), "kept": kept_dir.as_ref().map(|k| k.display().to_string()), "args": flag_args(&occs, &filter), "project": proj_args(&p, &occs, &filter), "expected": {"findings": findings_json(&want), "exit": want_exit}, "actual": r}));
    }
    o.op("scan_project", proj_args(&p, &occs, &filter), r);
  }
  o.oracle("c15-select", true, json!({"cases": cases, "transient_hangs": transient_hangs}));

  // ---- H21: overlapping language globs: the outcome must not depend on the process launch, and
  // must be the documented outcome for *some* precedence among the overlapping languages
  let n = if ctx.thorough { 200 } else { 16 };
  let mut cases = 0usize;
  for _ in 0..n {
    let mut p = gen_project(rng, true);
    // make sure there is something to see: a `*.foo` file and an always-on rule per JS-family language
    let ids0: Vec<String> = p.rules.iter().map(|r| r.id.clone()).collect();
    p.files.push(gen_file(rng, "zz.foo".to_string(), Some(21), &ids0));
    for (i, l) in [21usize, 10, 20].iter().enumerate() {
      p.rules.push(URule { id: format!("fam{i}"), lang: *l, sev: "warning".into(), files: None, ignores: None, kind: "number".into() });
    }
    p.files.last_mut().unwrap().lines = vec![("let a = 1".to_string(), "number".to_string(), None)];
    for r in p.rules.iter_mut() {
      // keep this family about languages only
      if r.files.iter().flatten().chain(r.ignores.iter().flatten()).any(|g| globset::Glob::new(g).is_err()) {
        r.files = None;
        r.ignores = None;
      }
    }
    let dir = materialize(&p);
    let mut outcomes: BTreeSet<String> = BTreeSet::new();
    let runs = 8;
    for _ in 0..runs {
      let (code, out) = sg.run(dir.path(), &flag_args(&[], &None));
      let (found, _) = parse_findings(&out);
      outcomes.insert(json!({"findings": findings_json(&found), "exit": code}).to_string());
      cases += 1;
    }
    // the documented outcome: precedence among the entries = sorted by key (since 1c5d0c8)
    let allowed: BTreeSet<String> = {
      let (w, e) = reference(&p, &[], &None, &sorted_order(&p));
      [json!({"findings": findings_json(&w), "exit": e}).to_string()].into_iter().collect()
    };
    let distinct_langs: BTreeSet<usize> = p.lang_globs.iter().map(|x| x.1).collect();
    if outcomes.len() > 1 {
      o.oracle("c15-langglobs-overlap", false, json!({"fp": "langglobs overlapping-globs outcome-varies-between-launches", "langGlobs": p.lang_globs.iter().map(|x| json!([x.0, x.2])).collect::<Vec<_>>(), "distinct_outcomes": outcomes.len(), "runs": runs, "languages": distinct_langs}));
    } else if !outcomes.iter().all(|x| allowed.contains(x)) {
      o.oracle("c15-langglobs-overlap", false, json!({"fp": "langglobs overlapping-globs outcome-not-documented", "langGlobs": p.lang_globs.iter().map(|x| json!([x.0, x.2])).collect::<Vec<_>>(), "actual": outcomes, "allowed": allowed}));
    }
  }
  o.oracle("c15-langglobs-overlap", true, json!({"cases": cases}));
}

fn permute(v: &mut Vec<usize>, k: usize, out: &mut Vec<Vec<usize>>) {
  if k >= v.len() {
    out.push(v.clone());
    return;
  }
  for i in k..v.len() {
    v.swap(k, i);
    permute(v, k + 1, out);
    v.swap(k, i);
  }
}

// ---------------------------------------------------------------------------------------
// replay

pub fn exec(op: &str, a: &Value) -> Option<Value> {
  let rules = || -> Vec<URule> {
    a["rules"]
      .as_array()
      .map(|v| {
        v.iter()
          .map(|r| {
            let strs = |k: &str| r[k].as_array().map(|x| x.iter().filter_map(|s| s.as_str().map(String::from)).collect::<Vec<_>>());
            let lang = r["lang"].as_u64().unwrap_or(21) as usize;
            URule {
              id: r["id"].as_str().unwrap_or("").to_string(),
              lang,
              sev: r["sev"].as_str().unwrap_or("hint").to_string(),
              files: strs("files"),
              ignores: strs("ignores"),
              kind: lang_t(lang).lines[0].1.to_string(),
            }
          })
          .collect()
      })
      .unwrap_or_default()
  };
  Some(match op {
    "path_ext" => path_ext(a["p"].as_str().unwrap_or("")),
    "coll_for_path" => {
      let paths: Vec<String> = a["paths"].as_array()?.iter().filter_map(|s| s.as_str().map(String::from)).collect();
      coll_for_path(&rules(), &paths)
    }
    _ => return None,
  })
}
