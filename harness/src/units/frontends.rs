//! C08 / C09a units: one rule (set) and one text pushed through every front end --
//! `agv-sg scan --json` / `--format github` / `--stdin` / `-U`, `agv-sg test [-U]`, the library
//! calls `Node::replace` / `AstGrep::replace`, and an in-process tower-lsp `LspService` over a
//! duplex stream (as crates/lsp/tests/basic.rs) -- and compared pairwise (oracle) and with the
//! Lean model of the plumbing (`Model/Frontends.lean`, correspondence).
use super::Ctx;
use crate::util::*;
use ast_grep_config::{from_yaml_string, GlobalRules, RuleCollection, RuleConfig, RuleCore, SerializableRuleCore};
use ast_grep_config::{DeserializeEnv, Severity};
use ast_grep_core::matcher::MatcherExt;
use ast_grep_core::meta_var::{MetaVarEnv, MetaVariable};
use ast_grep_core::replacer::Replacer;
use ast_grep_core::{Language, Node, StrDoc};
use ast_grep_language::SupportLang;
use ast_grep_lsp::{Backend, LspService, Server};
use serde_json::{json, Value};
use std::collections::{BTreeMap, BTreeSet};
use std::path::{Path, PathBuf};
use std::time::Duration;
use tokio::io::{duplex, AsyncReadExt, AsyncWriteExt, DuplexStream};

type SDoc = StrDoc<SupportLang>;

// ---------------------------------------------------------------------------------------
// the real CLI

fn sg_bin() -> PathBuf {
  let exe = std::env::current_exe().expect("current exe");
  exe.parent().expect("dir").join("agv-sg")
}

/// run the CLI in `cwd` with a wall-clock timeout; (exit status | "hang" | "signal", stdout)
fn run_cli(cwd: &Path, args: &[&str], stdin: Option<&str>, secs: u64) -> (String, String) {
  use std::io::{Read, Write};
  use std::process::{Command, Stdio};
  let mut child = Command::new(sg_bin())
    .args(args)
    .current_dir(cwd)
    .stdin(if stdin.is_some() { Stdio::piped() } else { Stdio::null() })
    .stdout(Stdio::piped())
    .stderr(Stdio::null())
    .env("NO_COLOR", "1")
    .spawn()
    .expect("spawn agv-sg");
  if let Some(text) = stdin {
    let mut si = child.stdin.take().expect("stdin");
    let text = text.to_string();
    std::thread::spawn(move || {
      let _ = si.write_all(text.as_bytes());
    });
  }
  let mut out = child.stdout.take().expect("stdout");
  let reader = std::thread::spawn(move || {
    let mut s = String::new();
    let _ = out.read_to_string(&mut s);
    s
  });
  let t0 = std::time::Instant::now();
  loop {
    match child.try_wait().expect("wait") {
      Some(st) => {
        let s = reader.join().unwrap_or_default();
        return (st.code().map(|c| c.to_string()).unwrap_or_else(|| "signal".into()), s);
      }
      None => {
        if t0.elapsed() > Duration::from_secs(secs) {
          let _ = child.kill();
          let _ = child.wait();
          return ("hang".into(), String::new());
        }
        std::thread::sleep(Duration::from_millis(2));
      }
    }
  }
}

fn write_file(dir: &Path, rel: &str, content: &str) {
  let path = dir.join(rel);
  if let Some(d) = path.parent() {
    std::fs::create_dir_all(d).unwrap();
  }
  std::fs::write(&path, content).unwrap();
}

// ---------------------------------------------------------------------------------------
// reference position arithmetic (written from the LSP / JSON documentation: zero-based line =
// number of '\n' before the offset, column = number of characters since the line start)

fn pos_of(src: &str, off: usize) -> (usize, usize) {
  let before = &src[..off];
  let line = before.matches('\n').count();
  let ls = before.rfind('\n').map(|i| i + 1).unwrap_or(0);
  (line, before[ls..].chars().count())
}

fn off_of(src: &str, line: usize, col: usize) -> Option<usize> {
  let mut start = 0usize;
  for _ in 0..line {
    start += src[start..].find('\n')? + 1;
  }
  let rest = &src[start..];
  let mut n = 0usize;
  for (i, c) in rest.char_indices() {
    if n == col {
      return Some(start + i);
    }
    if c == '\n' {
      return None;
    }
    n += 1;
  }
  if n == col {
    Some(src.len())
  } else {
    None
  }
}

fn splice(src: &str, s: usize, e: usize, rep: &str) -> Option<String> {
  if s <= e && e <= src.len() && src.is_char_boundary(s) && src.is_char_boundary(e) {
    Some(format!("{}{}{}", &src[..s], rep, &src[e..]))
  } else {
    None
  }
}

/// apply ordered, disjoint byte edits (last first)
fn splice_all(src: &str, edits: &[(usize, usize, String)]) -> Option<String> {
  let mut cur = src.to_string();
  let mut bound = usize::MAX;
  for (s, e, rep) in edits.iter().rev() {
    if *e > bound {
      return None;
    }
    cur = splice(&cur, *s, *e, rep)?;
    bound = *s;
  }
  Some(cur)
}

// ---------------------------------------------------------------------------------------
// in-process language server

struct LspIo {
  req: DuplexStream,
  resp: DuplexStream,
  buf: Vec<u8>,
  id: i64,
}

impl LspIo {
  async fn send(&mut self, v: &Value) -> Option<()> {
    let body = serde_json::to_string(v).ok()?;
    let msg = format!("Content-Length: {}\r\n\r\n{}", body.len(), body);
    self.req.write_all(msg.as_bytes()).await.ok()
  }

  fn try_parse(&mut self) -> Option<Value> {
    let pos = self.buf.windows(4).position(|w| w == b"\r\n\r\n")?;
    let header = std::str::from_utf8(&self.buf[..pos]).ok()?;
    let len: usize = header
      .lines()
      .find_map(|l| l.strip_prefix("Content-Length: "))
      .and_then(|n| n.trim().parse().ok())?;
    if self.buf.len() < pos + 4 + len {
      return None;
    }
    let body: Vec<u8> = self.buf[pos + 4..pos + 4 + len].to_vec();
    self.buf.drain(..pos + 4 + len);
    serde_json::from_slice(&body).ok()
  }

  async fn read_msg(&mut self) -> Option<Value> {
    loop {
      if let Some(v) = self.try_parse() {
        return Some(v);
      }
      let mut tmp = vec![0u8; 1 << 16];
      let n = tokio::time::timeout(Duration::from_secs(10), self.resp.read(&mut tmp)).await.ok()?.ok()?;
      if n == 0 {
        return None;
      }
      self.buf.extend_from_slice(&tmp[..n]);
    }
  }

  /// read until `pred`; requests of the server to the client are answered on the way
  /// (`workspace/workspaceFolders` -> null: on_open awaits it before publishing)
  async fn pump(&mut self, pred: impl Fn(&Value) -> bool) -> Option<Value> {
    loop {
      let m = self.read_msg().await?;
      if m.get("method").is_some() && m.get("id").is_some() {
        let result = match m["method"].as_str() {
          Some("workspace/applyEdit") => json!({"applied": true}),
          _ => Value::Null,
        };
        self.send(&json!({"jsonrpc": "2.0", "id": m["id"], "result": result})).await?;
        continue;
      }
      if pred(&m) {
        return Some(m);
      }
    }
  }

  async fn request(&mut self, method: &str, params: Value) -> Option<Value> {
    self.id += 1;
    let id = self.id;
    self.send(&json!({"jsonrpc": "2.0", "id": id, "method": method, "params": params})).await?;
    let m = self.pump(|m| m.get("method").is_none() && m["id"] == json!(id)).await?;
    Some(m["result"].clone())
  }

  async fn notify(&mut self, method: &str, params: Value) -> Option<()> {
    self.send(&json!({"jsonrpc": "2.0", "method": method, "params": params})).await
  }
}

pub struct LspSession {
  rt: tokio::runtime::Runtime,
  io: LspIo,
}

impl LspSession {
  pub fn start(rules: Vec<RuleConfig<SupportLang>>, base: &Path) -> Option<Self> {
    let rt = tokio::runtime::Builder::new_multi_thread().worker_threads(1).enable_all().build().ok()?;
    let rc = RuleCollection::try_new(rules).map_err(|e| e.to_string());
    let base = base.to_path_buf();
    let (req_client, resp_client) = {
      let _g = rt.enter();
      let (service, socket) = LspService::build(|client| Backend::new(client, base, rc)).finish();
      let (req_client, req_server) = duplex(1 << 20);
      let (resp_server, resp_client) = duplex(1 << 20);
      rt.spawn(Server::new(req_server, resp_server, socket).serve(service));
      (req_client, resp_client)
    };
    let mut s = LspSession { rt, io: LspIo { req: req_client, resp: resp_client, buf: vec![], id: 0 } };
    let caps = json!({"capabilities": {"textDocument": {"codeAction": {"codeActionLiteralSupport": {"codeActionKind": {"valueSet": ["quickfix", "source.fixAll"]}}}}}});
    s.rt.block_on(s.io.request("initialize", caps))?;
    s.rt.block_on(s.io.notify("initialized", json!({})))?;
    Some(s)
  }

  /// didOpen, then the diagnostics of the `publishDiagnostics` for that uri
  pub fn open(&mut self, uri: &str, lang_id: &str, version: i64, text: &str) -> Option<Vec<Value>> {
    let p = json!({"textDocument": {"uri": uri, "languageId": lang_id, "version": version, "text": text}});
    self.rt.block_on(self.io.notify("textDocument/didOpen", p))?;
    let u = uri.to_string();
    let m = self.rt.block_on(
      self
        .io
        .pump(move |m| m["method"] == json!("textDocument/publishDiagnostics") && m["params"]["uri"] == json!(u)),
    )?;
    m["params"]["diagnostics"].as_array().cloned()
  }

  /// `textDocument/codeAction`; the text edits of every returned action, in order
  pub fn code_action(&mut self, uri: &str, diags: &[Value], only: Option<&str>) -> Option<Vec<Vec<Value>>> {
    let mut ctx = json!({"diagnostics": diags});
    if let Some(k) = only {
      ctx["only"] = json!([k]);
    }
    let zero = json!({"line": 0, "character": 0});
    let p = json!({"textDocument": {"uri": uri}, "range": {"start": zero, "end": zero}, "context": ctx});
    let r = self.rt.block_on(self.io.request("textDocument/codeAction", p))?;
    let Some(actions) = r.as_array() else {
      return Some(vec![]);
    };
    Some(
      actions
        .iter()
        .map(|a| a["edit"]["changes"][uri].as_array().cloned().unwrap_or_default())
        .collect(),
    )
  }
}

/// `[sl, sc, el, ec]` of an LSP range
fn lsp_range(v: &Value) -> Value {
  json!([v["start"]["line"], v["start"]["character"], v["end"]["line"], v["end"]["character"]])
}

fn edit_json(e: &Value) -> Value {
  let r = lsp_range(&e["range"]);
  json!([r[0], r[1], r[2], r[3], e["newText"]])
}

/// byte edit of an LSP text edit `[sl, sc, el, ec, text]` on `src` (client-side conversion)
fn edit_bytes(src: &str, e: &Value) -> Option<(usize, usize, String)> {
  let n = |i: usize| e[i].as_u64().map(|x| x as usize);
  let s = off_of(src, n(0)?, n(1)?)?;
  let t = off_of(src, n(2)?, n(3)?)?;
  Some((s, t, e[4].as_str()?.to_string()))
}

/// canonical order of records: by the numeric fields `nums`, then by the string fields `strs`
/// (bytewise); the Lean driver sorts the model's records with the same key
fn sort_by_fields(v: &mut [Value], nums: &[usize], strs: &[usize]) {
  let key = |x: &Value| -> (Vec<u64>, Vec<Vec<u8>>) {
    (
      nums.iter().map(|i| x[*i].as_u64().unwrap_or(0)).collect(),
      strs.iter().map(|i| x[*i].as_str().unwrap_or("").as_bytes().to_vec()).collect(),
    )
  };
  v.sort_by(|a, b| key(a).cmp(&key(b)));
}

/// `[sl, sc, el, ec, text]` records
fn sort_values(v: &mut [Value]) {
  sort_by_fields(v, &[0, 1, 2, 3], &[4]);
}

// ---------------------------------------------------------------------------------------
// which code base is this? (pinned code vs. the code with FIX_C08 / FIX_C09 applied), decided
// by behaviour on minimal inputs so that the correspondence checks everything else against the
// matching variant of the model

#[derive(Clone, Copy, Debug)]
pub struct Variant {
  /// `impl Replacer for &T` forwards `get_replaced_range`
  pub ref_forwards: bool,
  /// the LSP quick-fix / fix-all use the fixer's replaced range
  pub lsp_fixer_range: bool,
  /// LSP fix-all orders nested matches that start together outermost first (as the CLI does)
  pub lsp_outer_first: bool,
  /// `scan --stdin` drops `severity: off` rules
  pub stdin_filters_off: bool,
  /// `scan --stdin` drops rules written for another language than the one stdin is parsed as
  pub stdin_filters_lang: bool,
}

impl Variant {
  fn json(&self) -> Value {
    json!({"ref": self.ref_forwards, "lsp": self.lsp_fixer_range, "outer": self.lsp_outer_first, "stdin_off": self.stdin_filters_off,
      "stdin_lang": self.stdin_filters_lang})
  }
  fn from_json(v: &Value) -> Self {
    Variant {
      ref_forwards: v["ref"].as_bool().unwrap_or(false),
      lsp_fixer_range: v["lsp"].as_bool().unwrap_or(false),
      lsp_outer_first: v["outer"].as_bool().unwrap_or(false),
      stdin_filters_off: v["stdin_off"].as_bool().unwrap_or(false),
      stdin_filters_lang: v["stdin_lang"].as_bool().unwrap_or(false),
    }
  }
}

const PROBE_EXPAND: &str = "id: p\nlanguage: JavaScript\nrule: {kind: identifier, regex: '^b$'}\nfix:\n  template: ''\n  expandEnd: {regex: '^,$'}\n";
const PROBE_NESTED: &str = "id: p\nlanguage: JavaScript\nrule:\n  any: [{kind: expression_statement}, {kind: call_expression}]\nfix: 'X'\n";
const PROBE_OFF: &str = "id: p\nlanguage: JavaScript\nseverity: 'off'\nrule: {kind: number}\n";
/// a JavaScript rule first (stdin is parsed as JavaScript), then a TypeScript rule whose kind id
/// (`debugger`) is the one of the JavaScript keyword `finally`
const PROBE_LANG: &str = "id: p\nlanguage: JavaScript\nrule: {pattern: console.log($A)}\n---\nid: rts\nlanguage: TypeScript\nrule: {pattern: debugger}\n";
const PROBE_LANG_TEXT: &str = "try { console.log(1) } finally { f() }\n";

fn load_rules(yaml: &str) -> Option<Vec<RuleConfig<SupportLang>>> {
  from_yaml_string::<SupportLang>(yaml, &GlobalRules::default()).ok()
}

pub fn probe_variant() -> Variant {
  // &Fixer through Node::replace
  let rules = load_rules(PROBE_EXPAND).expect("probe rule");
  let rule = &rules[0];
  let grep = SupportLang::JavaScript.ast_grep("foo(b, c)");
  let fixer = rule.matcher.fixer.as_ref().expect("fixer");
  let e = grep.root().replace(&rule.matcher, fixer).expect("probe match");
  let ref_forwards = e.deleted_length == 2;
  // LSP quick fix range
  let base = std::env::temp_dir();
  let uri = format!("file://{}/agv_probe.js", base.display());
  let mut lsp_fixer_range = false;
  if let Some(mut s) = LspSession::start(load_rules(PROBE_EXPAND).expect("probe"), &base) {
    if let Some(ds) = s.open(&uri, "javascript", 1, "foo(b, c)") {
      if let Some(acts) = s.code_action(&uri, &ds, None) {
        if let Some(e) = acts.first().and_then(|a| a.first()) {
          lsp_fixer_range = edit_json(e) == json!([0, 4, 0, 6, ""]);
        }
      }
    }
  }
  let mut lsp_outer_first = false;
  if let Some(mut s) = LspSession::start(load_rules(PROBE_NESTED).expect("probe"), &base) {
    if let Some(_ds) = s.open(&uri, "javascript", 1, "foo(1);") {
      if let Some(acts) = s.code_action(&uri, &[], Some("source.fixAll")) {
        if let Some(e) = acts.first().and_then(|a| a.first()) {
          lsp_outer_first = edit_json(e) == json!([0, 0, 0, 7, "X"]);
        }
      }
    }
  }
  let dir = tempfile::tempdir().expect("tempdir");
  let (_, out) = run_cli(dir.path(), &["scan", "--stdin", "--inline-rules", PROBE_OFF, "--json=stream"], Some("f(1)"), 20);
  let stdin_filters_off = out.trim().is_empty();
  let (_, out) = run_cli(dir.path(), &["scan", "--stdin", "--inline-rules", PROBE_LANG, "--json=stream"], Some(PROBE_LANG_TEXT), 20);
  let stdin_filters_lang = !parse_json_stream(&out).iter().any(|r| r["ruleId"] == json!("rts"));
  Variant { ref_forwards, lsp_fixer_range, lsp_outer_first, stdin_filters_off, stdin_filters_lang }
}

// ---------------------------------------------------------------------------------------
// generators

const JS_LINES: &[&str] = &[
  "var a = 1;\n",
  "var b = foo(2, 3)\n",
  "foo(1);\n",
  "foo(foo(4), b);\n",
  "console.log(a);\n",
  "  console.log('é', 中);\n",
  "let o = {x: 1, /* c */ y: 2, b, a,};\n",
  "f(a, b,c , d);\n",
  "const é = [ 10 ,20,\r\n 30 ];\r\n",
  "if (a) {\n    console.log({\n      a,\n    })\n}\n",
  "// é 中 𝒳\n",
  "x = '𝒳' + a;\n",
  "var c = [b,\n  a];\n",
  "\n",
  "var é = 'x'; var d = 2\n",
  "try { foo(1) } finally { f(a, b) }\n",
  // syntax errors: `kind: ERROR` rules are the documented way to flag them
  "let q = = 1;\n",
  "foo(1,, 2;\n",
];

fn gen_src(rng: &mut Rng) -> String {
  let n = 1 + rng.below(5);
  let mut s: String = (0..n).map(|_| *rng.pick(JS_LINES)).collect();
  // a file saved with a byte order mark: the mark is text (white space for the grammar), every
  // front end counts its three bytes / one character
  if rng.chance(1, 9) {
    s.insert(0, '\u{feff}');
  }
  if rng.chance(1, 4) {
    while s.ends_with('\n') || s.ends_with('\r') {
      s.pop();
    }
  }
  s
}

/// (rule object, fix templates, message templates)
const TARGETS: &[(&str, &[&str], &[&str])] = &[
  (r#"{"pattern":"var $A = $B"}"#, &["let $A = $B", "const $A = $B;", "$B", ""], &["no var $A", "use let for $A = $B", ""]),
  (r#"{"pattern":"foo($$$A)"}"#, &["bar($$$A)", "foo()", "[$$$A]"], &["foo called with $$$A", "foo"]),
  (r#"{"pattern":"console.log($A)"}"#, &["log($A)", "", "{\n  $A\n}"], &["no console: $A", "$A $A", "no console\nuse the logger of the module", "no console: $A\n  second line\nthird"]),
  (r#"{"kind":"number"}"#, &["0", "", "(9)"], &["number", ""]),
  (r#"{"kind":"pair"}"#, &["k: 0", ""], &["a pair"]),
  (r#"{"kind":"identifier","regex":"^[abé]$"}"#, &["z", "", "zz_中"], &["short name", "ident é"]),
  (r#"{"kind":"string"}"#, &["''", "\"s\""], &["string"]),
  (r#"{"kind":"shorthand_property_identifier"}"#, &["q", ""], &["shorthand"]),
  (r#"{"any":[{"kind":"expression_statement"},{"kind":"call_expression"}]}"#, &["X", "x()"], &["stmt or call"]),
  (r#"{"any":[{"kind":"member_expression"},{"kind":"identifier","regex":"^console$"}]}"#, &["m"], &["member"]),
  (r#"{"pattern":"$F($$$ARGS)","has":{"kind":"arguments","has":{"kind":"number"}}}"#, &["$F()", "call($$$ARGS)"], &["call $F with number", "$F: $$$ARGS"]),
  // two kinds whose nodes TOUCH without nesting (callee and argument list of one call)
  (r#"{"any":[{"kind":"identifier","regex":"^(foo|f|bar)$"},{"kind":"arguments"}]}"#, &["X", "", "(0)"], &["callee or arguments", "touching\nnodes"]),
  (r#"{"kind":"ERROR"}"#, &["", "/* syntax */"], &["syntax error", "syntax error here"]),
  (r#"{"kind":"ERROR","pattern":"$E"}"#, &["$E"], &["syntax error near $E"]),
];

const EXPS: &[&str] = &[
  r#"{"regex":"^,$"}"#,
  r#"{"kind":"number"}"#,
  r#"{"kind":"comment"}"#,
  r#"{"regex":"^[\\[\\]{}()]$"}"#,
  r#"{"kind":"pair"}"#,
  r#"{"regex":"^;$"}"#,
];
const STOPS: &[(&str, Option<&str>)] = &[
  ("neighbor", None),
  ("end", None),
  ("rule", Some(r#"{"kind":"comment"}"#)),
  ("rule", Some(r#"{"regex":"^,$"}"#)),
];

#[derive(Clone)]
struct FixSpec {
  target: usize,
  tmpl: String,
  message: String,
  object_form: bool,
  es: Option<(usize, usize)>,
  ee: Option<(usize, usize)>,
  transform: bool,
  note: Option<String>,
  severity: &'static str,
  id: String,
  with_fix: bool,
  /// a `constraints` section (JSON) for targets that capture single variables
  constraints: Option<&'static str>,
  /// a `files:` / `ignores:` section that selects every file of the case (`src/*.js`): a rule that is
  /// applied "depending on the path" next to rules that always apply
  path_keys: Option<&'static str>,
}

/// constraints per target: the `rule` part alone matches more than rule + constraints do, so a front
/// end that evaluates the bare rule reports findings the others do not
const CONSTRAINTS: &[(usize, &[&str])] = &[
  (0, &[r#"{"B":{"kind":"number"}}"#, r#"{"A":{"regex":"^[a-z]$"}}"#, r#"{"A":{"regex":"^[a-z]$"},"B":{"kind":"string"}}"#]),
  (2, &[r#"{"A":{"kind":"string"}}"#, r#"{"A":{"kind":"number"}}"#, r#"{"A":{"regex":"^[0-9a-z]$"}}"#]),
  (10, &[r#"{"F":{"regex":"^foo$"}}"#, r#"{"F":{"kind":"member_expression"}}"#]),
];

fn expansion_json(c: (usize, usize)) -> Value {
  let mut v: Value = serde_json::from_str(EXPS[c.0]).unwrap();
  v["stopBy"] = match STOPS[c.1] {
    ("rule", Some(r)) => serde_json::from_str(r).unwrap(),
    (k, _) => json!(k),
  };
  v
}

impl FixSpec {
  fn doc(&self) -> Value {
    let mut d = json!({
      "id": self.id,
      "language": "JavaScript",
      "severity": self.severity,
      "message": self.message,
      "rule": serde_json::from_str::<Value>(TARGETS[self.target].0).unwrap(),
    });
    if let Some(n) = &self.note {
      d["note"] = json!(n);
    }
    if let Some(c) = self.constraints {
      d["constraints"] = serde_json::from_str::<Value>(c).unwrap();
    }
    if let Some(k) = self.path_keys {
      for (key, val) in serde_json::from_str::<Value>(k).unwrap().as_object().unwrap() {
        d[key] = val.clone();
      }
    }
    if self.transform {
      // U = the text of the match's first line capitalised is too fancy: a plain replace
      d["transform"] = json!({"U": {"replace": {"source": "$A", "replace": "a", "by": "A_"}}});
    }
    if self.with_fix {
      if self.object_form {
        let mut f = json!({"template": self.tmpl});
        if let Some(c) = self.es {
          f["expandStart"] = expansion_json(c);
        }
        if let Some(c) = self.ee {
          f["expandEnd"] = expansion_json(c);
        }
        d["fix"] = f;
      } else {
        d["fix"] = json!(self.tmpl);
      }
    }
    d
  }
  fn yaml(&self) -> String {
    serde_yaml::to_string(&self.doc()).expect("yaml")
  }
  fn expanded(&self) -> bool {
    self.with_fix && self.object_form && (self.es.is_some() || self.ee.is_some())
  }
}

fn gen_fix_spec(rng: &mut Rng, id: &str, always_fix: bool) -> FixSpec {
  let target = rng.below(TARGETS.len());
  let (_, tmpls, msgs) = TARGETS[target];
  let object_form = rng.chance(1, 2);
  let mk = |rng: &mut Rng| -> Option<(usize, usize)> {
    if rng.chance(1, 2) {
      Some((rng.below(EXPS.len()), rng.below(STOPS.len())))
    } else {
      None
    }
  };
  let (es, ee) = if object_form { (mk(rng), mk(rng)) } else { (None, None) };
  let uses_a = TARGETS[target].0.contains("$A") && !TARGETS[target].0.contains("$ARGS");
  let transform = uses_a && rng.chance(1, 4);
  let mut message = rng.pick(msgs).to_string();
  if transform && rng.chance(1, 2) {
    message.push_str(" -> $U");
  }
  let mut tmpl = rng.pick(tmpls).to_string();
  if transform && !object_form && rng.chance(1, 2) {
    tmpl.push_str("/*$U*/");
  }
  FixSpec {
    target,
    tmpl,
    message,
    object_form,
    es,
    ee,
    transform,
    note: if rng.chance(1, 4) { Some("a note\nsecond line".to_string()) } else { None },
    severity: *rng.pick(&["error", "warning", "warning", "info", "hint"]),
    id: id.to_string(),
    with_fix: always_fix || rng.chance(1, 2),
    path_keys: if rng.chance(1, 4) {
      Some(*rng.pick(&[r#"{"files": ["**/*.js"]}"#, r#"{"ignores": ["**/vendor/**"]}"#, r#"{"files": ["src/**"], "ignores": ["**/*.ts"]}"#]))
    } else {
      None
    },
    constraints: match CONSTRAINTS.iter().find(|c| c.0 == target) {
      Some((_, cs)) if rng.chance(1, 2) => Some(*rng.pick(cs)),
      _ => None,
    },
  }
}

// ---------------------------------------------------------------------------------------
// what the library sees (in-process): matches, siblings, replacement, environments

fn aux_rule(rule: &str) -> RuleCore<SupportLang> {
  let core: SerializableRuleCore = ast_grep_config::from_str(&format!("rule: {rule}\n")).expect("aux rule parses");
  core.get_matcher(DeserializeEnv::new(SupportLang::JavaScript)).expect("aux rule loads")
}

fn sib_json<'a>(sibs: impl Iterator<Item = Node<'a, SDoc>>, c: Option<(usize, usize)>) -> Vec<Value> {
  let Some((e, s)) = c else {
    return vec![];
  };
  let exp = aux_rule(EXPS[e]);
  let stop = STOPS[s].1.map(aux_rule);
  sibs
    .map(|n| {
      let matched = exp.match_node(n.clone()).is_some();
      let stops = stop.as_ref().map(|r| r.match_node(n.clone()).is_some()).unwrap_or(false);
      json!([n.range().start, n.range().end, matched, stops])
    })
    .collect()
}

fn hexs(b: &[u8]) -> String {
  b.iter().map(|x| format!("{x:02x}")).collect()
}

fn env_json(env: &MetaVarEnv<SDoc>) -> Value {
  let mut single: BTreeMap<String, (usize, usize)> = BTreeMap::new();
  let mut multi: BTreeMap<String, (usize, usize)> = BTreeMap::new();
  let mut trans: BTreeMap<String, String> = BTreeMap::new();
  for v in env.get_matched_variables() {
    match v {
      MetaVariable::Capture(n, _) => {
        if let Some(node) = env.get_match(&n) {
          let r = node.range();
          single.insert(n.clone(), (r.start, r.end));
        }
        if let Some(b) = env.get_transformed(&n) {
          trans.insert(n.clone(), hexs(b));
        }
      }
      MetaVariable::MultiCapture(n) => {
        let nodes = env.get_multiple_matches(&n);
        if !nodes.is_empty() {
          multi.insert(n.clone(), (nodes[0].range().start, nodes[nodes.len() - 1].range().end));
        }
      }
      _ => {}
    }
  }
  json!({
    "single": single.iter().map(|(k, (s, e))| json!([k, s, e])).collect::<Vec<_>>(),
    "multi": multi.iter().map(|(k, (s, e))| json!([k, s, e])).collect::<Vec<_>>(),
    "trans": trans.iter().map(|(k, h)| json!([k, h])).collect::<Vec<_>>(),
  })
}

fn stop_name(c: Option<(usize, usize)>) -> Value {
  match c {
    None => Value::Null,
    Some((_, s)) => json!(STOPS[s].0),
  }
}

fn edit_triple(e: &ast_grep_core::source::Edit<String>) -> Value {
  json!([e.position, e.position + e.deleted_length, String::from_utf8_lossy(&e.inserted_text)])
}

// ---------------------------------------------------------------------------------------
// C08: one rule with a fix, several texts, every front end

struct EditObs {
  args: Value,
  result: Value,
  same_start: bool,
  n_matches: usize,
  /// the edits of `Node::replace_all` (oracle only: not part of the op the model answers)
  lib_all: Value,
}

fn parse_json_stream(out: &str) -> Vec<Value> {
  out.lines().filter(|l| !l.trim().is_empty()).filter_map(|l| serde_json::from_str(l).ok()).collect()
}

fn edit_case(v: &Variant, spec_yaml: &str, es: Option<(usize, usize)>, ee: Option<(usize, usize)>, srcs: &[String]) -> Option<Vec<EditObs>> {
  let rules = load_rules(spec_yaml)?;
  let rule = rules.first()?;
  let fixer = rule.matcher.fixer.as_ref()?;
  let dir = tempfile::tempdir().ok()?;
  let root = dir.path();
  write_file(root, "sgconfig.yml", "ruleDirs: [rules]\ntestConfigs:\n  - testDir: tests\n");
  write_file(root, "rules/r.yml", spec_yaml);
  let names: Vec<String> = (0..srcs.len()).map(|i| format!("src/a{i}.js")).collect();
  for (n, s) in names.iter().zip(srcs) {
    write_file(root, n, s);
  }
  // the test file: texts with a match are `invalid`, the others `valid`
  let mut valid: Vec<&String> = vec![];
  let mut invalid: Vec<&String> = vec![];
  let mut seen = BTreeSet::new();
  for s in srcs {
    if !seen.insert(s.clone()) {
      continue;
    }
    let g = SupportLang::JavaScript.ast_grep(s.as_str());
    if g.root().find(&rule.matcher).is_some() {
      invalid.push(s);
    } else {
      valid.push(s);
    }
  }
  let test_doc = json!({"id": rule.id, "valid": valid, "invalid": invalid});
  write_file(root, "tests/r-test.yml", &serde_yaml::to_string(&test_doc).ok()?);
  // 1. scan --json=stream
  let (st_json, out_json) = run_cli(root, &["scan", "--json=stream", "src"], None, 30);
  let recs = parse_json_stream(&out_json);
  // 2. test -U
  let (st_test, _) = run_cli(root, &["test", "-U"], None, 30);
  let snap_path = root.join("tests/__snapshots__").join(format!("{}-snapshot.yml", rule.id));
  let snaps: Value = std::fs::read_to_string(&snap_path)
    .ok()
    .and_then(|s| serde_yaml::from_str::<Value>(&s).ok())
    .unwrap_or(Value::Null);
  // 3. scan -U
  let (st_upd, _) = run_cli(root, &["scan", "-U", "src"], None, 30);
  // 4. language server
  let mut lsp = LspSession::start(load_rules(spec_yaml)?, root);
  let mut ret = vec![];
  for (name, src) in names.iter().zip(srcs) {
    // the library
    let grep = SupportLang::JavaScript.ast_grep(src.as_str());
    let rootn = grep.root();
    let mut ms = vec![];
    let mut starts = BTreeSet::new();
    let mut same_start = false;
    for nm in rootn.find_all(&rule.matcher) {
      let node = nm.get_node().clone();
      let ins = Replacer::<SDoc>::generate_replacement(fixer, &nm);
      if !starts.insert(node.range().start) {
        same_start = true;
      }
      ms.push(json!({
        "n": [node.range().start, node.range().end],
        "p": sib_json(node.prev_all(), es),
        "x": sib_json(node.next_all(), ee),
        "ins": String::from_utf8_lossy(&ins),
      }));
    }
    let lib_ref = guard(|| rootn.replace(&rule.matcher, fixer).map(|e| edit_triple(&e)).unwrap_or(Value::Null));
    let lib_val = guard(|| {
      let mut again = load_rules(spec_yaml).expect("rule loads twice");
      let owned = again.remove(0).matcher.fixer.take().expect("fixer");
      rootn.replace(&rule.matcher, owned).map(|e| edit_triple(&e)).unwrap_or(Value::Null)
    });
    // `replace_all`: the library's replace-every-match call (no front end of the CLI uses it)
    let lib_all = guard(|| json!(rootn.replace_all(&rule.matcher, fixer).iter().map(edit_triple).collect::<Vec<_>>()));
    let astgrep = guard(|| {
      let mut g2 = SupportLang::JavaScript.ast_grep(src.as_str());
      match g2.replace(&rule.matcher, fixer) {
        Ok(true) => json!(g2.source()),
        Ok(false) => Value::Null,
        Err(_) => json!("err"),
      }
    });
    // the CLI
    let json_edits: Value = if st_json == "hang" {
      json!("hang")
    } else {
      let mut v = vec![];
      for r in recs.iter().filter(|r| r["file"].as_str() == Some(name.as_str())) {
        v.push(json!([
          r["range"]["byteOffset"]["start"],
          r["range"]["byteOffset"]["end"],
          r["replacementOffsets"]["start"],
          r["replacementOffsets"]["end"],
          r["replacement"],
        ]));
      }
      json!(v)
    };
    let update: Value = if st_upd == "hang" {
      json!("hang")
    } else {
      std::fs::read_to_string(root.join(name)).map(|s| json!(s)).unwrap_or(json!("unreadable"))
    };
    let snap: Value = if st_test == "hang" { json!("hang") } else { snaps["snapshots"][src.as_str()]["fixed"].clone() };
    // the language server
    let uri = format!("file://{}/{}", root.display(), name);
    let (diag, quick, fixall) = match lsp.as_mut() {
      None => (json!("no-server"), json!("no-server"), json!("no-server")),
      Some(s) => match s.open(&uri, "javascript", 1, src) {
        None => (json!("no-publish"), Value::Null, Value::Null),
        Some(ds) => {
          let mut dj: Vec<Value> = ds
            .iter()
            .map(|d| {
              let r = lsp_range(&d["range"]);
              json!([r[0], r[1], r[2], r[3], d["data"]["fixed"]])
            })
            .collect();
          sort_values(&mut dj);
          let quick = match s.code_action(&uri, &ds, None) {
            None => json!("timeout"),
            Some(acts) => {
              let mut q: Vec<Value> = acts.iter().flat_map(|a| a.iter().map(edit_json)).collect();
              sort_values(&mut q);
              json!(q)
            }
          };
          let fixall = match s.code_action(&uri, &[], Some("source.fixAll")) {
            None => json!("timeout"),
            Some(acts) => json!(acts.iter().flat_map(|a| a.iter().map(edit_json)).collect::<Vec<_>>()),
          };
          (json!(dj), quick, fixall)
        }
      },
    };
    let n_matches = ms.len();
    let args = json!({"v": v.json(), "src": src, "yaml": spec_yaml, "es": stop_name(es), "ee": stop_name(ee),
      "esx": es.map(|c| json!([c.0, c.1])), "eex": ee.map(|c| json!([c.0, c.1])), "ms": ms});
    let result = json!({"json": json_edits, "update": update, "snap": snap, "lib_val": lib_val, "lib_ref": lib_ref,
      "astgrep": astgrep, "diag": diag, "quick": quick, "fixall": fixall});
    ret.push(EditObs { args, result, same_start, n_matches, lib_all });
  }
  Some(ret)
}

/// the property itself on the observed outputs: every pair of front ends proposes the same edit
fn edit_oracle(obs: &EditObs, expanded: bool) -> Vec<(String, Value)> {
  let mut fails = vec![];
  let src = obs.args["src"].as_str().unwrap_or("");
  let r = &obs.result;
  let class = format!("expand={} same_start={}", expanded, obs.same_start);
  let mut fail = |pair: &str, detail: Value| {
    fails.push((format!("pair={pair} {class}"), detail));
  };
  let Some(js) = r["json"].as_array() else {
    fail("json/none", json!({"json": r["json"]}));
    return fails;
  };
  // the CLI's edits as byte triples
  let cli: Vec<(usize, usize, String)> = js
    .iter()
    .map(|e| (e[2].as_u64().unwrap_or(0) as usize, e[3].as_u64().unwrap_or(0) as usize, e[4].as_str().unwrap_or("").to_string()))
    .collect();
  if js.len() != obs.n_matches {
    fail("json/lib-matches", json!({"json": js.len(), "lib": obs.n_matches}));
  }
  let first = cli.first().map(|(s, e, t)| json!([s, e, t])).unwrap_or(Value::Null);
  // library, by value and by reference
  if r["lib_val"] != first {
    fail("json/lib-by-value", json!({"json": first, "lib": r["lib_val"]}));
  }
  if r["lib_ref"] != first {
    fail("json/lib-by-ref", json!({"json": first, "lib": r["lib_ref"]}));
  }
  // `replace_all` proposes, for the outermost matches, the very edits the CLI announces
  match obs.lib_all.as_array() {
    None => fail("json/lib-replace-all", json!({"lib": obs.lib_all})),
    Some(all) => {
      let announced: Vec<Value> = cli.iter().map(|(s, e, t)| json!([s, e, t])).collect();
      // the outermost matches in document order: a match is skipped when it lies inside the match
      // kept before it (match ranges `e[0]..e[1]` of the records, which come in pre-order)
      let mut outer: Vec<Value> = vec![];
      let mut last_end = 0usize;
      let mut any = false;
      for (e, edit) in js.iter().zip(&announced) {
        let (ms, me) = (e[0].as_u64().unwrap_or(0) as usize, e[1].as_u64().unwrap_or(0) as usize);
        if any && ms < last_end {
          continue;
        }
        any = true;
        last_end = me;
        outer.push(edit.clone());
      }
      if *all != outer {
        fail("json/lib-replace-all", json!({"json": announced, "outermost": outer, "replace_all": all}));
      }
    }
  }
  // AstGrep::replace and the snapshot of `sg test`: the text after the first edit
  let after_first = cli.first().and_then(|(s, e, t)| splice(src, *s, *e, t)).map(|s| json!(s)).unwrap_or(Value::Null);
  if r["astgrep"] != after_first {
    fail("json/astgrep-replace", json!({"expected": after_first, "got": r["astgrep"]}));
  }
  if r["snap"] != after_first {
    fail("json/test-snapshot", json!({"expected": after_first, "got": r["snap"]}));
  }
  // language server: one quick fix per match, same bytes, same text
  match r["quick"].as_array() {
    None => fail("json/lsp-quickfix", json!({"quick": r["quick"]})),
    Some(q) => {
      let mut lsp_edits: Vec<Option<(usize, usize, String)>> = q.iter().map(|e| edit_bytes(src, e)).collect();
      lsp_edits.sort();
      let mut want: Vec<Option<(usize, usize, String)>> = cli.iter().cloned().map(Some).collect();
      want.sort();
      if lsp_edits != want {
        fail("json/lsp-quickfix", json!({"json": js, "quick": q}));
      }
    }
  }
  // the diagnostics are on the matched nodes
  if let Some(d) = r["diag"].as_array() {
    let mut want: Vec<Value> = js
      .iter()
      .map(|e| {
        let (s, t) = (e[0].as_u64().unwrap_or(0) as usize, e[1].as_u64().unwrap_or(0) as usize);
        let (a, b) = (pos_of(src, s), pos_of(src, t));
        json!([a.0, a.1, b.0, b.1, e[4]])
      })
      .collect();
    sort_values(&mut want);
    if &want != d {
      fail("json/lsp-diagnostic", json!({"expected": want, "got": d}));
    }
  } else {
    fail("json/lsp-diagnostic", json!({"diag": r["diag"]}));
  }
  // -U and fix-all leave the same text
  match r["fixall"].as_array() {
    None => fail("update/lsp-fixall", json!({"fixall": r["fixall"]})),
    Some(fa) => {
      let edits: Option<Vec<(usize, usize, String)>> = fa.iter().map(|e| edit_bytes(src, e)).collect();
      let text = edits.and_then(|es| splice_all(src, &es)).map(|s| json!(s)).unwrap_or(Value::Null);
      if text != r["update"] {
        fail("update/lsp-fixall", json!({"update": r["update"], "fixall_text": text, "fixall": fa}));
      }
    }
  }
  fails
}

pub fn frontends_edit(ctx: &Ctx, rng: &mut Rng, o: &mut Out) {
  let v = probe_variant();
  o.op("info:variant", v.json(), Value::Null);
  let n_rules = if ctx.thorough { 3000 } else { 300 };
  let mut cases = 0usize;
  let mut skipped = 0usize;
  for i in 0..n_rules {
    let mut spec = gen_fix_spec(rng, "r1", true);
    // the first rules are the documented ones (trailing punctuation, expansion by a comma)
    if i == 0 {
      spec = FixSpec { target: 0, tmpl: "let $A = $B".into(), object_form: false, es: None, ee: None, transform: false, ..spec };
    } else if i == 1 {
      spec = FixSpec { target: 5, tmpl: "".into(), object_form: true, es: None, ee: Some((0, 0)), transform: false, ..spec };
    } else if i == 2 {
      spec = FixSpec { target: 8, tmpl: "X".into(), object_form: false, es: None, ee: None, transform: false, ..spec };
    }
    let yaml = spec.yaml();
    let srcs: Vec<String> = (0..3).map(|_| gen_src(rng)).collect();
    let Some(obs) = edit_case(&v, &yaml, spec.es, spec.ee, &srcs) else {
      skipped += 1;
      continue;
    };
    for ob in obs {
      cases += 1;
      for (fp, detail) in edit_oracle(&ob, spec.expanded()) {
        o.oracle("c08_same_edit", false, json!({"fp": fp, "yaml": yaml, "src": ob.args["src"], "detail": detail}));
      }
      o.op("fe_edits", ob.args, ob.result);
    }
  }
  o.oracle("c08_same_edit", true, json!({"cases": cases, "rules_skipped": skipped}));
}

// ---------------------------------------------------------------------------------------
// C09a: a rule set and a text through every reporting front end

fn sev_name(s: &Severity) -> &'static str {
  match s {
    Severity::Error => "error",
    Severity::Warning => "warning",
    Severity::Info => "info",
    Severity::Hint => "hint",
    Severity::Off => "off",
  }
}

/// `[id, bs, be, sl, sc, el, ec, message]` of a CLI JSON record
fn finding_of_json(r: &Value) -> Value {
  json!([
    r["ruleId"],
    r["range"]["byteOffset"]["start"],
    r["range"]["byteOffset"]["end"],
    r["range"]["start"]["line"],
    r["range"]["start"]["column"],
    r["range"]["end"]["line"],
    r["range"]["end"]["column"],
    r["message"],
  ])
}

fn sort_findings(v: &mut [Value]) {
  sort_by_fields(v, &[1, 2, 3, 4, 5, 6], &[0, 7]);
}

/// `::level file=F,line=L,endLine=E,title=ID::MESSAGE` lines; a message may span lines
fn parse_github(out: &str) -> Vec<Value> {
  let mut v: Vec<Value> = vec![];
  for line in out.split_inclusive('\n') {
    let l = line.strip_suffix('\n').unwrap_or(line);
    let parsed = (|| {
      let rest = l.strip_prefix("::")?;
      let (level, rest) = rest.split_once(" file=")?;
      let (file, rest) = rest.split_once(",line=")?;
      let (ln, rest) = rest.split_once(",endLine=")?;
      let (el, rest) = rest.split_once(",title=")?;
      let (title, msg) = rest.split_once("::")?;
      Some(json!([file, title, level, ln.parse::<u64>().ok()?, el.parse::<u64>().ok()?, msg]))
    })();
    match parsed {
      Some(p) => v.push(p),
      None => {
        // continuation of a multi-line message
        if let Some(last) = v.last_mut() {
          let m = format!("{}\n{}", last[5].as_str().unwrap_or(""), l);
          last[5] = json!(m);
        }
      }
    }
  }
  v
}

/// remove `ESC [ ... m` colour sequences (the test reporter colours even with NO_COLOR)
fn strip_ansi(s: &str) -> String {
  let mut out = String::new();
  let mut it = s.chars().peekable();
  while let Some(c) = it.next() {
    if c == '\u{1b}' && it.peek() == Some(&'[') {
      for d in it.by_ref() {
        if d.is_ascii_alphabetic() {
          break;
        }
      }
    } else {
      out.push(c);
    }
  }
  out
}

/// a match as the model receives it: the node's byte range and the environment
fn match_json(nm: ast_grep_core::NodeMatch<'_, SDoc>) -> Value {
  json!({"n": [nm.range().start, nm.range().end], "env": env_json(nm.get_env())})
}

struct FindObs {
  args: Value,
  result: Value,
}

fn findings_case(v: &Variant, yamls: &[String], srcs: &[String]) -> Option<Vec<FindObs>> {
  let all_yaml = yamls.join("\n---\n");
  let rules = load_rules(&all_yaml)?;
  let dir = tempfile::tempdir().ok()?;
  let root = dir.path();
  write_file(root, "sgconfig.yml", "ruleDirs: [rules]\ntestConfigs:\n  - testDir: tests\n");
  for (r, y) in rules.iter().zip(yamls) {
    write_file(root, &format!("rules/{}.yml", r.id), y);
    let mut uniq: Vec<&String> = vec![];
    for s in srcs {
      if !uniq.contains(&s) {
        uniq.push(s);
      }
    }
    let doc = json!({"id": r.id, "valid": uniq});
    write_file(root, &format!("tests/{}-test.yml", r.id), &serde_yaml::to_string(&doc).ok()?);
  }
  let names: Vec<String> = (0..srcs.len()).map(|i| format!("src/a{i}.js")).collect();
  for (n, s) in names.iter().zip(srcs) {
    write_file(root, n, s);
  }
  let (st_stream, out_stream) = run_cli(root, &["scan", "--json=stream", "src"], None, 30);
  let (st_pretty, out_pretty) = run_cli(root, &["scan", "--json=pretty", "src"], None, 30);
  let (st_compact, out_compact) = run_cli(root, &["scan", "--json=compact", "src"], None, 30);
  let (st_gh, out_gh) = run_cli(root, &["scan", "--format", "github", "src"], None, 30);
  let (st_test, out_test) = run_cli(root, &["test", "--skip-snapshot-tests"], None, 30);
  let stream = parse_json_stream(&out_stream);
  let pretty: Vec<Value> = serde_json::from_str(&out_pretty).unwrap_or_default();
  let compact: Vec<Value> = serde_json::from_str(&out_compact).unwrap_or_default();
  let gh = parse_github(&out_gh);
  // `PASS r0  ..N` lines: one status letter per test case
  let mut verdicts: BTreeMap<String, String> = BTreeMap::new();
  let out_test = strip_ansi(&out_test);
  for l in out_test.lines() {
    let mut it = l.split_whitespace();
    if let (Some(st), Some(id), Some(sum)) = (it.next(), it.next(), it.next()) {
      if st == "PASS" || st == "FAIL" {
        verdicts.insert(id.to_string(), sum.to_string());
      }
    }
  }
  let mut lsp = LspSession::start(load_rules(&all_yaml)?, root);
  let mut ret = vec![];
  // index of each text among the distinct texts (= its position in the `valid` list of the tests)
  let mut distinct: Vec<&String> = vec![];
  let mut uniq_idx: Vec<usize> = vec![];
  for s in srcs {
    match distinct.iter().position(|t| *t == s) {
      Some(i) => uniq_idx.push(i),
      None => {
        uniq_idx.push(distinct.len());
        distinct.push(s);
      }
    }
  }
  for (k, (name, src)) in names.iter().zip(srcs).enumerate() {
    let by_file = |recs: &[Value], st: &str| -> Value {
      if st == "hang" {
        return json!("hang");
      }
      let mut f: Vec<Value> = recs.iter().filter(|r| r["file"].as_str() == Some(name.as_str())).map(finding_of_json).collect();
      sort_findings(&mut f);
      json!(f)
    };
    let file = by_file(&stream, &st_stream);
    let fpretty = by_file(&pretty, &st_pretty);
    let fcompact = by_file(&compact, &st_compact);
    let github: Value = if st_gh == "hang" {
      json!("hang")
    } else {
      let mut g: Vec<Value> = gh.iter().filter(|r| r[0].as_str() == Some(name.as_str())).map(|r| json!([r[1], r[2], r[3], r[4], r[5]])).collect();
      sort_by_fields(&mut g, &[2, 3], &[0, 1, 4]);
      json!(g)
    };
    // stdin mode takes its rules from the command line
    let (st_in, out_in) = run_cli(root, &["scan", "--stdin", "--inline-rules", &all_yaml, "--json=stream"], Some(src), 30);
    let stdin: Value = if st_in == "hang" {
      json!("hang")
    } else {
      let mut f: Vec<Value> = parse_json_stream(&out_in).iter().map(finding_of_json).collect();
      sort_findings(&mut f);
      json!(f)
    };
    let test: Value = if st_test == "hang" {
      json!("hang")
    } else {
      let mut m = serde_json::Map::new();
      for r in &rules {
        let letter = verdicts.get(&r.id).and_then(|s| s.chars().nth(uniq_idx[k])).map(|c| c.to_string());
        m.insert(r.id.clone(), json!(letter));
      }
      Value::Object(m)
    };
    let uri = format!("file://{}/{}", root.display(), name);
    let lspd: Value = match lsp.as_mut() {
      None => json!("no-server"),
      Some(s) => match s.open(&uri, "javascript", 1, src) {
        None => json!("no-publish"),
        Some(ds) => {
          let mut f: Vec<Value> = ds
            .iter()
            .map(|d| {
              let r = lsp_range(&d["range"]);
              json!([d["code"], r[0], r[1], r[2], r[3], d["message"], d["severity"]])
            })
            .collect();
          sort_by_fields(&mut f, &[1, 2, 3, 4, 6], &[0, 5]);
          json!(f)
        }
      },
    };
    // what the library sees: every rule's matches with their environments
    let grep = SupportLang::JavaScript.ast_grep(src.as_str());
    let mut rj = vec![];
    for r in &rules {
      let keys: Vec<String> = {
        let mut k: Vec<String> = r.transform.as_ref().map(|t| t.keys().cloned().collect()).unwrap_or_default();
        k.sort();
        k
      };
      // a rule written for another language: `ms` is what its matcher answers on the JavaScript
      // tree (numeric kind ids of another grammar) -- what a front end reports that does not select
      // rules by language; `own_ms` its matches on the text parsed in the rule's own language, which
      // is the tree `sg test` builds for a case of that rule
      let foreign = r.language != SupportLang::JavaScript;
      let ms: Vec<Value> = grep.root().find_all(&r.matcher).map(match_json).collect();
      let mut rule = json!({"id": r.id, "sev": sev_name(&r.severity), "msg": r.message, "note": r.note, "keys": keys,
        "fix": r.matcher.fixer.is_some(), "foreign": foreign, "ms": ms});
      if foreign {
        let own = r.language.ast_grep(src.as_str());
        rule["own_ms"] = json!(own.root().find_all(&r.matcher).map(match_json).collect::<Vec<Value>>());
      }
      rj.push(rule);
    }
    let args = json!({"v": v.json(), "src": src, "yamls": yamls, "rules": rj});
    let result = json!({"file": file, "pretty": fpretty, "compact": fcompact, "github": github, "stdin": stdin, "test": test, "lsp": lspd});
    ret.push(FindObs { args, result });
  }
  Some(ret)
}

/// the property on the observed outputs: same ids, ranges and messages everywhere
fn findings_oracle(ob: &FindObs) -> Vec<(String, Value)> {
  let mut fails = vec![];
  let r = &ob.result;
  let rules = ob.args["rules"].as_array().cloned().unwrap_or_default();
  let has_off = rules.iter().any(|x| x["sev"] == json!("off"));
  let class = format!("off_rule={has_off}");
  let mut fail = |pair: &str, detail: Value| fails.push((format!("pair={pair} {class}"), detail));
  let file = r["file"].clone();
  for style in ["pretty", "compact", "stdin"] {
    if r[style] != file {
      fail(&format!("file/{style}"), json!({"file": file, style: r[style]}));
    }
  }
  let Some(ff) = file.as_array() else {
    fail("file/none", json!({"file": file}));
    return fails;
  };
  let rule_of = |id: &Value| rules.iter().find(|x| &x["id"] == id);
  // GitHub annotations: every finding above `hint`, with one-based lines
  let mut want_gh: Vec<Value> = ff
    .iter()
    .filter_map(|f| {
      let sev = rule_of(&f[0]).map(|x| x["sev"].as_str().unwrap_or("")).unwrap_or("");
      let level = match sev {
        "error" => "error",
        "warning" => "warning",
        "info" => "notice",
        _ => return None,
      };
      Some(json!([f[0], level, f[3].as_u64()? + 1, f[5].as_u64()? + 1, f[7]]))
    })
    .collect();
  sort_by_fields(&mut want_gh, &[2, 3], &[0, 1, 4]);
  if r["github"] != json!(want_gh) {
    fail("file/github", json!({"expected": want_gh, "got": r["github"]}));
  }
  // language server: same ids, ranges; the message with the documented decorations
  let mut want_lsp: Vec<Value> = ff
    .iter()
    .map(|f| {
      let rule = rule_of(&f[0]);
      let tmpl_empty = rule.map(|x| x["msg"].as_str().unwrap_or("").is_empty()).unwrap_or(false);
      let mut msg = if tmpl_empty { f[0].as_str().unwrap_or("").to_string() } else { f[7].as_str().unwrap_or("").to_string() };
      if let Some(n) = rule.and_then(|x| x["note"].as_str()) {
        msg = format!("{msg}\n\n{n}");
      }
      let sev = match rule.map(|x| x["sev"].as_str().unwrap_or("")).unwrap_or("") {
        "error" => 1,
        "warning" => 2,
        "info" => 3,
        _ => 4,
      };
      json!([f[0], f[3], f[4], f[5], f[6], msg, sev])
    })
    .collect();
  sort_by_fields(&mut want_lsp, &[1, 2, 3, 4, 6], &[0, 5]);
  if r["lsp"] != json!(want_lsp) {
    fail("file/lsp", json!({"expected": want_lsp, "got": r["lsp"]}));
  }
  // sg test: a `valid` case passes iff the rule reports nothing on it
  for x in &rules {
    if x["sev"] == json!("off") {
      continue;
    }
    let any = ff.iter().any(|f| f[0] == x["id"]);
    let want = if any { "N" } else { "." };
    let got = r["test"][x["id"].as_str().unwrap_or("")].clone();
    if got != json!(want) {
      fail("file/test-verdict", json!({"rule": x["id"], "expected": want, "got": got}));
    }
  }
  fails
}

const PLAIN_RULES: &[&str] = &[
  "id: k0\nlanguage: JavaScript\nseverity: error\nmessage: 'call of $F'\nrule: {pattern: '$F($$$A)'}\n",
];

/// C09 over a SEQUENCE of documents: which rules apply depends on the whole path (`files:` / `ignores:`),
/// not on what the server handled before — two files of one extension in directories the globs select
/// differently, opened one after the other in one server (both orders), each compared with what
/// `sg scan` reports for that file.
fn lsp_path_sequence(o: &mut Out) {
  let yamls = [
    "id: no-console\nlanguage: JavaScript\nseverity: warning\nmessage: no console\nignores: ['test/**']\nrule: {pattern: console.log($A)}\n",
    "id: no-only\nlanguage: JavaScript\nseverity: error\nmessage: no only\nfiles: ['test/**']\nrule: {pattern: it.only($A)}\n",
    "id: no-debugger\nlanguage: JavaScript\nseverity: warning\nmessage: no debugger\nrule: {pattern: debugger}\n",
  ];
  let text = "console.log(1)\nit.only(2)\ndebugger\n";
  let Ok(dir) = tempfile::tempdir() else { return };
  let root = dir.path();
  write_file(root, "sgconfig.yml", "ruleDirs: [rules]\n");
  for (i, y) in yamls.iter().enumerate() {
    write_file(root, &format!("rules/r{i}.yml"), y);
  }
  let files = ["src/a.js", "test/b.js", "src/deep/c.js"];
  for f in files {
    write_file(root, f, text);
  }
  let (st, out) = run_cli(root, &["scan", "--json=stream", "."], None, 30);
  let recs = parse_json_stream(&out);
  let cli = |f: &str| -> Vec<String> {
    let mut v: Vec<String> = recs.iter().filter(|r| r["file"].as_str().map(|x| x.trim_start_matches("./")) == Some(f)).filter_map(|r| r["ruleId"].as_str().map(String::from)).collect();
    v.sort();
    v
  };
  let mut cases = 0usize;
  for order in [[0usize, 1, 2], [1, 0, 2], [2, 1, 0]] {
    let Some(rules) = load_rules(&yamls.join("---\n")) else { return };
    let Some(mut lsp) = LspSession::start(rules, root) else { return };
    for k in order {
      let f = files[k];
      let uri = format!("file://{}/{}", root.display(), f);
      let Some(ds) = lsp.open(&uri, "javascript", 1, text) else { continue };
      let mut got: Vec<String> = ds.iter().filter_map(|d| d["code"].as_str().map(String::from)).collect();
      got.sort();
      cases += 1;
      if st != "hang" && got != cli(f) {
        o.oracle(
          "lsp-path-sequence",
          false,
          json!({"fp": format!("language server: the rules applied to a document depend on the documents opened before it (position {} of the sequence)", order.iter().position(|x| *x == k).unwrap_or(0)),
                 "file": f, "sequence": order.iter().map(|i| files[*i]).collect::<Vec<_>>(), "lsp": got, "scan": cli(f), "rules": yamls}),
        );
      }
    }
  }
  o.oracle("lsp-path-sequence", true, json!({"cases": cases}));
}

pub fn frontends_findings(ctx: &Ctx, rng: &mut Rng, o: &mut Out) {
  let v = probe_variant();
  o.op("info:variant", v.json(), Value::Null);
  lsp_path_sequence(o);
  let n_sets = if ctx.thorough { 1500 } else { 100 };
  let mut cases = 0usize;
  let mut skipped = 0usize;
  for i in 0..n_sets {
    let k = 1 + rng.below(3);
    let mut yamls: Vec<String> = vec![];
    for j in 0..k {
      let mut spec = gen_fix_spec(rng, &format!("r{j}"), false);
      spec.es = None;
      spec.ee = None;
      if rng.chance(1, 8) {
        spec.severity = "off";
      }
      yamls.push(spec.yaml());
    }
    if i == 0 {
      yamls = PLAIN_RULES.iter().map(|s| s.to_string()).collect();
    }
    // a rule for ANOTHER language at the end of the rule set (never first: stdin is read in the
    // language of the first rule): it applies to none of the JavaScript texts, through any front
    // end — its kind ids belong to another grammar (TypeScript `debugger` = JavaScript `finally`);
    // the model receives the rule as `foreign` together with what its matcher says on this tree
    if i % 3 == 1 {
      let foreign = [
        "id: rts\nlanguage: TypeScript\nseverity: warning\nmessage: ts only\nrule: {pattern: debugger}\n",
        "id: rts\nlanguage: TypeScript\nseverity: error\nmessage: ts only\nrule: {kind: debugger_statement}\n",
        "id: rts\nlanguage: Tsx\nseverity: warning\nmessage: tsx only\nrule: {pattern: debugger}\nfix: ''\n",
      ];
      yamls.push(rng.pick(&foreign).to_string());
    }
    let srcs: Vec<String> = (0..4).map(|_| gen_src(rng)).collect();
    let Some(obs) = findings_case(&v, &yamls, &srcs) else {
      skipped += 1;
      continue;
    };
    for ob in obs {
      cases += 1;
      for (fp, detail) in findings_oracle(&ob) {
        o.oracle("c09_same_findings", false, json!({"fp": fp, "yamls": yamls, "src": ob.args["src"], "detail": detail}));
      }
      o.op("fe_findings", ob.args, ob.result);
    }
  }
  o.oracle("c09_same_findings", true, json!({"cases": cases, "sets_skipped": skipped}));
  // the documented divergence: `sg test` does not apply suppression comments
  let rule = "id: s0\nlanguage: JavaScript\nseverity: error\nmessage: m\nrule: {pattern: 'foo($A)'}\n".to_string();
  let text = "// ast-grep-ignore\nfoo(1)\n".to_string();
  if let Some(obs) = findings_case(&v, &[rule], &[text]) {
    for ob in obs {
      o.op("info:test_ignores_suppression", json!({"file": ob.result["file"], "test": ob.result["test"], "lsp": ob.result["lsp"]}), Value::Null);
    }
  }
}

// ---------------------------------------------------------------------------------------
// replay

pub fn exec(op: &str, a: &Value) -> Option<Value> {
  match op {
    "fe_edits" => {
      let v = Variant::from_json(&a["v"]);
      let pair = |x: &Value| x.as_array().map(|p| (p[0].as_u64().unwrap_or(0) as usize, p[1].as_u64().unwrap_or(0) as usize));
      let src = a["src"].as_str()?.to_string();
      let obs = edit_case(&v, a["yaml"].as_str()?, pair(&a["esx"]), pair(&a["eex"]), &[src])?;
      obs.into_iter().next().map(|o| o.result)
    }
    "fe_findings" => {
      let v = Variant::from_json(&a["v"]);
      let yamls: Vec<String> = a["yamls"].as_array()?.iter().filter_map(|y| y.as_str().map(|s| s.to_string())).collect();
      let src = a["src"].as_str()?.to_string();
      let obs = findings_case(&v, &yamls, &[src])?;
      obs.into_iter().next().map(|o| o.result)
    }
    _ => None,
  }
}
