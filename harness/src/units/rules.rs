//! Rule-level units (C01 / C04 / C05): random rule objects over real trees.
//!  * `rule_match`  `RuleCore::match_node` on a list of nodes: matched node + bindings vs the model
//!  * `rule_kinds`  `potential_kinds()` of the loaded rule vs the model
//! plus the implementation-side oracles (reference semantics, brute-force search).
use super::matching::{env_json, register_tree};
use super::Ctx;
use crate::corpus::{self, Source};
use crate::ruledump::{dump_core, kinds_json, Regexes};
use crate::treedump::Ids;
use crate::util::*;
use ast_grep_config::{from_str, DeserializeEnv, RuleCore, SerializableRuleCore};
use ast_grep_core::matcher::MatcherExt;
use ast_grep_core::{Language, Matcher, Node, StrDoc};
use ast_grep_language::SupportLang;
use serde_json::{json, Value};

type N<'r> = Node<'r, StrDoc<SupportLang>>;

/// material harvested from one document for building rules that have a chance to match
pub struct Material {
  pub kinds: Vec<String>,
  pub snippets: Vec<String>,      // texts of small named nodes
  pub fields: Vec<String>,
  pub ranges: Vec<(usize, usize, usize, usize)>,
  /// (context text, selector kind) for contextual patterns: a small node and the kind of one of its descendants
  pub contexts: Vec<(String, String)>,
}

pub fn harvest(root: &N, lang: SupportLang, rng: &mut Rng) -> Material {
  let mut kinds = vec![];
  let mut snippets = vec![];
  let mut ranges = vec![];
  let mut fields = vec![];
  let mut contexts: Vec<(String, String)> = vec![];
  let tsl = lang.get_ts_language();
  for n in root.dfs() {
    if n.is_named() {
      if contexts.len() < 60 && rng.chance(1, 4) {
        let t = n.text();
        if t.len() <= 50 && !t.contains('\n') && !t.contains('"') && !t.contains('\\') && !t.contains('\'') {
          if let Some(d) = n.dfs().skip(1).filter(|d| d.is_named() && !d.kind().is_empty() && d.kind() != "ERROR").last() {
            contexts.push((t.to_string(), d.kind().to_string()));
          }
        }
      }
      let k = n.kind().to_string();
      if !kinds.contains(&k) && !k.is_empty() {
        kinds.push(k);
      }
      let t = n.text();
      if t.len() >= 1 && t.len() <= 40 && !t.contains('\n') && !t.contains('"') && !t.contains('\\') && !t.contains('\'') {
        if snippets.len() < 400 && !snippets.contains(&t.to_string()) {
          snippets.push(t.to_string());
        }
      }
      if ranges.len() < 60 && rng.chance(1, 8) {
        let (s, e) = (n.start_pos(), n.end_pos());
        ranges.push((s.line(), s.column(&n), e.line(), e.column(&n)));
      }
    }
    let mut cursor = n.get_ts_node().walk();
    if cursor.goto_first_child() {
      loop {
        if let Some(fid) = cursor.field_id() {
          if let Some(name) = tsl.field_name_for_id(fid) {
            let name = name.to_string();
            if !fields.contains(&name) {
              fields.push(name);
            }
          }
        }
        if !cursor.goto_next_sibling() {
          break;
        }
      }
    }
  }
  Material { kinds, snippets, fields, ranges, contexts }
}

pub struct Knobs {
  pub share_vars: bool,   // C04: sub-patterns share variable names; C05: disjoint
  pub utils: Vec<String>, // ids usable in `matches`
  pub var_counter: usize,
}

fn holed(snippet: &str, rng: &mut Rng, k: &mut Knobs) -> String {
  // replace one identifier-like token by a hole
  let toks: Vec<(usize, usize)> = {
    let b = snippet.as_bytes();
    let mut v = vec![];
    let mut i = 0;
    while i < b.len() {
      if b[i].is_ascii_alphabetic() || b[i] == b'_' {
        let s = i;
        while i < b.len() && (b[i].is_ascii_alphanumeric() || b[i] == b'_') {
          i += 1;
        }
        v.push((s, i));
      } else {
        i += 1;
      }
    }
    v
  };
  if toks.is_empty() || rng.chance(1, 3) {
    return snippet.to_string();
  }
  let (s, e) = toks[rng.below(toks.len())];
  let name = if k.share_vars {
    ["A", "B"][rng.below(2)].to_string()
  } else {
    k.var_counter += 1;
    format!("V{}", k.var_counter)
  };
  let sig = match rng.below(8) {
    0 => "$$",
    1 => "$$$",
    _ => "$",
  };
  format!("{}{}{}{}", &snippet[..s], sig, name, &snippet[e..])
}

pub fn gen_atomic(m: &Material, rng: &mut Rng, k: &mut Knobs) -> Value {
  match rng.below(10) {
    0..=3 if !m.snippets.is_empty() => {
      // object form now and then: a contextual pattern (context + selector) and / or a strictness
      if !m.contexts.is_empty() && rng.chance(1, 6) {
        let (c, sel) = rng.pick(&m.contexts).clone();
        let mut p = json!({"context": holed(&c, rng, k), "selector": sel});
        if rng.chance(1, 3) {
          p["strictness"] = json!(rng.pick(&["cst", "smart", "ast", "relaxed", "signature"]));
        }
        return json!({"pattern": p});
      }
      let s = rng.pick(&m.snippets).clone();
      if rng.chance(1, 6) {
        return json!({"pattern": {"context": holed(&s, rng, k), "strictness": rng.pick(&["cst", "smart", "ast", "relaxed", "signature"])}});
      }
      json!({"pattern": holed(&s, rng, k)})
    }
    4..=5 if !m.kinds.is_empty() => json!({"kind": rng.pick(&m.kinds)}),
    6 => json!({"regex": rng.pick(&["^[a-z]+$", "a", "^\\d+$", "o{2}", "^.$", "[A-Z]", "^\\w+\\(", ";$"])}),
    7 => match rng.below(4) {
      0 => json!({"nthChild": 1 + rng.below(3)}),
      1 => json!({"nthChild": rng.pick(&["2n+1", "n", "-n+2", "2n", "n+2", "-2n+5", "0n+1"])}),
      2 => json!({"nthChild": {"position": 1 + rng.below(2), "reverse": true}}),
      _ => {
        let of = if rng.chance(1, 2) && !m.snippets.is_empty() {
          let sn = rng.pick(&m.snippets).clone();
          if rng.chance(1, 2) { json!({"pattern": holed(&sn, rng, k)}) } else { json!({"pattern": format!("${}", if k.share_vars { "A".to_string() } else { k.var_counter += 1; format!("V{}", k.var_counter) })}) }
        } else if rng.chance(1, 3) {
          // relational / composite ofRule: it returns a node other than the sibling itself
          gen_rule(m, rng, k, 1)
        } else if !m.kinds.is_empty() {
          json!({"kind": rng.pick(&m.kinds)})
        } else {
          json!({"regex": "a"})
        };
        json!({"nthChild": {"position": rng.pick(&["1", "2", "n", "2n+1"]), "ofRule": of, "reverse": rng.chance(1, 3)}})
      }
    },
    8 if !m.ranges.is_empty() => {
      let (a, b, c, d) = *rng.pick(&m.ranges);
      json!({"range": {"start": {"line": a, "column": b}, "end": {"line": c, "column": d}}})
    }
    _ if !m.kinds.is_empty() => json!({"kind": rng.pick(&m.kinds)}),
    _ => json!({"regex": "."}),
  }
}

fn gen_stop(m: &Material, rng: &mut Rng, k: &mut Knobs, depth: usize) -> Option<Value> {
  match rng.below(4) {
    0 => None,
    1 => Some(json!("neighbor")),
    2 => Some(json!("end")),
    _ => Some(gen_rule(m, rng, k, depth.min(1))),
  }
}

fn merge(a: &mut Value, b: Value) {
  if let (Some(x), Some(y)) = (a.as_object_mut(), b.as_object()) {
    for (k, v) in y {
      if !x.contains_key(k) {
        x.insert(k.clone(), v.clone());
      }
    }
  }
}

pub fn gen_rule(m: &Material, rng: &mut Rng, k: &mut Knobs, depth: usize) -> Value {
  if depth == 0 || rng.chance(1, 4) {
    return gen_atomic(m, rng, k);
  }
  let mut r = match rng.below(12) {
    0..=1 => {
      let n = 1 + rng.below(3);
      json!({"all": (0..n).map(|_| gen_rule(m, rng, k, depth - 1)).collect::<Vec<_>>()})
    }
    2..=3 => {
      let n = 1 + rng.below(3);
      json!({"any": (0..n).map(|_| gen_rule(m, rng, k, depth - 1)).collect::<Vec<_>>()})
    }
    4 => json!({"not": gen_rule(m, rng, k, depth - 1)}),
    5 if !k.utils.is_empty() => json!({"matches": rng.pick(&k.utils)}),
    6..=7 | 5 => {
      let rel = ["inside", "has"][rng.below(2)];
      let mut sub = gen_rule(m, rng, k, depth - 1);
      if let Some(s) = gen_stop(m, rng, k, depth - 1) {
        sub["stopBy"] = s;
      }
      if !m.fields.is_empty() && rng.chance(1, 4) {
        sub["field"] = json!(rng.pick(&m.fields));
      }
      json!({rel: sub})
    }
    8..=9 => {
      let rel = ["precedes", "follows"][rng.below(2)];
      let mut sub = gen_rule(m, rng, k, depth - 1);
      if let Some(s) = gen_stop(m, rng, k, depth - 1) {
        sub["stopBy"] = s;
      }
      json!({rel: sub})
    }
    _ => gen_atomic(m, rng, k),
  };
  // several keys in one object = conjunction (atomic, composite, relational)
  if rng.chance(1, 3) {
    let extra = if rng.chance(1, 2) { gen_atomic(m, rng, k) } else { gen_rule(m, rng, k, depth - 1) };
    merge(&mut r, extra);
  }
  r
}


/// field name under which `child` hangs below `parent` (cursor view), if any
fn field_of(parent: &N, child: &N, lang: SupportLang) -> Option<String> {
  let tsl = lang.get_ts_language();
  let mut cursor = parent.get_ts_node().walk();
  if !cursor.goto_first_child() {
    return None;
  }
  loop {
    if cursor.node().id() == child.get_ts_node().id() {
      return cursor.field_id().and_then(|f| tsl.field_name_for_id(f)).map(|s| s.to_string());
    }
    if !cursor.goto_next_sibling() {
      return None;
    }
  }
}

fn simple_text(t: &str) -> bool {
  !t.is_empty() && t.len() <= 60 && !t.contains('\n') && !t.contains('"') && !t.contains('\\') && !t.contains('\'') && !t.contains('$')
}

/// Rules derived from the shape of the document itself, so that the interesting branch of every
/// operator is actually taken (random rules mostly fail on their first atom):
///  * relational rules along a real ancestor path / sibling run, with `stopBy` = neighbor, end, the
///    kind of an intermediate node or of the target, and `field` = the real field of the path child
///    or another one;
///  * (share_vars) a pattern with one child replaced by `$A`, combined with a sub-rule that mentions
///    `$A` again under not / any / all / has / inside / follows / precedes / nthChild.ofRule.
pub fn battery(root: &N, lang: SupportLang, m: &Material, rng: &mut Rng, share_vars: bool, want: usize) -> Vec<Value> {
  let all: Vec<N> = root.dfs().collect();
  let mut out = vec![];
  if all.len() < 3 {
    return out;
  }
  let widest: Option<N> = all.iter().max_by_key(|x| x.children().len()).filter(|x| x.children().len() >= 12).cloned();
  // the sibling walks of the widest node, whatever its length: `follows` / `precedes` with a stop RULE
  // over the kinds of its children (the window ends at the NEAREST sibling of the stop kind)
  if let Some(w) = &widest {
    let mut kinds: Vec<String> = vec![];
    for c in w.children() {
      let k = c.kind().to_string();
      if c.is_named() && !k.is_empty() && k != "ERROR" && !kinds.contains(&k) {
        kinds.push(k);
      }
    }
    if kinds.len() >= 3 {
      for t in 0..4usize.min(want) {
        let a = &kinds[rng.below(kinds.len())];
        let b = &kinds[rng.below(kinds.len())];
        let c = &kinds[rng.below(kinds.len())];
        if a == b || b == c {
          continue;
        }
        let rel = if t % 2 == 0 { "follows" } else { "precedes" };
        let mut r = json!({"kind": a});
        r[rel] = json!({"kind": b, "stopBy": {"kind": c}});
        out.push(json!({"rule": r}));
      }
    }
  }
  let mut tries = 0;
  while out.len() < want && tries < want * 20 {
    tries += 1;
    // a third of the picks are children of the widest node of the document (long sibling lists:
    // statement lists, big literals, argument lists): sibling walks are exercised at every length
    let n = match &widest {
      Some(w) if rng.chance(1, 3) => {
        let kids: Vec<N> = w.children().collect();
        rng.pick(&kids).clone()
      }
      _ => rng.pick(&all).clone(),
    };
    let anc: Vec<N> = n.ancestors().collect();
    let kind_of = |x: &N| json!({"kind": x.kind().to_string()});
    let okk = |x: &N| x.is_named() && !x.kind().is_empty() && x.kind() != "ERROR";
    match rng.below(if share_vars { 8 } else { 5 }) {
      // inside along the ancestor path
      0 | 1 if anc.len() >= 2 && okk(&n) => {
        let d = 1 + rng.below(anc.len() - 1).min(4);
        let outer = &anc[d];
        if !okk(outer) {
          continue;
        }
        let path_child = &anc[d - 1];
        let mut sub = kind_of(outer);
        sub["stopBy"] = match rng.below(5) {
          0 => json!("neighbor"),
          1 => json!("end"),
          2 => kind_of(&anc[rng.below(d)]),
          3 => kind_of(outer),
          _ => {
            let x = rng.pick(&all);
            if okk(x) { kind_of(x) } else { json!("end") }
          }
        };
        if rng.chance(2, 3) {
          let f = field_of(outer, path_child, lang);
          sub["field"] = match f {
            Some(f) if rng.chance(3, 4) => json!(f),
            _ if !m.fields.is_empty() => json!(rng.pick(&m.fields)),
            _ => continue,
          };
        }
        let mut r = kind_of(&n);
        r["inside"] = sub;
        if rng.chance(1, 4) {
          r = json!({"not": r});
        }
        out.push(json!({"rule": r}));
      }
      // has down a real descendant path
      2 if anc.len() >= 2 && okk(&n) => {
        let d = 1 + rng.below(anc.len() - 1).min(4);
        let outer = &anc[d];
        if !okk(outer) {
          continue;
        }
        let top_child = &anc[d - 1];
        let mut sub = kind_of(&n);
        sub["stopBy"] = match rng.below(4) {
          0 => json!("neighbor"),
          1 => json!("end"),
          2 => kind_of(&anc[rng.below(d)]),
          _ => kind_of(&n),
        };
        if rng.chance(2, 3) {
          let f = field_of(outer, top_child, lang);
          sub["field"] = match f {
            Some(f) if rng.chance(3, 4) => json!(f),
            _ if !m.fields.is_empty() => json!(rng.pick(&m.fields)),
            _ => continue,
          };
        }
        let mut r = kind_of(outer);
        r["has"] = sub;
        out.push(json!({"rule": r}));
      }
      // follows / precedes along a real sibling run
      3 | 4 => {
        let Some(p) = n.parent() else { continue };
        let sibs: Vec<N> = p.children().collect();
        if sibs.len() < 2 {
          continue;
        }
        let i = rng.below(sibs.len());
        let j = rng.below(sibs.len());
        if i == j || !okk(&sibs[i]) || !okk(&sibs[j]) {
          continue;
        }
        let rel = if i < j { "precedes" } else { "follows" };
        let (lo, hi) = (i.min(j), i.max(j));
        let mut sub = kind_of(&sibs[j]);
        sub["stopBy"] = match rng.below(4) {
          0 => json!("neighbor"),
          1 => json!("end"),
          2 if hi - lo >= 2 && okk(&sibs[lo + 1 + rng.below(hi - lo - 1)]) => kind_of(&sibs[lo + 1 + rng.below(hi - lo - 1)]),
          _ => kind_of(&sibs[j]),
        };
        let mut r = kind_of(&sibs[i]);
        if rng.chance(1, 3) {
          let named: Vec<&N> = sibs.iter().filter(|s| s.is_named()).collect();
          if let Some(pos) = named.iter().position(|s| s.node_id() == sibs[i].node_id()) {
            r["nthChild"] = json!(pos + 1);
          }
        }
        r[rel] = sub;
        out.push(json!({"rule": r}));
      }
      // a relation whose sub-rule is a multi-token pattern that binds a variable EARLY and can
      // still fail LATER, below a pattern that has already written a capture: candidates that fail
      // after binding must leave nothing behind for the candidate that matches
      5 | 6 if share_vars && rng.chance(1, 2) => {
        let kids: Vec<N> = n.children().filter(|c| c.is_named()).collect();
        if kids.is_empty() || !simple_text(&n.text()) {
          continue;
        }
        let c = rng.pick(&kids);
        let (ns, cs, ce) = (n.range().start, c.range().start, c.range().end);
        let t = n.text();
        let outer = format!("{}$C{}", &t[..cs - ns], &t[ce - ns..]);
        // the LAST descendant of its kind with at least two named children (earlier ones of the
        // same kind are tried first and bind `$A` before failing on a later token)
        let cands: Vec<N> = n.dfs().skip(1).filter(|d| d.children().filter(|k| k.is_named()).count() >= 2 && simple_text(&d.text())).collect();
        if cands.is_empty() {
          continue;
        }
        let pick = rng.pick(&cands).clone();
        let d = cands.iter().rev().find(|x| x.kind_id() == pick.kind_id()).unwrap().clone();
        let first = d.children().find(|k| k.is_named()).unwrap();
        let (ds, fs, fe) = (d.range().start, first.range().start, first.range().end);
        let dt = d.text();
        let inner = format!("{}$A{}", &dt[..fs - ds], &dt[fe - ds..]);
        let rel = if rng.chance(3, 4) { json!({"has": {"pattern": inner, "stopBy": "end"}}) } else { json!({"has": {"pattern": inner}}) };
        let mut r = json!({"pattern": outer});
        merge(&mut r, rel);
        out.push(json!({"rule": r}));
      }
      // shared variable: pattern with child i holed, sub-rule mentioning $A again
      _ => {
        let kids: Vec<N> = n.children().filter(|c| c.is_named()).collect();
        if kids.is_empty() || !simple_text(&n.text()) {
          continue;
        }
        let i = rng.below(kids.len());
        let c = &kids[i];
        let (ns, cs, ce) = (n.range().start, c.range().start, c.range().end);
        let t = n.text();
        let pat = format!("{}$A{}", &t[..cs - ns], &t[ce - ns..]);
        let j = rng.below(kids.len());
        let again = match rng.below(7) {
          0 => json!({"has": {"pattern": "$A", "nthChild": j + 1}}),
          1 => match field_of(&n, &kids[j], lang) {
            Some(f) => json!({"has": {"pattern": "$A", "field": f, "stopBy": "end"}}),
            None => json!({"has": {"pattern": "$A", "nthChild": j + 1, "stopBy": "end"}}),
          },
          2 => json!({"has": {"kind": kids[j].kind().to_string(), "follows": {"pattern": "$A", "stopBy": "end"}}}),
          3 => json!({"has": {"kind": kids[j].kind().to_string(), "precedes": {"pattern": "$A", "stopBy": "end"}}}),
          4 => json!({"has": {"nthChild": {"position": 1, "ofRule": {"pattern": "$A"}}, "stopBy": "end"}}),
          5 => json!({"inside": {"has": {"pattern": "$A", "stopBy": "end"}, "stopBy": "end"}}),
          _ => json!({"has": {"any": [{"pattern": "$A", "nthChild": j + 1}, {"pattern": "$B", "nthChild": j + 1}]}}),
        };
        let wrapped = match rng.below(6) {
          0 | 1 => json!({"not": again}),
          2 => json!({"not": {"not": again}}),
          3 => json!({"any": [again, {"not": again}]}),
          4 => json!({"all": [again]}),
          _ => again,
        };
        let mut r = json!({"pattern": pat});
        merge(&mut r, wrapped);
        out.push(json!({"rule": r}));
      }
    }
  }
  out
}

/// `{rule, constraints?, utils?}` as JSON text (YAML is a superset of JSON)
pub fn gen_core(m: &Material, rng: &mut Rng, share_vars: bool, depth: usize) -> Value {
  let mut k = Knobs { share_vars, utils: vec![], var_counter: 0 };
  let mut core = serde_json::Map::new();
  // utils: a small DAG u0 <- u1 <- u2 (later ones may reference earlier ones)
  if rng.chance(1, 3) {
    let n = 1 + rng.below(3);
    let mut utils = serde_json::Map::new();
    for i in 0..n {
      let mut r = gen_rule(m, rng, &mut k, depth.min(2));
      // a reference to an EARLIER utility from inside a relation, next to another matcher: the
      // loader's dependency sort does not order the two, so either may be constructed first
      // (hash order) and the kind cache around the reference must not depend on that
      if i > 0 && rng.chance(1, 3) {
        let prev = format!("u{}", rng.below(i));
        let rel = *rng.pick(&["has", "inside", "follows", "precedes"]);
        let sub = match rng.below(3) {
          0 => json!({"all": [{"matches": prev}], "stopBy": "end"}),
          1 => json!({"any": [{"matches": prev}, gen_atomic(m, rng, &mut k)], "stopBy": "end"}),
          _ => {
            let mut a = gen_atomic(m, rng, &mut k);
            a["matches"] = json!(prev);
            a["stopBy"] = json!("end");
            a
          }
        };
        r = json!({ rel: sub });
        if rng.chance(1, 2) && !m.kinds.is_empty() {
          r["kind"] = json!(rng.pick(&m.kinds));
        }
      }
      utils.insert(format!("u{i}"), r);
      k.utils.push(format!("u{i}"));
    }
    core.insert("utils".into(), Value::Object(utils));
  }
  // global utility rules (RuleCore: rule + constraints), usable through `matches`
  if rng.chance(1, 4) || (!k.utils.is_empty() && rng.chance(1, 4)) {
    let n = 1 + rng.below(2);
    let mut globals = vec![];
    for i in 0..n {
      let mut g = serde_json::Map::new();
      // sometimes a global utility carries the id of a local one: the local definition must win
      // everywhere (matching, potential_kinds, kind caches)
      let gid = if i == 0 && k.utils.iter().any(|u| u == "u0") && rng.chance(1, 3) { "u0".to_string() } else { format!("g{i}") };
      g.insert("id".into(), json!(gid));
      let mut gk = Knobs { share_vars, utils: k.utils.iter().filter(|u| u.starts_with('g')).cloned().collect(), var_counter: k.var_counter };
      let gd = 1 + rng.below(2);
      g.insert("rule".into(), gen_rule(m, rng, &mut gk, gd));
      if rng.chance(1, 2) {
        let var = if share_vars { ["A", "B"][rng.below(2)].to_string() } else { format!("V{}", 1 + rng.below(gk.var_counter.max(1))) };
        let mut cons = serde_json::Map::new();
        cons.insert(var, gen_rule(m, rng, &mut gk, 1));
        g.insert("constraints".into(), Value::Object(cons));
      }
      k.var_counter = gk.var_counter;
      globals.push(Value::Object(g));
      if !k.utils.contains(&gid) {
        k.utils.push(gid);
      }
    }
    core.insert("globals".into(), json!(globals));
  }
  let mut rule = gen_rule(m, rng, &mut k, depth);
  // use the last local utility from the rule now and then (its own references then matter)
  if let Some(last) = k.utils.iter().filter(|u| u.starts_with('u')).next_back().cloned() {
    if rng.chance(1, 4) {
      rule = json!({"all": [{"matches": last}, rule]});
    }
  }
  // a shadowed id is worth using: reference it from the rule itself most of the time
  let shadowed = core.get("globals").and_then(|g| g.as_array()).map(|a| a.iter().any(|g| g["id"] == "u0")).unwrap_or(false);
  if shadowed && rng.chance(3, 4) {
    rule = match rng.below(3) {
      0 => json!({"matches": "u0"}),
      1 => json!({"all": [{"matches": "u0"}, rule]}),
      _ => json!({"any": [{"matches": "u0"}, rule]}),
    };
  }
  core.insert("rule".into(), rule);
  if rng.chance(1, 5) {
    let var = if share_vars { ["A", "B"][rng.below(2)].to_string() } else { format!("V{}", 1 + rng.below(k.var_counter.max(1))) };
    let mut cons = serde_json::Map::new();
    cons.insert(var, gen_rule(m, rng, &mut k, 1));
    core.insert("constraints".into(), Value::Object(cons));
  }
  Value::Object(core)
}

pub fn load_core(v: &Value, lang: SupportLang) -> Result<RuleCore<SupportLang>, String> {
  let mut v = v.clone();
  // `globals` is the harness's own key: global utility rule files of the project
  let globals = v.as_object_mut().and_then(|o| o.remove("globals"));
  let text = v.to_string();
  let ser: SerializableRuleCore = from_str(&text).map_err(|e| format!("yaml: {e}"))?;
  let mut env = DeserializeEnv::new(lang);
  if let Some(Value::Array(gs)) = globals {
    let mut utils = vec![];
    for g in gs {
      let mut g = g.clone();
      g["language"] = json!(lang.to_string());
      utils.push(from_str(&g.to_string()).map_err(|e| format!("global yaml: {e}"))?);
    }
    let reg = DeserializeEnv::parse_global_utils(utils).map_err(|e| format!("globals: {e}"))?;
    env = env.with_globals(&reg);
  }
  ser.get_matcher(env).map_err(|e| format!("core: {e}"))
}

fn regex_table(rx: &Regexes, all: &[N], ids: &Ids) -> Value {
  let mut tab = serde_json::Map::new();
  for (i, s) in rx.0.iter().enumerate() {
    let re = regex::Regex::new(s).expect("regex compiled by the loader");
    let hits: Vec<usize> = all.iter().filter(|n| re.is_match(&n.text())).map(|n| ids.of(n)).collect();
    tab.insert(i.to_string(), json!(hits));
  }
  Value::Object(tab)
}

pub fn match_result(core: &RuleCore<SupportLang>, n: &N, ids: &Ids) -> Value {
  guard(|| match core.match_node(n.clone()) {
    None => json!({"m": null, "env": {"s": {}, "m": {}}}),
    Some(nm) => json!({"m": ids.of(nm.get_node()), "env": env_json(&nm, ids)}),
  })
}

/// small documents: the first lines of every corpus file (rule evaluation is quadratic in the
/// model, and small trees give denser coverage per op)
pub fn small_sources(rng: &mut Rng, variants: usize) -> Vec<Source> {
  let mut out = vec![];
  for s in corpus::load() {
    let grep = s.lang.ast_grep(&s.text);
    let root = grep.root();
    // descend to the first node with several children (module bodies, class bodies, ...)
    let mut host = root.clone();
    while host.children().len() == 1 {
      let first = host.children().next().unwrap();
      host = first;
    }
    let tops: Vec<(usize, usize)> = host.children().map(|c| (c.range().start, c.range().end)).collect();
    for v in 0..variants {
      let text = if tops.len() < 2 {
        s.text.clone()
      } else {
        // a contiguous run of top-level items, at most ~700 bytes
        let a = rng.below(tops.len());
        let mut b = a;
        while b + 1 < tops.len() && tops[b + 1].1 - tops[a].0 <= 700 && rng.chance(3, 4) {
          b += 1;
        }
        s.text[tops[a].0..tops[b].1].to_string()
      };
      let text = if v % 4 == 3 { corpus::mutate(&text, rng) } else { text };
      out.push(Source { lang: s.lang, name: format!("{}#{v}", s.name), text });
    }
  }
  out
}

/// Hand-written documents with the rules that go with them, run before the corpus: shapes the corpus
/// does not contain often enough for a shape-derived rule to hit them —
/// * a multi variable `$$$A` used twice where the occurrence tried FIRST captures nothing and a later
///   one captures something (and every other combination): coherence of repeated multi captures;
/// * lines whose prefix is mostly 4-byte characters: character columns of `range` rules.
pub fn rule_witnesses() -> Vec<(Source, Vec<Value>)> {
  let calls = "f(g(), h(1))\nf(g(1), h(1))\nf(g(), h())\nf(g(1), h())\nf(g(1, 2), h(1, 2))\nf(g(1, 2), h(1))\nf(g(1), h(1, 2))\n";
  let call_rules = |call_kind: &str| -> Vec<Value> {
    vec![
      json!({"pattern": "f(g($$$A), h($$$A))"}),
      json!({"pattern": "f(h($$$A), g($$$A))"}),
      json!({"pattern": "f(g($$$A), $B)", "has": {"pattern": "h($$$A)", "stopBy": "end"}}),
      json!({"kind": call_kind, "all": [{"has": {"pattern": "g($$$A)", "stopBy": "end"}}, {"has": {"pattern": "h($$$A)", "stopBy": "end"}}]}),
      json!({"kind": call_kind, "all": [{"has": {"pattern": "h($$$A)", "stopBy": "end"}}, {"has": {"pattern": "g($$$A)", "stopBy": "end"}}]}),
      json!({"kind": call_kind, "has": {"pattern": "g($$$A)", "stopBy": "end"}, "not": {"has": {"pattern": "h($$$A)", "stopBy": "end"}}}),
      json!({"pattern": "g($$$A)", "precedes": {"pattern": "h($$$A)"}}),
      json!({"pattern": "h($$$A)", "follows": {"pattern": "g($$$A)"}}),
      json!({"pattern": "f($X, $Y)", "all": [{"has": {"pattern": "g($$$A)"}}, {"has": {"pattern": "h($$$B)"}}, {"any": [{"has": {"pattern": "h($$$A)"}}, {"has": {"pattern": "g($$$B)"}}]}]}),
    ]
  };
  let src = |lang: SupportLang, name: &str, text: String| Source { lang, name: format!("witness/{name}"), text };
  // more than 64 siblings under one parent, statements of several kinds interleaved (sibling walks at
  // every length; the shape-derived rules over the widest node apply to it)
  let long_js: String = (0..72)
    .map(|i| match (i * 5 + i / 7) % 6 {
      0 => format!("let v{i} = w({i});\n"),
      1 => format!("s{i}(v);\n"),
      2 => format!("if (c{i}) f();\n"),
      3 => format!("while (d{i}) g();\n"),
      4 => format!("// n{i}\n"),
      _ => format!("t{i};\n"),
    })
    .collect();
  let long_py: String = (0..72)
    .map(|i| match (i * 5 + i / 7) % 5 {
      0 => format!("v{i} = w({i})\n"),
      1 => format!("s{i}(v)\n"),
      2 => format!("if c{i}: f()\n"),
      3 => format!("# n{i}\n"),
      _ => format!("del t{i}\n"),
    })
    .collect();
  let mut out = vec![
    (src(SupportLang::JavaScript, "long-siblings.js", long_js), vec![
      json!({"kind": "expression_statement", "follows": {"kind": "lexical_declaration", "stopBy": {"kind": "if_statement"}}}),
      json!({"kind": "expression_statement", "precedes": {"kind": "while_statement", "stopBy": {"kind": "comment"}}}),
    ]),
    (src(SupportLang::Python, "long-siblings.py", long_py), vec![
      json!({"kind": "expression_statement", "follows": {"kind": "if_statement", "stopBy": {"kind": "delete_statement"}}}),
    ]),
    (src(SupportLang::JavaScript, "multi-empty.js", calls.to_string()), call_rules("call_expression")),
    (src(SupportLang::TypeScript, "multi-empty.ts", calls.to_string()), call_rules("call_expression")),
    (src(SupportLang::Python, "multi-empty.py", format!("{calls}[f(), g(1)]\n[f(2), g(2)]\n[f(), g()]\n")), {
      let mut r = call_rules("call");
      r.push(json!({"kind": "list", "all": [{"has": {"pattern": "f($$$A)"}}, {"has": {"pattern": "g($$$A)"}}]}));
      r
    }),
    (src(SupportLang::Rust, "multi-empty.rs", format!("fn m() {{\n{}}}\n", calls.replace('\n', ";\n"))), call_rules("call_expression")),
    (src(SupportLang::Go, "multi-empty.go", format!("package p\nfunc m() {{\n{calls}}}\n")), call_rules("call_expression")),
    (src(SupportLang::Ruby, "multi-empty.rb", calls.to_string()), call_rules("call")),
  ];
  // astral lines: a `kind` + `range` rule for every named node is added by the caller
  out.push((src(SupportLang::Python, "astral.py", "𝒳 = 1\nx = '🦄🦄🦄'\n𝒳𝒳𝒳 = 𝒳 + 𝒳𝒳\ny = ['😀😀😀😀', '𝒳é中a']\n".into()), vec![]));
  out.push((src(SupportLang::JavaScript, "astral.js", "'🦄🦄🦄'\nlet 𝒳 = '😀😀😀😀' + '𝒳𝒳'\n𝒳𝒳(𝒳, '🦄')\n".into()), vec![]));
  out.push((src(SupportLang::Rust, "astral.rs", "fn m() {\n  let a = \"😀😀😀😀\";\n  (\"🦄🦄🦄\", '🦄', \"𝒳é中a\");\n}\n".into()), vec![]));
  out
}

/// Deterministic rule documents derived from the shape of a document; every rule unit runs them
/// first on every document (what they look for must not depend on the luck of the random rules):
/// * a LOCAL utility that shadows a GLOBAL one of the same id with another kind (kind caches and
///   dispatch tables must come from the definition that matching resolves to);
/// * `nthChild` with an `ofRule` that every node satisfies, for nodes that have unnamed tokens and
///   named siblings in front of them / behind them (positions count named siblings only).
pub fn fixed_specs(root: &N, m: &Material) -> Vec<Value> {
  let mut out = vec![];
  let count = |k: &str| root.dfs().filter(|n| n.is_named() && n.kind() == k).count();
  let mut kinds: Vec<&String> = m.kinds.iter().filter(|k| k.as_str() != "ERROR" && count(k) > 0).collect();
  kinds.sort_by_key(|k| std::cmp::Reverse(count(k)));
  if kinds.len() >= 2 {
    // the most frequent kind locally, another one globally — and the other way round
    for (local, global) in [(kinds[0], kinds[1]), (kinds[1], kinds[0])] {
      let utils = json!({"u0": {"kind": local}});
      let globals = json!([{"id": "u0", "rule": {"kind": global}}]);
      out.push(json!({"rule": {"matches": "u0"}, "utils": utils, "globals": globals}));
      out.push(json!({"rule": {"any": [{"matches": "u0"}, {"kind": global, "regex": "^$"}]}, "utils": utils, "globals": globals}));
      out.push(json!({"rule": {"all": [{"matches": "u0"}, {"regex": "(?s)."}]}, "utils": utils, "globals": globals}));
    }
  }
  // two local utilities that refer to each other through RELATIONS, the reference sitting next to
  // another key / inside `any`: whichever of them is built first meets a reference to a utility that
  // is not registered yet — what it assumes about that utility's kinds must not outlive the moment
  if let Some((pk, ck)) = root
    .dfs()
    .filter(|n| n.is_named() && !n.kind().is_empty() && n.kind() != "ERROR")
    .find_map(|n| n.children().find(|c| c.is_named() && !c.kind().is_empty() && c.kind() != "ERROR" && c.kind() != n.kind()).map(|c| (n.kind().to_string(), c.kind().to_string())))
  {
    let utils = json!({
      "outer": {"kind": pk, "has": {"kind": ck, "matches": "inner", "stopBy": "end"}},
      "inner": {"any": [{"kind": ck}, {"kind": pk, "has": {"kind": ck, "matches": "outer", "stopBy": "end"}}]},
    });
    out.push(json!({"rule": {"matches": "outer"}, "utils": utils}));
    out.push(json!({"rule": {"matches": "inner"}, "utils": utils}));
    out.push(json!({"rule": {"kind": pk, "has": {"all": [{"matches": "inner"}, {"kind": ck}], "stopBy": "end"}}, "utils": utils}));
  }
  // two sibling nodes that TOUCH (the second starts at the byte the first ends at): both match,
  // neither is nested in the other
  if let Some((k1, k2)) = root.dfs().find_map(|n| {
    let kids: Vec<N> = n.children().filter(|c| c.range().len() > 0).collect();
    kids.windows(2).find(|w| w[0].range().end == w[1].range().start && w[0].is_named() && w[1].is_named() && !w[0].kind().is_empty() && !w[1].kind().is_empty() && w[0].kind() != "ERROR" && w[1].kind() != "ERROR")
      .map(|w| (w[0].kind().to_string(), w[1].kind().to_string()))
  }) {
    out.push(json!({"rule": {"any": [{"kind": k1}, {"kind": k2}]}}));
  }
  let mut picked = 0usize;
  for n in root.dfs() {
    if picked >= 4 {
      break;
    }
    if !n.is_named() || n.kind().is_empty() || n.kind() == "ERROR" {
      continue;
    }
    let Some(p) = n.parent() else { continue };
    let sibs: Vec<N> = p.children().collect();
    let Some(i) = sibs.iter().position(|s| s.node_id() == n.node_id()) else { continue };
    let named_before = sibs[..i].iter().filter(|s| s.is_named()).count();
    let unnamed_before = sibs[..i].iter().filter(|s| !s.is_named() && s.range().len() > 0).count();
    let named_after = sibs[i + 1..].iter().filter(|s| s.is_named()).count();
    let unnamed_after = sibs[i + 1..].iter().filter(|s| !s.is_named() && s.range().len() > 0).count();
    if unnamed_before == 0 || unnamed_after == 0 || named_before + named_after == 0 {
      continue;
    }
    picked += 1;
    let k = n.kind().to_string();
    out.push(json!({"rule": {"kind": k, "nthChild": {"position": named_before + 1, "ofRule": {"regex": "(?s)."}}}}));
    out.push(json!({"rule": {"kind": k, "nthChild": {"position": named_after + 1, "reverse": true, "ofRule": {"regex": "(?s)."}}}}));
    out.push(json!({"rule": {"kind": k, "nthChild": named_before + 1}}));
  }
  out
}

/// `kind` + `range` rules for (up to `cap`) named nodes of a document, the positions taken from the
/// nodes themselves
fn range_rules(root: &N, cap: usize) -> Vec<Value> {
  root
    .dfs()
    .filter(|n| n.is_named() && !n.kind().is_empty())
    .take(cap)
    .map(|n| {
      let (s, e) = (n.start_pos(), n.end_pos());
      json!({"kind": n.kind(), "range": {"start": {"line": s.line(), "column": s.column(&n)}, "end": {"line": e.line(), "column": e.column(&n)}}})
    })
    .collect()
}

pub fn rules_unit(ctx: &Ctx, rng: &mut Rng, o: &mut Out, share_vars: bool) {
  let variants = if ctx.thorough { 16 } else { 4 };
  let rules_per_src = if ctx.thorough { 60 } else { 30 };
  let witnesses = rule_witnesses();
  let mut witness_rules: std::collections::HashMap<String, Vec<Value>> = witnesses.iter().map(|(s, r)| (s.name.clone(), r.clone())).collect();
  let mut sources: Vec<Source> = witnesses.into_iter().map(|(s, _)| s).collect();
  sources.extend(small_sources(rng, variants));
  let mut loaded = 0usize;
  let mut rejected = 0usize;
  let mut excluded = 0usize;
  for (si, src) in sources.iter().enumerate() {
    let grep = src.lang.ast_grep(&src.text);
    let root = grep.root();
    let all: Vec<N> = root.dfs().collect();
    if all.len() > 400 && !src.name.contains("long-siblings") {
      continue;
    }
    if let Some(v) = crate::treedump::contract_violation(&root) {
      // outside the model's tree-sitter contract (zero-width recovery nodes etc.): not judged
      excluded += 1;
      o.oracle("contract-excluded", true, json!({"cases": 0, "file": src.name, "why": v}));
      continue;
    }
    let tid = format!("R{si}");
    let ids = register_tree(o, &tid, src, &root);
    let m = harvest(&root, src.lang, rng);
    let mut derived = fixed_specs(&root, &m);
    derived.extend(battery(&root, src.lang, &m, rng, share_vars, rules_per_src / 2));
    if let Some(mut w) = witness_rules.remove(&src.name) {
      if src.name.contains("astral") {
        w.extend(range_rules(&root, 60));
      }
      // (a rule core document: the rule object under `rule`)
      let mut w: Vec<Value> = w.into_iter().map(|r| json!({"rule": r})).collect();
      w.extend(derived);
      derived = w;
    }
    let n_derived = derived.len();
    let mut derived = derived.into_iter();
    for _ in 0..rules_per_src + n_derived {
      let depth = 1 + rng.below(3);
      let spec = match derived.next() {
        Some(d) => d,
        None => gen_core(&m, rng, share_vars, depth),
      };
      let core = match guard_load(&spec, src.lang) {
        Ok(c) => c,
        Err(_) => {
          rejected += 1;
          continue;
        }
      };
      loaded += 1;
      // glue the model never sees (it is handed the strictness the implementation parsed): every
      // pattern atom of the loaded rule carries the strictness its text asks for
      {
        let mut want = vec![];
        crate::ruledump::spec_strictness(&spec, &mut want);
        want.sort();
        let got = crate::ruledump::core_strictness(&core);
        if want != got {
          o.oracle("rule-strictness", false, json!({"fp": format!("loaded rule: strictness of pattern atoms differs from the rule text (text {:?}, loaded {:?})", want, got), "spec": spec, "lang": src.lang.to_string()}));
        }
      }
      let mut rx = Regexes::default();
      let dump = dump_core(&core, &mut rx, true);
      let rxt = regex_table(&rx, &all, &ids);
      o.op(
        "rule_kinds",
        json!({"core": dump}),
        kinds_json(core.potential_kinds()),
      );
      // every node of the (small) document
      let results: Vec<Value> = all.iter().map(|n| match_result(&core, n, &ids)).collect();
      let node_ids: Vec<usize> = all.iter().map(|n| ids.of(n)).collect();
      o.op(
        "rule_match",
        json!({"t": tid, "core": dump, "regex": rxt, "spec": spec, "nodes": node_ids}),
        json!(results),
      );
      // C04 oracle: failed alternatives leave no trace — the result equals that of the rule with
      // every sub-rule evaluated in isolation (Lean `Spec.isolate`, run by the driver)
      o.op(
        "oracle:isolate",
        json!({"t": tid, "core": dump, "regex": rxt, "spec": spec, "nodes": node_ids, "fp": format!("isolate:{}", sat_fingerprint(&spec))}),
        json!(results.iter().map(project_bindings).collect::<Vec<_>>()),
      );
      if !share_vars {
        // C05 oracle: the reference semantics (Lean `Spec.sat`, run by the driver on the dumped
        // tree) must agree with the implementation's verdict on every node
        let verdicts: Vec<Value> = results.iter().map(|r| if r.is_object() { json!(!r["m"].is_null()) } else { r.clone() }).collect();
        o.op(
          "oracle:sat",
          json!({"t": tid, "core": dump, "regex": rxt, "spec": spec, "nodes": node_ids, "fp": sat_fingerprint(&spec)}),
          json!(verdicts),
        );
      }
    }
  }
  o.oracle("rules-loaded", true, json!({"cases": loaded, "rejected": rejected, "contract_excluded_trees": excluded}));
}

/// what C04 speaks about: whether the node matched and the user-visible bindings (the matched
/// node of a relation and the internal `secondary` label are not bindings)
pub fn project_bindings(r: &Value) -> Value {
  if !r.is_object() {
    return r.clone();
  }
  let mut multi = r["env"]["m"].as_object().cloned().unwrap_or_default();
  multi.remove("secondary");
  json!({"matched": !r["m"].is_null(), "s": r["env"]["s"], "m": multi})
}

/// input-class fingerprint of a rule for the C05 oracle: which risky constructions it contains
pub fn sat_fingerprint(spec: &Value) -> String {
  let mut feats: Vec<&str> = vec![];
  fn has_var(v: &Value) -> bool {
    match v {
      Value::String(s) => s.contains('$'),
      Value::Array(a) => a.iter().any(has_var),
      Value::Object(o) => o.values().any(has_var),
      _ => false,
    }
  }
  fn walk(v: &Value, in_rel: bool, feats: &mut Vec<&'static str>) {
    match v {
      Value::Array(a) => a.iter().for_each(|x| walk(x, in_rel, feats)),
      Value::Object(o) => {
        for (k, x) in o {
          match k.as_str() {
            "inside" | "has" | "precedes" | "follows" => {
              if k == "has" && x.get("field").is_some() && x.get("stopBy").map(|s| s.is_object()).unwrap_or(false) {
                feats.push("has-field-stopByRule");
              }
              if (k == "precedes" || k == "follows") {
                feats.push("sibling-relation");
              }
              walk(x, true, feats)
            }
            "not" => {
              if in_rel && has_var(x) {
                feats.push("not-with-var-under-relation");
              }
              walk(x, in_rel, feats)
            }
            "nthChild" => {
              if x.get("ofRule").map(has_var).unwrap_or(false) {
                feats.push("ofRule-with-var");
              }
              walk(x, in_rel, feats)
            }
            "matches" => feats.push("matches"),
            _ => walk(x, in_rel, feats),
          }
        }
      }
      _ => {}
    }
  }
  walk(spec, false, &mut feats);
  feats.sort();
  feats.dedup();
  // sibling relations only matter for the fingerprint when nothing else is special
  let f: Vec<&str> = feats.into_iter().filter(|f| *f != "sibling-relation" && *f != "matches").collect();
  if f.is_empty() { "sat:plain".to_string() } else { format!("sat:{}", f.join("+")) }
}

fn guard_load(spec: &Value, lang: SupportLang) -> Result<RuleCore<SupportLang>, String> {
  match std::panic::catch_unwind(std::panic::AssertUnwindSafe(|| load_core(spec, lang))) {
    Ok(r) => r,
    Err(_) => Err("panic".into()),
  }
}

pub fn exec(_op: &str, _a: &Value) -> Option<Value> {
  None
}
