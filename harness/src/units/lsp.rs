//! C09 (LSP-history half): random open/change/close histories against the real language
//! server (`ast_grep_lsp::Backend` behind tower-lsp's `LspService`/`Server`, in-process over a
//! duplex stream, like `crates/lsp/tests/basic.rs`).
//!
//! * `lsp_history`   — each notification is *awaited* (a `workspace/didChangeConfiguration`
//!                     barrier whose log message comes back through the same channel as the
//!                     publishes; the server runs with `concurrency_level(1)` so that handlers
//!                     run one after the other); the publish log is compared with the model's
//!                     `run`, and with the property oracle (highest version of the session,
//!                     latest among equals, text = last content change).
//! * `lsp_unawaited` — oracle only (regression oracle for fix 72c38ee): the shipped server
//!                     (`agv-sg lsp`, child process over stdio); the client fires its
//!                     notifications without waiting, as real editors do; the server must stay
//!                     alive and the final publish per document must be the session's highest
//!                     version.  Before the fix (tower-lsp's default dispatch, 4 handlers in
//!                     flight; map guard held across `.await`) updates were lost and the server
//!                     deadlocked.
use super::Ctx;
use crate::util::*;
use ast_grep_config::{from_yaml_string, GlobalRules, RuleCollection, RuleConfig};
use ast_grep_language::SupportLang;
use ast_grep_lsp::{Backend, LspService, Server};
use serde_json::{json, Value};
use std::path::Path;
use std::time::Duration;
use tokio::io::{duplex, AsyncReadExt, AsyncWriteExt, DuplexStream};

const RULE: &str = r"
id: no-console
message: No console.log
severity: warning
language: JavaScript
rule:
  pattern: console.log($A)
";

/// (uri, language inferable, has rules)
const URIS: [(&str, bool, bool); 5] = [
  ("file:///ws/a.js", true, true),
  ("file:///ws/sub/b.js", true, true),
  ("file:///ws/c.ts", true, false),
  ("file:///ws/notes.zzz", false, false),
  ("file:///elsewhere/d.js", true, true),
];
const WS: &str = "file:///ws";

fn spawn_server(concurrency: Option<usize>) -> (DuplexStream, DuplexStream, tokio::task::JoinHandle<()>) {
  let globals = GlobalRules::default();
  let config: RuleConfig<SupportLang> = from_yaml_string(RULE, &globals).unwrap().pop().unwrap();
  let base = Path::new("./").to_path_buf();
  let rc: RuleCollection<SupportLang> = RuleCollection::try_new(vec![config]).unwrap();
  let rc_result: std::result::Result<_, String> = Ok(rc);
  let (service, socket) = LspService::build(|client| Backend::new(client, base, rc_result)).finish();
  let (req_client, req_server) = duplex(1 << 20);
  let (resp_server, resp_client) = duplex(1 << 20);
  let server = Server::new(req_server, resp_server, socket);
  let server = match concurrency {
    Some(n) => server.concurrency_level(n),
    None => server,
  };
  let h = tokio::spawn(server.serve(service));
  (req_client, resp_client, h)
}

struct Client {
  tx: DuplexStream,
  rx: DuplexStream,
  buf: Vec<u8>,
  /// answer to `workspace/workspaceFolders`
  ws: Option<&'static str>,
  /// (uri, version, ranges)
  pubs: Vec<(String, Value, Vec<[u64; 4]>)>,
  eof: bool,
  barrier_seen: usize,
}

impl Client {
  async fn send(&mut self, v: &Value) -> bool {
    let body = v.to_string();
    let msg = format!("Content-Length: {}\r\n\r\n{}", body.len(), body);
    self.tx.write_all(msg.as_bytes()).await.is_ok()
  }

  fn try_parse(&mut self) -> Option<Value> {
    let hay = &self.buf;
    let pos = hay.windows(4).position(|w| w == b"\r\n\r\n")?;
    let head = std::str::from_utf8(&hay[..pos]).ok()?;
    let len: usize = head
      .split("\r\n")
      .find_map(|l| l.strip_prefix("Content-Length: "))
      .and_then(|n| n.trim().parse().ok())?;
    let start = pos + 4;
    if hay.len() < start + len {
      return None;
    }
    let body = hay[start..start + len].to_vec();
    self.buf.drain(..start + len);
    serde_json::from_slice(&body).ok()
  }

  /// next message from the server; `None` at end of stream (server gone)
  async fn read_msg(&mut self) -> Option<Value> {
    loop {
      if let Some(v) = self.try_parse() {
        return Some(v);
      }
      let mut chunk = [0u8; 8192];
      match self.rx.read(&mut chunk).await {
        Ok(0) | Err(_) => {
          self.eof = true;
          return None;
        }
        Ok(n) => self.buf.extend_from_slice(&chunk[..n]),
      }
    }
  }

  async fn handle(&mut self, msg: &Value) {
    let method = msg["method"].as_str().unwrap_or("");
    if method == "textDocument/publishDiagnostics" {
      let p = &msg["params"];
      let ranges = p["diagnostics"]
        .as_array()
        .map(|ds| {
          ds.iter()
            .map(|d| {
              let r = &d["range"];
              [
                r["start"]["line"].as_u64().unwrap_or(9999),
                r["start"]["character"].as_u64().unwrap_or(9999),
                r["end"]["line"].as_u64().unwrap_or(9999),
                r["end"]["character"].as_u64().unwrap_or(9999),
              ]
            })
            .collect()
        })
        .unwrap_or_default();
      self.pubs.push((p["uri"].as_str().unwrap_or("").to_string(), p["version"].clone(), ranges));
    } else if method == "workspace/workspaceFolders" && !msg["id"].is_null() {
      let result = match self.ws {
        Some(w) => json!([{"uri": w, "name": "ws"}]),
        None => Value::Null,
      };
      let resp = json!({"jsonrpc": "2.0", "id": msg["id"], "result": result});
      self.send(&resp).await;
    } else if method == "window/logMessage" && msg["params"]["message"] == "configuration changed!" {
      self.barrier_seen += 1;
    }
  }

  /// wait until the server has completely handled everything sent so far
  async fn barrier(&mut self) -> bool {
    let want = self.barrier_seen + 1;
    let n = json!({"jsonrpc": "2.0", "method": "workspace/didChangeConfiguration", "params": {"settings": {}}});
    if !self.send(&n).await {
      self.eof = true;
      return false;
    }
    while self.barrier_seen < want {
      match self.read_msg().await {
        Some(m) => self.handle(&m).await,
        None => return false,
      }
    }
    true
  }

  async fn initialize(&mut self) -> bool {
    let init = json!({"jsonrpc": "2.0", "id": 1, "method": "initialize",
      "params": {"capabilities": {"workspace": {"workspaceFolders": true}}}});
    if !self.send(&init).await {
      return false;
    }
    loop {
      match self.read_msg().await {
        Some(m) if m["id"] == 1 && m.get("result").is_some() => break,
        Some(m) => self.handle(&m).await,
        None => return false,
      }
    }
    self.send(&json!({"jsonrpc": "2.0", "method": "initialized", "params": {}})).await && self.barrier().await
  }
}

#[derive(Clone, Debug)]
enum HOp {
  Open(usize, i64, String),
  Change(usize, i64, Vec<String>),
  Close(usize),
}

fn op_json(op: &HOp) -> Value {
  match op {
    HOp::Open(u, v, t) => json!({"k": "open", "u": u, "v": v, "t": t}),
    HOp::Change(u, v, ts) => json!({"k": "change", "u": u, "v": v, "ts": ts}),
    HOp::Close(u) => json!({"k": "close", "u": u}),
  }
}

fn op_from_json(j: &Value) -> Option<HOp> {
  let u = j["u"].as_u64()? as usize;
  Some(match j["k"].as_str()? {
    "open" => HOp::Open(u, j["v"].as_i64()?, j["t"].as_str()?.to_string()),
    "change" => HOp::Change(
      u,
      j["v"].as_i64()?,
      j["ts"].as_array()?.iter().filter_map(|x| x.as_str().map(String::from)).collect(),
    ),
    "close" => HOp::Close(u),
    _ => return None,
  })
}

fn notification(uris: &[usize], op: &HOp) -> Value {
  let names: Vec<String> = uris.iter().map(|&k| URIS[k].0.to_string()).collect();
  notification_for(&names, op)
}

fn notification_for(names: &[String], op: &HOp) -> Value {
  match op {
    HOp::Open(u, v, t) => json!({"jsonrpc": "2.0", "method": "textDocument/didOpen", "params": {
      "textDocument": {"uri": names[*u], "languageId": "javascript", "version": v, "text": t}}}),
    HOp::Change(u, v, ts) => json!({"jsonrpc": "2.0", "method": "textDocument/didChange", "params": {
      "textDocument": {"uri": names[*u], "version": v},
      "contentChanges": ts.iter().map(|t| json!({"text": t})).collect::<Vec<_>>()}}),
    HOp::Close(u) => json!({"jsonrpc": "2.0", "method": "textDocument/didClose", "params": {
      "textDocument": {"uri": names[*u]}}}),
  }
}

/// the diagnostics of a text under the fixture rule: one per line that is a `console.log(…)`
/// call, covering the whole line (texts are generated so that this is the case)
fn diag_of(text: &str, has_rules: bool) -> Vec<[u64; 4]> {
  if !has_rules {
    return vec![];
  }
  text
    .split('\n')
    .enumerate()
    .filter(|(_, l)| l.starts_with("console.log("))
    .map(|(i, l)| [i as u64, 0, i as u64, l.len() as u64])
    .collect()
}

fn gen_text(rng: &mut Rng, serial: &mut u64) -> String {
  let n = rng.below(5);
  let mut lines = vec![];
  for _ in 0..n {
    *serial += 1;
    lines.push(match rng.below(5) {
      0 | 1 => format!("console.log({})", serial),
      2 => format!("foo({})", serial),
      3 => String::new(),
      _ => format!("// note {}", serial),
    });
  }
  lines.join("\n")
}

struct History {
  ws: bool,
  uris: Vec<usize>,
  ops: Vec<HOp>,
}

fn gen_history(rng: &mut Rng, allow_empty_change: bool) -> History {
  let ws = rng.chance(1, 2);
  let nu = 1 + rng.below(3);
  let mut pool: Vec<usize> = vec![0, 1, 0, 1, 2, 3, 4];
  let mut uris = vec![];
  while uris.len() < nu {
    let k = pool.remove(rng.below(pool.len()));
    if !uris.contains(&k) {
      uris.push(k);
    }
  }
  let len = 1 + rng.below(40);
  let mut serial = 0u64;
  let mut maxv: Vec<i64> = vec![0; nu];
  let mut lastv: Vec<i64> = vec![0; nu];
  let mut ops = vec![];
  let empty_at = if allow_empty_change { Some(rng.below(len)) } else { None };
  for i in 0..len {
    let u = rng.below(nu);
    let version = |rng: &mut Rng, maxv: &mut Vec<i64>, lastv: &mut Vec<i64>| -> i64 {
      let v = match rng.below(10) {
        0..=3 => maxv[u] + 1,
        4..=7 => rng.range(0, 8),
        8 => lastv[u],
        _ => *rng.pick(&[i32::MAX as i64, -1, 0, i32::MIN as i64, 1000]),
      };
      if v > maxv[u] && v < 1_000_000 {
        maxv[u] = v;
      }
      lastv[u] = v;
      v
    };
    let op = if Some(i) == empty_at {
      HOp::Change(u, version(rng, &mut maxv, &mut lastv), vec![])
    } else {
      match rng.below(10) {
        0 | 1 => HOp::Open(u, version(rng, &mut maxv, &mut lastv), gen_text(rng, &mut serial)),
        2 | 3 if i > 0 => HOp::Close(u),
        _ => {
          let k = match rng.below(12) {
            0 => 2 + rng.below(2),
            _ => 1,
          };
          let ts = (0..k).map(|_| gen_text(rng, &mut serial)).collect();
          HOp::Change(u, version(rng, &mut maxv, &mut lastv), ts)
        }
      }
    };
    ops.push(op);
  }
  // make sure most histories open something early
  if rng.chance(3, 4) {
    let u = rng.below(nu);
    ops.insert(0, HOp::Open(u, rng.range(0, 5), gen_text(rng, &mut serial)));
  }
  History { ws, uris, ops }
}

fn cfg_json(h: &History) -> Value {
  json!({
    "ws": h.ws,
    "uris": h.uris.iter().map(|&k| json!({
      "uri": URIS[k].0,
      "lang": URIS[k].1,
      "rules": URIS[k].2,
      "outside": h.ws && !URIS[k].0.starts_with("file:///ws/"),
    })).collect::<Vec<_>>(),
  })
}

/// run one history with every notification awaited; result in the canonical JSON of the op
async fn run_awaited(h: &History) -> Value {
  let (tx, rx, server) = spawn_server(Some(1));
  let mut c = Client { tx, rx, buf: vec![], ws: if h.ws { Some(WS) } else { None }, pubs: vec![], eof: false, barrier_seen: 0 };
  if !c.initialize().await {
    return json!({"harness_error": "initialize failed"});
  }
  let mut crashed = false;
  for op in &h.ops {
    let n = notification(&h.uris, op);
    if !c.send(&n).await || !c.barrier().await {
      crashed = true;
      break;
    }
  }
  if !crashed {
    // orderly end
    let _ = c.send(&json!({"jsonrpc": "2.0", "id": 99, "method": "shutdown"})).await;
  }
  drop(c.tx);
  let joined = tokio::time::timeout(Duration::from_secs(5), server).await;
  let panicked = matches!(joined, Ok(Err(ref e)) if e.is_panic());
  let pubs: Vec<Value> = c
    .pubs
    .iter()
    .map(|(uri, v, ranges)| {
      let u = h.uris.iter().position(|&k| URIS[k].0 == uri).map(|x| json!(x)).unwrap_or(json!(uri));
      json!([u, v, ranges])
    })
    .collect();
  json!({"pubs": pubs, "crashed": crashed || panicked})
}

fn block_on_awaited(rt: &tokio::runtime::Runtime, h: &History) -> Value {
  rt.block_on(async {
    match tokio::time::timeout(Duration::from_secs(30), run_awaited(h)).await {
      Ok(v) => v,
      Err(_) => json!("hang"),
    }
  })
}

/// the property's oracle, from its statement and the LSP specification: for every document
/// that can be served and has been opened, the last publish is the one of the highest version
/// received since it was last opened (until it was closed), the latest among equals; the text
/// of a didChange is its *last* content change.  Returns (uri index, expected, got) on failure.
fn oracle_latest(h: &History, pubs: &[Value]) -> Vec<(usize, Value, Value, &'static str)> {
  let mut bad = vec![];
  for (ui, &k) in h.uris.iter().enumerate() {
    let (_, lang, rules) = URIS[k];
    let outside = h.ws && !URIS[k].0.starts_with("file:///ws/");
    let last_pub = pubs.iter().rev().find(|p| p[0] == json!(ui)).cloned();
    if !lang || outside {
      if last_pub.is_some() {
        bad.push((ui, Value::Null, last_pub.unwrap(), "lsp publish for a document that cannot be served"));
      }
      continue;
    }
    let Some(open_at) = h.ops.iter().rposition(|o| matches!(o, HOp::Open(u, _, _) if *u == ui)) else {
      if last_pub.is_some() {
        bad.push((ui, Value::Null, last_pub.unwrap(), "lsp publish for a never opened document"));
      }
      continue;
    };
    let mut best: Option<(i64, String)> = None;
    let mut multi = false;
    for o in &h.ops[open_at..] {
      match o {
        HOp::Open(u, v, t) if *u == ui => best = Some((*v, t.clone())),
        HOp::Change(u, v, ts) if *u == ui => {
          if ts.len() > 1 && ts.first() != ts.last() {
            multi = true;
          }
          // an empty change list carries no text: nothing was "received"
          let Some(t) = ts.last().cloned() else { continue };
          if best.as_ref().map(|b| *v >= b.0).unwrap_or(true) {
            best = Some((*v, t));
          }
        }
        HOp::Close(u) if *u == ui => break,
        _ => {}
      }
    }
    let (v, t) = best.unwrap();
    let expected = json!([ui, v, diag_of(&t, rules)]);
    if last_pub.as_ref() != Some(&expected) {
      let fp = if multi {
        "lsp didChange with several contentChanges: element 0 is used, not the last"
      } else {
        "lsp last publish is not the session's highest version"
      };
      bad.push((ui, expected, last_pub.unwrap_or(Value::Null), fp));
    }
  }
  bad
}

pub fn lsp_history(ctx: &Ctx, rng: &mut Rng, o: &mut Out) {
  let rt = tokio::runtime::Builder::new_multi_thread().worker_threads(2).enable_all().build().unwrap();
  let n = if ctx.thorough { 6000 } else { 400 };
  let (mut cases, mut crashes, mut notifications, mut publishes) = (0usize, 0usize, 0usize, 0usize);
  for i in 0..n {
    let allow_empty = i % 6 == 1;
    let h = gen_history(rng, allow_empty);
    let r = block_on_awaited(&rt, &h);
    let args = json!({"cfg": cfg_json(&h), "history": h.ops.iter().map(op_json).collect::<Vec<_>>()});
    notifications += h.ops.len();
    if let Some(p) = r["pubs"].as_array() {
      publishes += p.len();
      if r["crashed"] == json!(true) {
        crashes += 1;
        let at = h.ops.iter().position(|o| matches!(o, HOp::Change(_, _, ts) if ts.is_empty()));
        o.oracle("lsp_no_crash", false, json!({
          "fp": if at.is_some() { "lsp didChange with empty contentChanges panics the server" } else { "lsp server stopped" },
          "history": args["history"], "cfg": args["cfg"], "crash_at": at}));
      } else {
        for (ui, expected, got, fp) in oracle_latest(&h, p) {
          o.oracle("lsp_latest", false, json!({"fp": fp, "uri": ui, "expected": expected, "got": got,
            "history": args["history"], "cfg": args["cfg"]}));
        }
      }
    } else {
      o.oracle("lsp_no_hang", false, json!({"fp": "lsp awaited history: no answer", "result": r, "history": args["history"], "cfg": args["cfg"]}));
    }
    o.op("lsp_run", args, r);
    cases += 1;
  }
  o.oracle("lsp_histories", true, json!({"cases": cases, "notifications": notifications, "publishes": publishes, "crashed_histories": crashes}));
  rt.shutdown_background();
}

// ---------------------------------------------------------------------------------------------
// unawaited histories (default dispatch), final publish only

async fn run_unawaited(h: &History, concurrency: Option<usize>) -> Value {
  let (tx, rx, server) = spawn_server(concurrency);
  let mut c = Client { tx, rx, buf: vec![], ws: if h.ws { Some(WS) } else { None }, pubs: vec![], eof: false, barrier_seen: 0 };
  match tokio::time::timeout(Duration::from_secs(10), c.initialize()).await {
    Ok(true) => {}
    Ok(false) => return json!({"harness_error": "initialize failed"}),
    Err(_) => return json!({"harness_error": "initialize: no answer within 10 s"}),
  }
  // fire everything, then drain until the server has been quiet for a while
  for op in &h.ops {
    if !c.send(&notification(&h.uris, op)).await {
      break;
    }
  }
  let mut quiet = 0;
  while quiet < 2 {
    match tokio::time::timeout(Duration::from_millis(100), c.read_msg()).await {
      Ok(Some(m)) => {
        quiet = 0;
        c.handle(&m).await;
      }
      Ok(None) => break,
      Err(_) => quiet += 1,
    }
  }
  // is the server still alive?  (a deadlocked server never answers)
  let alive = matches!(tokio::time::timeout(Duration::from_secs(20), c.barrier()).await, Ok(true));
  server.abort();
  let pubs: Vec<Value> = c
    .pubs
    .iter()
    .map(|(uri, v, ranges)| {
      let u = h.uris.iter().position(|&k| URIS[k].0 == uri).map(|x| json!(x)).unwrap_or(json!(uri));
      json!([u, v, ranges])
    })
    .collect();
  json!({"pubs": pubs, "alive": alive})
}


// ---------------------------------------------------------------------------------------------
// the shipped server: `agv-sg lsp` as a child process over stdio

struct ProcClient {
  child: std::process::Child,
  stdin: std::process::ChildStdin,
  rx: std::sync::mpsc::Receiver<Value>,
  ws: Option<String>,
  pubs: Vec<(String, Value, Vec<[u64; 4]>)>,
  barrier_seen: usize,
}

impl ProcClient {
  fn spawn(project: &Path, ws: Option<String>) -> Option<ProcClient> {
    use std::io::{BufRead, Read};
    let mut child = std::process::Command::new(super::worker::sg_bin())
      .arg("lsp")
      .current_dir(project)
      .stdin(std::process::Stdio::piped())
      .stdout(std::process::Stdio::piped())
      .stderr(std::process::Stdio::null())
      .spawn()
      .ok()?;
    let stdin = child.stdin.take()?;
    let stdout = child.stdout.take()?;
    let (tx, rx) = std::sync::mpsc::channel();
    std::thread::spawn(move || {
      let mut r = std::io::BufReader::new(stdout);
      loop {
        let mut len = None;
        loop {
          let mut line = String::new();
          match r.read_line(&mut line) {
            Ok(0) | Err(_) => return,
            Ok(_) => {}
          }
          let l = line.trim_end();
          if l.is_empty() {
            break;
          }
          if let Some(n) = l.strip_prefix("Content-Length: ") {
            len = n.trim().parse::<usize>().ok();
          }
        }
        let Some(n) = len else { return };
        let mut body = vec![0u8; n];
        if r.read_exact(&mut body).is_err() {
          return;
        }
        if let Ok(v) = serde_json::from_slice::<Value>(&body) {
          if tx.send(v).is_err() {
            return;
          }
        }
      }
    });
    Some(ProcClient { child, stdin, rx, ws, pubs: vec![], barrier_seen: 0 })
  }

  fn send(&mut self, v: &Value) -> bool {
    use std::io::Write;
    let body = v.to_string();
    let msg = format!("Content-Length: {}\r\n\r\n{}", body.len(), body);
    self.stdin.write_all(msg.as_bytes()).is_ok() && self.stdin.flush().is_ok()
  }

  fn handle(&mut self, msg: &Value) {
    let method = msg["method"].as_str().unwrap_or("");
    if method == "textDocument/publishDiagnostics" {
      let p = &msg["params"];
      let ranges = p["diagnostics"]
        .as_array()
        .map(|ds| {
          ds.iter()
            .map(|d| {
              let r = &d["range"];
              [
                r["start"]["line"].as_u64().unwrap_or(9999),
                r["start"]["character"].as_u64().unwrap_or(9999),
                r["end"]["line"].as_u64().unwrap_or(9999),
                r["end"]["character"].as_u64().unwrap_or(9999),
              ]
            })
            .collect()
        })
        .unwrap_or_default();
      self.pubs.push((p["uri"].as_str().unwrap_or("").to_string(), p["version"].clone(), ranges));
    } else if method == "workspace/workspaceFolders" && !msg["id"].is_null() {
      let result = match &self.ws {
        Some(w) => json!([{"uri": w, "name": "ws"}]),
        None => Value::Null,
      };
      let resp = json!({"jsonrpc": "2.0", "id": msg["id"], "result": result});
      self.send(&resp);
    } else if method == "window/logMessage" && msg["params"]["message"] == "configuration changed!" {
      self.barrier_seen += 1;
    }
  }

  /// `Some(true)`: barrier answered, `Some(false)`: server gone, `None`: no answer in time
  fn barrier(&mut self, timeout: Duration) -> Option<bool> {
    let want = self.barrier_seen + 1;
    let n = json!({"jsonrpc": "2.0", "method": "workspace/didChangeConfiguration", "params": {"settings": {}}});
    if !self.send(&n) {
      return Some(false);
    }
    let deadline = std::time::Instant::now() + timeout;
    while self.barrier_seen < want {
      let left = deadline.saturating_duration_since(std::time::Instant::now());
      if left.is_zero() {
        return None;
      }
      match self.rx.recv_timeout(left) {
        Ok(m) => self.handle(&m),
        Err(std::sync::mpsc::RecvTimeoutError::Timeout) => return None,
        Err(_) => return Some(false),
      }
    }
    Some(true)
  }

  fn initialize(&mut self) -> bool {
    let init = json!({"jsonrpc": "2.0", "id": 1, "method": "initialize",
      "params": {"capabilities": {"workspace": {"workspaceFolders": true}}}});
    if !self.send(&init) {
      return false;
    }
    loop {
      match self.rx.recv_timeout(Duration::from_secs(20)) {
        Ok(m) if m["id"] == 1 && m.get("result").is_some() => break,
        Ok(m) => self.handle(&m),
        Err(_) => return false,
      }
    }
    self.send(&json!({"jsonrpc": "2.0", "method": "initialized", "params": {}}))
      && self.barrier(Duration::from_secs(20)) == Some(true)
  }
}

const PROC_RULE: &str = "id: no-console\nmessage: No console.log\nseverity: warning\nlanguage: JavaScript\nrule:\n  pattern: console.log($A)\n";

fn make_project(seed: u64) -> std::path::PathBuf {
  let p = std::env::temp_dir().join(format!("agv-c09-lsp-{}-{}", std::process::id(), seed));
  let _ = std::fs::remove_dir_all(&p);
  std::fs::create_dir_all(p.join("rules")).unwrap();
  std::fs::write(p.join("sgconfig.yml"), "ruleDirs:\n  - rules\n").unwrap();
  std::fs::write(p.join("rules/no-console.yml"), PROC_RULE).unwrap();
  p
}

/// fire a history at the real `sg lsp` process without awaiting anything
fn run_unawaited_proc(project: &Path, h: &History) -> Value {
  let root = format!("file://{}", project.display());
  let names: Vec<String> = vec![format!("{root}/a.js"), format!("{root}/sub/b.js")];
  let names: Vec<String> = h.uris.iter().map(|&k| names[k % 2].clone()).collect();
  let Some(mut c) = ProcClient::spawn(project, if h.ws { Some(root.clone()) } else { None }) else {
    return json!({"harness_error": "cannot spawn agv-sg lsp"});
  };
  if !c.initialize() {
    let _ = c.child.kill();
    let _ = c.child.wait();
    return json!({"harness_error": "initialize failed"});
  }
  for op in &h.ops {
    if !c.send(&notification_for(&names, op)) {
      break;
    }
  }
  let mut quiet = 0;
  while quiet < 2 {
    match c.rx.recv_timeout(Duration::from_millis(100)) {
      Ok(m) => {
        quiet = 0;
        c.handle(&m);
      }
      Err(std::sync::mpsc::RecvTimeoutError::Timeout) => quiet += 1,
      Err(_) => break,
    }
  }
  let alive = c.barrier(Duration::from_secs(20)) == Some(true);
  let _ = c.child.kill();
  let _ = c.child.wait();
  let pubs: Vec<Value> = c
    .pubs
    .iter()
    .map(|(uri, v, ranges)| {
      let u = names.iter().position(|n| n == uri).map(|x| json!(x)).unwrap_or(json!(uri));
      json!([u, v, ranges])
    })
    .collect();
  json!({"pubs": pubs, "alive": alive})
}

fn block_on_unawaited(h: &History, concurrency: Option<usize>) -> Value {
  let rt = tokio::runtime::Builder::new_multi_thread().worker_threads(2).enable_all().build().unwrap();
  let r = rt.block_on(async {
    match tokio::time::timeout(Duration::from_secs(20), run_unawaited(h, concurrency)).await {
      Ok(v) => v,
      Err(_) => json!("hang"),
    }
  });
  // a deadlocked server thread cannot be joined: leave it behind
  rt.shutdown_background();
  r
}

pub fn lsp_unawaited(ctx: &Ctx, rng: &mut Rng, o: &mut Out) {
  let n = if ctx.thorough { 300 } else { 40 };
  let (mut cases, mut lost, mut stuck, mut control_bad) = (0usize, 0usize, 0usize, 0usize);
  let mut control_transient: Vec<Value> = vec![];
  let project = make_project(ctx.seed);
  for i in 0..n {
    // protocol-conforming single-document histories: open, then strictly increasing changes
    let mut serial = 0u64;
    let nchanges = 1 + rng.below(if i % 2 == 0 { 2 } else { 12 });
    let mut ops = vec![HOp::Open(0, 1, gen_text(rng, &mut serial))];
    for k in 0..nchanges {
      ops.push(HOp::Change(0, 2 + k as i64, vec![gen_text(rng, &mut serial)]));
    }
    let h = History { ws: rng.chance(1, 2), uris: vec![rng.below(2)], ops };
    let hist = json!(h.ops.iter().map(op_json).collect::<Vec<_>>());
    // control: the same unawaited client against the in-process Backend with sequential
    // dispatch must satisfy the oracle.  A run that gives no answer at all is repeated (twice):
    // only a reproducible failure is a failure of the control; a transient one is counted and
    // shown in the summary line (seen once in ~7 000 runs on a machine at load 29, not
    // reproduced in 1 500 further runs; the shipped server below is judged without retry).
    let control_of = |rc: &Value| rc["alive"] == json!(true) && rc["pubs"].as_array().map(|p| oracle_latest(&h, p).is_empty()).unwrap_or(false);
    let mut rc = block_on_unawaited(&h, Some(1));
    let mut control_ok = control_of(&rc);
    if !control_ok && (rc == json!("hang") || rc.get("harness_error").is_some()) {
      control_transient.push(json!({"result": rc, "history": hist, "ws": h.ws}));
      for _ in 0..2 {
        rc = block_on_unawaited(&h, Some(1));
        control_ok = control_of(&rc);
        if control_ok {
          break;
        }
      }
    }
    if !control_ok {
      control_bad += 1;
      o.oracle("lsp_unawaited_control", false, json!({"fp": "lsp unawaited notifications, sequential dispatch", "result": rc, "history": hist, "ws": h.ws}));
    }
    // the shipped server (`agv-sg lsp`, tower-lsp's default dispatch: 4 handlers in flight)
    let r = run_unawaited_proc(&project, &h);
    cases += 1;
    if r == json!("hang") || r["alive"] == json!(false) {
      stuck += 1;
      o.oracle("lsp_unawaited_alive", false, json!({"fp": "lsp unawaited notifications: server stops answering", "result": r, "history": hist, "ws": h.ws}));
      continue;
    }
    if let Some(p) = r["pubs"].as_array() {
      let bad = oracle_latest(&h, p);
      if !bad.is_empty() {
        lost += 1;
        let (_, expected, got, _) = &bad[0];
        o.oracle("lsp_unawaited_latest", false, json!({
          "fp": "lsp unawaited notifications: didChange handled while didOpen is still in flight is dropped",
          "expected": expected, "got": got, "history": hist, "ws": h.ws}));
      }
    }
  }
  let _ = std::fs::remove_dir_all(&project);
  o.oracle("lsp_unawaited", true, json!({"cases": cases, "server": "agv-sg lsp (child process, stdio)", "histories_with_lost_update": lost, "histories_server_stuck": stuck,
    "control_sequential_dispatch_failures": control_bad, "control_transient_no_answer": control_transient}));
}

pub fn exec(op: &str, a: &Value) -> Option<Value> {
  if op != "lsp_run" {
    return None;
  }
  let ws = a["cfg"]["ws"].as_bool()?;
  let uris: Vec<usize> = a["cfg"]["uris"]
    .as_array()?
    .iter()
    .filter_map(|u| URIS.iter().position(|x| Some(x.0) == u["uri"].as_str()))
    .collect();
  let ops: Vec<HOp> = a["history"].as_array()?.iter().filter_map(op_from_json).collect();
  let h = History { ws, uris, ops };
  let rt = tokio::runtime::Builder::new_multi_thread().worker_threads(2).enable_all().build().ok()?;
  let r = block_on_awaited(&rt, &h);
  rt.shutdown_background();
  Some(r)
}
