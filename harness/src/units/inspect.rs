//! Slice "inspect" (C15 / C17): the CLI's own account of its work, `--inspect summary|entity`.
//!
//! Generated projects (several languages, HTML pages with embedded script / style, files no rule
//! applies to, files without language, empty / non-UTF-8 / unreadable (`chmod 000`) / oversized
//! files, rules with `files:` / `ignores:` / `severity: off`, `--off` / `--error` / … / `--filter`
//! flags) go through the REAL CLI (`agv-sg`, always with a timeout) as `sg scan` and `sg run`
//! (with and without `-l`), at `--inspect summary` and `--inspect entity`, `-j 1 / 4 / 16`.
//! * correspondence `inspect_cli`: the sorted stderr trace lines, in a canonical spelling, against
//!   the prediction of `Model/Inspect.lean` from the project description;
//! * oracles on the implementation alone, from the documentation of `--inspect` (see each).
use super::worker::{detect_priv, run_cli, Priv};
use super::Ctx;
use crate::util::*;
use ast_grep_core::Pattern;
use ast_grep_language::SupportLang;
use serde_json::{json, Value};
use std::collections::{BTreeMap, BTreeSet};
use std::os::unix::fs::PermissionsExt;
use std::path::{Path, PathBuf};
use std::time::Duration;

const SEVS: [&str; 5] = ["error", "warning", "info", "hint", "off"];

/// (extension, language index in `SupportLang::all_langs()`), written from the language table of
/// the documentation
const EXTS: &[(&str, usize)] =
  &[("js", 10), ("mjs", 10), ("ts", 21), ("tsx", 20), ("py", 15), ("rs", 17), ("css", 4), ("html", 8), ("yml", 22)];
const NOLANG_EXTS: &[&str] = &["txt", "dat"];

fn lang_name(idx: usize) -> &'static str {
  match idx {
    10 => "JavaScript",
    21 => "TypeScript",
    20 => "Tsx",
    15 => "Python",
    17 => "Rust",
    4 => "Css",
    8 => "Html",
    22 => "Yaml",
    _ => "?",
  }
}
fn lang_cli(idx: usize) -> &'static str {
  match idx {
    10 => "js",
    21 => "ts",
    20 => "tsx",
    15 => "python",
    17 => "rust",
    4 => "css",
    8 => "html",
    _ => "?",
  }
}
/// (source line with one number, kind of the number) per language
fn lang_line(idx: usize) -> (&'static str, &'static str) {
  match idx {
    10 | 21 | 20 => ("let a = 1\n", "number"),
    15 => ("a = 1\n", "integer"),
    17 => ("fn f() { let a = 1; }\n", "integer_literal"),
    4 => ("a { width: 1; }\n", "integer_value"),
    8 => ("<div>t</div>\n", "element"),
    _ => ("k: 1\n", "integer_scalar"),
  }
}
fn ext_lang(path: &str) -> Option<usize> {
  let name = path.rsplit('/').next().unwrap_or("");
  let ext = name.rsplit('.').next().unwrap_or("");
  EXTS.iter().find(|(e, _)| *e == ext).map(|(_, l)| *l)
}
/// languages that can be embedded in a page (documentation of HTML support)
fn hosted_in_html(l: usize) -> bool {
  matches!(l, 4 | 10 | 21 | 20)
}

#[derive(Clone, Copy, PartialEq, Eq, Debug)]
enum Kind {
  Text,
  Empty,
  Invalid,
  Unreadable,
  TooLarge,
}
impl Kind {
  fn name(self) -> &'static str {
    match self {
      Kind::Text => "text",
      Kind::Empty => "empty",
      Kind::Invalid => "invalid",
      Kind::Unreadable => "unreadable",
      Kind::TooLarge => "toolarge",
    }
  }
  fn fault(self) -> bool {
    self != Kind::Text
  }
}

struct IFile {
  path: String,
  kind: Kind,
  lang: Option<usize>,
  script: bool,
  style: bool,
}
impl IFile {
  fn present(&self) -> Vec<usize> {
    let mut v = vec![];
    if self.style {
      v.push(4);
    }
    if self.script {
      v.push(10);
    }
    v
  }
}

struct IRule {
  id: String,
  lang: usize,
  sev: String,
  files: Option<Vec<String>>,
  ignores: Option<Vec<String>>,
}

struct IProj {
  files: Vec<IFile>,
  rules: Vec<IRule>,
}

fn rule_yaml(r: &IRule) -> String {
  let mut s = format!(
    "id: {}\nlanguage: {}\nseverity: {}\nrule: {{kind: \"{}\"}}\n",
    r.id,
    lang_name(r.lang),
    r.sev,
    lang_line(r.lang).1
  );
  if let Some(f) = &r.files {
    s.push_str(&format!("files: {}\n", serde_json::to_string(f).unwrap()));
  }
  if let Some(f) = &r.ignores {
    s.push_str(&format!("ignores: {}\n", serde_json::to_string(f).unwrap()));
  }
  s
}

fn gen_globs(rng: &mut Rng) -> Option<Vec<String>> {
  if rng.chance(3, 5) {
    return None;
  }
  let pool = ["src/**", "**/*.ts", "lib/**", "**/f1*", "**/sub/**", "*.js", "**/*.html", "src/*", "**/*.{js,css}", "**"];
  let n = 1 + rng.below(2);
  Some((0..n).map(|_| rng.pick(&pool).to_string()).collect())
}

fn gen_project(rng: &mut Rng, pv: &Priv, big: bool) -> IProj {
  let langs = [10usize, 21, 20, 15, 17, 4, 8];
  let nrules = 2 + rng.below(6);
  let rules: Vec<IRule> = (0..nrules)
    .map(|i| IRule {
      id: format!("r{i}"),
      lang: *rng.pick(&langs),
      sev: rng.pick(&SEVS).to_string(),
      files: gen_globs(rng),
      ignores: if rng.chance(1, 3) { gen_globs(rng) } else { None },
    })
    .collect();
  let nfiles = 5 + rng.below(if big { 56 } else { 26 });
  let dirs = ["", "src/", "src/sub/", "lib/"];
  let mut files = vec![];
  let mut large_done = false;
  for i in 0..nfiles {
    let dir = rng.pick(&dirs);
    let (ext, lang): (&str, Option<usize>) = if rng.chance(1, 8) {
      (*rng.pick(NOLANG_EXTS), None)
    } else {
      let (e, l) = *rng.pick(&EXTS[..8]);
      (e, Some(l))
    };
    let mut kind = match rng.below(14) {
      0 => Kind::Empty,
      1 => Kind::Invalid,
      2 if pv.chmod_effective => Kind::Unreadable,
      _ => Kind::Text,
    };
    if big && !large_done && i == 3 && ext == "js" {
      kind = Kind::TooLarge;
      large_done = true;
    }
    let html = lang == Some(8);
    files.push(IFile {
      path: format!("{dir}f{i}.{ext}"),
      kind,
      lang,
      script: html && rng.chance(2, 3),
      style: html && rng.chance(1, 2),
    });
  }
  files.push(IFile { path: "sgconfig.yml".into(), kind: Kind::Text, lang: Some(22), script: false, style: false });
  files.push(IFile { path: "rules/all.yml".into(), kind: Kind::Text, lang: Some(22), script: false, style: false });
  IProj { files, rules }
}

fn world(p: &Path) {
  std::fs::create_dir_all(p).expect("mkdir");
  let _ = std::fs::set_permissions(p, std::fs::Permissions::from_mode(0o755));
}

fn file_bytes(f: &IFile) -> Vec<u8> {
  let mut body = match f.lang {
    None => "hello 1\n".to_string(),
    Some(l) => lang_line(l).0.to_string(),
  };
  if f.script {
    body.push_str("<script>let a = 1</script>\n");
  }
  if f.style {
    body.push_str("<style>a { width: 1; }</style>\n");
  }
  match f.kind {
    Kind::Empty => vec![],
    Kind::Invalid => {
      let mut v = body.into_bytes();
      v.push(0xff);
      v.push(b'\n');
      v
    }
    Kind::TooLarge => "let a = 1 // pad\n".repeat(200_010).into_bytes(),
    _ => body.into_bytes(),
  }
}

fn materialize(p: &IProj, tag: &str) -> PathBuf {
  let root = std::env::temp_dir().join(format!("agv-insp-{}-{}", std::process::id(), tag));
  let _ = std::fs::remove_dir_all(&root);
  world(&root);
  world(&root.join("rules"));
  std::fs::write(root.join("sgconfig.yml"), "ruleDirs: [rules]\n").unwrap();
  let yaml: Vec<String> = p.rules.iter().map(rule_yaml).collect();
  std::fs::write(root.join("rules/all.yml"), yaml.join("---\n")).unwrap();
  for f in &p.files {
    if f.path == "sgconfig.yml" || f.path == "rules/all.yml" {
      continue;
    }
    let path = root.join(&f.path);
    world(path.parent().unwrap());
    std::fs::write(&path, file_bytes(f)).unwrap();
    if f.kind == Kind::Unreadable {
      std::fs::set_permissions(&path, std::fs::Permissions::from_mode(0o000)).unwrap();
    }
  }
  root
}

fn cleanup(p: &IProj, root: &Path) {
  for f in &p.files {
    if f.kind == Kind::Unreadable {
      let _ = std::fs::set_permissions(root.join(&f.path), std::fs::Permissions::from_mode(0o644));
    }
  }
  let _ = std::fs::remove_dir_all(root);
}

// ---------------------------------------------------------------------------------------------
// flags (never a bare `--SEV` together with `--SEV=ID`: that is C15's known finding)

type Occs = Vec<(String, Option<String>)>;

fn gen_flags(rng: &mut Rng, ids: &[String]) -> (Occs, Option<String>) {
  let mut occs: Occs = vec![];
  let n = [0, 0, 1, 1, 2, 3][rng.below(6)];
  for _ in 0..n {
    let s = rng.pick(&SEVS).to_string();
    let bare_exists = occs.iter().any(|(x, i)| *x == s && i.is_none());
    let id_exists = occs.iter().any(|(x, i)| *x == s && i.is_some());
    let want_bare = rng.chance(1, 3);
    if (want_bare && id_exists) || (!want_bare && bare_exists) {
      continue;
    }
    let id = if want_bare { None } else { Some(rng.pick(ids).clone()) };
    occs.push((s, id));
  }
  let filter = if rng.chance(1, 4) { Some(rng.pick(&["^r[0-2]$", "1|3", "r[^0]", "^r0$", "r"]).to_string()) } else { None };
  (occs, filter)
}

fn flag_args(occs: &Occs, filter: &Option<String>) -> Vec<String> {
  let mut a = vec![];
  for (s, id) in occs {
    match id {
      Some(i) => a.push(format!("--{s}={i}")),
      None => a.push(format!("--{s}")),
    }
  }
  if let Some(f) = filter {
    a.push(format!("--filter={f}"));
  }
  a
}

/// documented reading: a flag naming the rule, else a bare flag, else the rule's own severity;
/// among several the weakest wins
fn final_severity(occs: &Occs, id: &str, own: &str) -> String {
  let rank = |s: &str| SEVS.iter().position(|x| *x == s).unwrap();
  let by_id: Vec<&String> = occs.iter().filter(|(_, i)| i.as_deref() == Some(id)).map(|(s, _)| s).collect();
  let bare: Vec<&String> = occs.iter().filter(|(_, i)| i.is_none()).map(|(s, _)| s).collect();
  let pick = |v: &Vec<&String>| v.iter().max_by_key(|s| rank(s)).map(|s| s.to_string());
  pick(&by_id).or_else(|| pick(&bare)).unwrap_or_else(|| own.to_string())
}

fn filter_ok(filter: &Option<String>, id: &str) -> bool {
  filter.as_ref().map_or(true, |f| regex::Regex::new(f).unwrap().is_match(id))
}

// ---------------------------------------------------------------------------------------------
// the trace

/// `sg: …` lines of stderr in the canonical spelling of `Driver/Inspect.lean`, sorted
fn parse_trace(stderr: &str) -> Vec<String> {
  let all = SupportLang::all_langs();
  let lang_idx = |name: &str| all.iter().position(|l| format!("{l}") == name).map_or("?".to_string(), |i| i.to_string());
  let kv = |s: &str, k: &str| -> String {
    s.split(',').find_map(|p| p.strip_prefix(&format!("{k}=")).map(|v| v.to_string())).unwrap_or_else(|| "?".into())
  };
  let mut out = vec![];
  for line in stderr.lines() {
    let Some(rest) = line.strip_prefix("sg: ") else { continue };
    let Some((head, body)) = rest.split_once(": ") else { continue };
    let parts: Vec<&str> = head.splitn(3, '|').collect();
    let s = match parts.as_slice() {
      ["summary", "project"] => format!("summary|project|{}", if kv(body, "isProject") == "true" { 1 } else { 0 }),
      ["summary", "file"] => format!("summary|file|{}|{}", kv(body, "scannedFileCount"), kv(body, "skippedFileCount")),
      ["summary", "rule"] => format!("summary|rule|{}|{}", kv(body, "effectiveRuleCount"), kv(body, "skippedRuleCount")),
      ["entity", "file", p] => {
        let n = kv(body, "appliedRuleCount");
        format!("entity|file|{}|{}|{}", p, lang_idx(&kv(body, "language")), if n == "?" { "-".to_string() } else { n })
      }
      ["entity", "rule", id] => format!("entity|rule|{}|{}", id, kv(body, "finalSeverity").to_lowercase()),
      _ => format!("unparsed|{rest}"),
    };
    out.push(s);
  }
  out.sort_by(|a, b| a.as_bytes().cmp(b.as_bytes()));
  out
}

/// `--json=stream` stdout → (file, ruleId or "") → count
fn parse_findings(stdout: &[u8]) -> BTreeMap<(String, String), usize> {
  let mut m = BTreeMap::new();
  for line in String::from_utf8_lossy(stdout).lines() {
    if let Ok(v) = serde_json::from_str::<Value>(line) {
      let f = v["file"].as_str().unwrap_or("?").to_string();
      let id = v["ruleId"].as_str().unwrap_or("").to_string();
      *m.entry((f, id)).or_insert(0) += 1;
    }
  }
  m
}

fn glob_tables(rules: &[IRule], paths: &[String]) -> (Value, Value) {
  let mut globs = BTreeSet::new();
  for r in rules {
    for g in r.files.iter().flatten().chain(r.ignores.iter().flatten()) {
      globs.insert(g.clone());
    }
  }
  let mut gm = vec![];
  for g in &globs {
    let m = globset::Glob::new(g).unwrap().compile_matcher();
    for p in paths {
      if m.is_match(p) {
        gm.push(json!([g, p]));
      }
    }
  }
  (json!(gm), json!([]))
}

fn globs_accept(r: &IRule, path: &str) -> bool {
  let any = |gs: &Vec<String>| gs.iter().any(|g| globset::Glob::new(g).unwrap().compile_matcher().is_match(path));
  if r.ignores.as_ref().map_or(false, any) {
    return false;
  }
  r.files.as_ref().map_or(true, any)
}

struct Cmd {
  name: &'static str, // scan | run
  lang: Option<usize>,
  pattern: &'static str,
  occs: Occs,
  filter: Option<String>,
}

fn cmd_args(c: &Cmd, level: &str, j: usize) -> Vec<String> {
  let mut a: Vec<String> = vec![c.name.into()];
  if c.name == "run" {
    a.push("-p".into());
    a.push(c.pattern.into());
    if let Some(l) = c.lang {
      a.push("-l".into());
      a.push(lang_cli(l).into());
    }
  } else {
    a.extend(flag_args(&c.occs, &c.filter));
  }
  a.extend(["--json=stream".to_string(), "--inspect".into(), level.into(), "-j".into(), j.to_string()]);
  a
}

fn pattern_ok(pattern: &str) -> Vec<usize> {
  SupportLang::all_langs()
    .iter()
    .enumerate()
    .filter(|(_, l)| std::panic::catch_unwind(|| Pattern::try_new(pattern, **l).is_ok()).unwrap_or(false))
    .map(|(i, _)| i)
    .collect()
}

fn model_args(p: &IProj, c: &Cmd, level: &str, j: usize, pok: &[usize]) -> Value {
  let paths: Vec<String> = p.files.iter().map(|f| f.path.clone()).collect();
  let (gm, invalid) = glob_tables(&p.rules, &paths);
  let ids: Vec<String> = p.rules.iter().map(|r| r.id.clone()).collect();
  let filter = match &c.filter {
    None => Value::Null,
    Some(f) => {
      let re = regex::Regex::new(f).unwrap();
      let mut all = ids.clone();
      all.push("unused-suppression".into());
      json!({"re": f, "ok": all.iter().filter(|i| re.is_match(i)).collect::<Vec<_>>()})
    }
  };
  let mut a = json!({
    "cmd": c.name, "level": level, "j": j, "isProject": true,
    "files": p.files.iter().map(|f| json!({"p": f.path, "c": f.kind.name(), "present": f.present()})).collect::<Vec<_>>(),
    "rules": p.rules.iter().map(|r| json!({"id": r.id, "lang": r.lang, "sev": r.sev, "files": r.files, "ignores": r.ignores})).collect::<Vec<_>>(),
    "occs": c.occs.iter().map(|(s, i)| json!([s, i])).collect::<Vec<_>>(),
    "filter": filter, "gm": gm, "invalid": invalid, "pok": pok, "pattern": c.pattern,
  });
  if let Some(l) = c.lang {
    a["lang"] = json!(l);
  }
  a
}

/// the paths the command is documented to visit: `scan` — files of the languages of the enabled
/// rules, and pages that can embed them; `run -l L` — files of L and pages that can embed it;
/// `run` — every file
fn eligible<'a>(p: &'a IProj, c: &Cmd) -> Option<Vec<&'a IFile>> {
  let langs: BTreeSet<usize> = match (c.name, c.lang) {
    ("run", None) => return Some(p.files.iter().collect()),
    ("run", Some(l)) => [l].into_iter().collect(),
    _ => p
      .rules
      .iter()
      .filter(|r| filter_ok(&c.filter, &r.id) && final_severity(&c.occs, &r.id, &r.sev) != "off")
      .map(|r| r.lang)
      .collect(),
  };
  if langs.is_empty() {
    return None;
  }
  let hosts = langs.iter().any(|l| hosted_in_html(*l));
  Some(p.files.iter().filter(|f| f.lang.map_or(false, |l| langs.contains(&l) || (l == 8 && hosts))).collect())
}

#[derive(Default)]
struct Tally {
  cases: BTreeMap<&'static str, usize>,
}
impl Tally {
  fn hit(&mut self, k: &'static str) {
    *self.cases.entry(k).or_insert(0) += 1;
  }
}

fn check_cmd(p: &IProj, root: &Path, pv: &Priv, c: &Cmd, pok: &[usize], o: &mut Out, t: &mut Tally, tag: &str) {
  let mut traces: BTreeMap<(&str, usize), Vec<String>> = BTreeMap::new();
  let mut findings: BTreeMap<(String, String), usize> = BTreeMap::new();
  let mut exit = None;
  for level in ["summary", "entity"] {
    for j in [1usize, 4, 16] {
      let args = cmd_args(c, level, j);
      let out = run_cli(&args, root, pv.uid, &[], Duration::from_secs(30));
      let r = if out.hang { json!("hang") } else { json!(parse_trace(&out.stderr)) };
      o.op("inspect_cli", model_args(p, c, level, j, pok), r);
      traces.insert((level, j), parse_trace(&out.stderr));
      if level == "entity" && j == 4 {
        findings = parse_findings(&out.stdout);
        exit = out.code;
      }
    }
  }
  let input = json!({"project": tag, "cmd": cmd_args(c, "entity", 4)});
  // (1) the trace is the same for every thread count
  {
    let same = ["summary", "entity"].iter().all(|lv| traces[&(*lv, 1)] == traces[&(*lv, 4)] && traces[&(*lv, 4)] == traces[&(*lv, 16)]);
    t.hit("insp_same_all_j");
    if !same {
      o.oracle("insp_same_all_j", false, json!({"fp": "inspect:schedule-dependent-trace", "input": input, "j1": traces[&("entity", 1)], "j16": traces[&("entity", 16)]}));
    }
  }
  let tr = &traces[&("entity", 4)];
  let num = |s: &str, i: usize| s.split('|').nth(i).and_then(|x| x.parse::<usize>().ok());
  let file_summary = tr.iter().find(|l| l.starts_with("summary|file|")).cloned();
  let rule_summary = tr.iter().find(|l| l.starts_with("summary|rule|")).cloned();
  let Some(fs) = file_summary else {
    // the command did not start the walk (load error): nothing to account for
    return;
  };
  let (scanned, skipped) = (num(&fs, 2).unwrap_or(0), num(&fs, 3).unwrap_or(0));
  let elig = eligible(p, c);
  // (2) documented: total = scanned + skipped
  if let Some(el) = &elig {
    let has_fault = el.iter().any(|f| f.kind.fault());
    t.hit("insp_counts_partition");
    if scanned + skipped != el.len() {
      let fp = if has_fault { "inspect:counts:skipped-file-also-counted-as-scanned" } else { "inspect:counts:clean-tree" };
      // (what `--inspect` prints is documented by the tool, it is no clause of C15 / C17: measured, not judged;
      // the model transcribes the code as it is — `counts_exact_doc_counterexample`)
      o.op("info:insp_counts_partition", json!({"fp": fp, "scanned": scanned, "skipped": skipped, "files": el.len()}), Value::Null);
    }
    // the skipped counter itself: files that cannot be read (and have a language)
    let expect_skipped = el.iter().filter(|f| f.kind.fault() && f.lang.is_some()).count();
    t.hit("insp_skipped_count");
    if skipped != expect_skipped {
      o.oracle("insp_skipped_count", false, json!({"fp": "inspect:counts:skipped-counter", "input": input, "skipped": skipped, "expected": expect_skipped}));
    }
    // (3) documented: one `file` line per visited file
    let mut per_path: BTreeMap<&str, usize> = BTreeMap::new();
    for l in tr.iter().filter(|l| l.starts_with("entity|file|")) {
      *per_path.entry(l.split('|').nth(2).unwrap_or("?")).or_insert(0) += 1;
    }
    let mut failed: BTreeMap<&'static str, String> = BTreeMap::new();
    for f in el {
      let n = per_path.get(f.path.as_str()).copied().unwrap_or(0);
      t.hit("insp_entity_once");
      if n != 1 {
        let class = if f.lang.is_none() {
          "inspect:entity:file-without-language-has-no-line"
        } else if f.kind.fault() {
          "inspect:entity:skipped-file-has-no-line"
        } else if f.script || f.style {
          "inspect:entity:one-line-per-embedded-document"
        } else {
          "inspect:entity:other"
        };
        failed.entry(class).or_insert_with(|| format!("{} ({} lines, {})", f.path, n, f.kind.name()));
      }
    }
    let known: BTreeSet<&str> = el.iter().map(|f| f.path.as_str()).collect();
    if let Some(extra) = per_path.keys().find(|p| !known.contains(**p)) {
      failed.insert("inspect:entity:line-for-unvisited-file", extra.to_string());
    }
    for (fp, ex) in failed {
      // measured, not judged (see above): `entity_lines_once_scan_counterexample`
      o.op("info:insp_entity_once", json!({"fp": fp, "example": ex}), Value::Null);
    }
  }
  // (4) a file the trace does not show as read has no finding; a faulty file never has one
  {
    let shown: BTreeSet<&str> = tr.iter().filter(|l| l.starts_with("entity|file|")).filter_map(|l| l.split('|').nth(2)).collect();
    for f in &p.files {
      t.hit("insp_skipped_no_finding");
      let has = findings.keys().any(|(file, _)| file == &f.path);
      if has && (f.kind.fault() || !shown.contains(f.path.as_str())) {
        o.oracle("insp_skipped_no_finding", false, json!({"fp": "inspect:finding-of-skipped-file", "input": input, "file": f.path, "kind": f.kind.name()}));
      }
    }
  }
  if c.name != "scan" {
    return;
  }
  // (5) rule accounting
  if let Some(rs) = rule_summary {
    let (eff, skp) = (num(&rs, 2).unwrap_or(0), num(&rs, 3).unwrap_or(0));
    t.hit("insp_rule_counts");
    if eff + skp != p.rules.len() {
      o.oracle("insp_rule_counts", false, json!({"fp": "inspect:rules:counts-do-not-add-up", "input": input, "effective": eff, "skipped": skp, "loaded": p.rules.len()}));
    }
    let off = p.rules.iter().filter(|r| final_severity(&c.occs, &r.id, &r.sev) == "off").count();
    t.hit("insp_skipped_is_off");
    if skp != off {
      let fp = if c.filter.is_some() { "inspect:rules:rule-dropped-by-filter-counted-as-skipped" } else { "inspect:rules:skipped-is-not-off" };
      // measured, not judged (see above): `rule_skipped_filter_counterexample`
      o.op("info:insp_skipped_is_off", json!({"fp": fp, "skipped": skp, "off": off}), Value::Null);
    }
    // one `rule` line per enabled rule, with its final severity
    let want: BTreeSet<String> = p
      .rules
      .iter()
      .filter(|r| filter_ok(&c.filter, &r.id))
      .map(|r| (r, final_severity(&c.occs, &r.id, &r.sev)))
      .filter(|(_, s)| s != "off")
      .map(|(r, s)| format!("entity|rule|{}|{}", r.id, s))
      .collect();
    let got: BTreeSet<String> = tr.iter().filter(|l| l.starts_with("entity|rule|")).cloned().collect();
    t.hit("insp_rule_lines");
    if want != got {
      o.oracle("insp_rule_lines", false, json!({"fp": "inspect:rules:rule-lines", "input": input, "want": want, "got": got}));
    }
  }
  // (6) C15: the count on a `file` line = the rules that language, globs and severity select
  for l in tr.iter().filter(|l| l.starts_with("entity|file|")) {
    let parts: Vec<&str> = l.split('|').collect();
    let (path, doc, n) = (parts[2], parts[3].parse::<usize>().unwrap_or(999), parts[4].parse::<usize>().unwrap_or(999));
    let expect = p
      .rules
      .iter()
      .filter(|r| r.lang == doc && filter_ok(&c.filter, &r.id) && final_severity(&c.occs, &r.id, &r.sev) != "off" && globs_accept(r, path))
      .count();
    t.hit("insp_applied_count");
    if n != expect {
      o.oracle("insp_applied_count", false, json!({"fp": "inspect:applied-rule-count", "input": input, "line": l, "expected": expect}));
    }
    // every rule reported for the file is one of a document the trace lists
  }
  for ((file, id), _) in &findings {
    if id == "unused-suppression" || id.is_empty() {
      continue;
    }
    let Some(r) = p.rules.iter().find(|r| &r.id == id) else { continue };
    t.hit("insp_finding_has_line");
    let ok = tr.iter().any(|l| {
      let parts: Vec<&str> = l.split('|').collect();
      parts.len() == 5 && parts[1] == "file" && parts[2] == file && parts[3] == r.lang.to_string() && parts[4] != "0"
    });
    if !ok {
      o.oracle("insp_finding_has_line", false, json!({"fp": "inspect:finding-without-applied-rule", "input": input, "file": file, "rule": id}));
    }
  }
  let _ = exit;
}

pub fn inspect(ctx: &Ctx, rng: &mut Rng, o: &mut Out) {
  let pv = detect_priv();
  let nproj = if ctx.thorough { 400 } else { 64 };
  let patterns = ["let a = 1", "$A", "a = 1", "1"];
  let mut t = Tally::default();
  let mut ncli = 0usize;
  for n in 0..nproj {
    let big = n % 8 == 5;
    let p = gen_project(rng, &pv, big);
    let tag = format!("{}-{}", ctx.seed, n);
    let root = materialize(&p, &tag);
    let ids: Vec<String> = p.rules.iter().map(|r| r.id.clone()).collect();
    let (occs, filter) = gen_flags(rng, &ids);
    let pattern = *rng.pick(&patterns);
    let pok = pattern_ok(pattern);
    // scan always; run with -l on even projects, with the language inferred on odd ones
    let scan = Cmd { name: "scan", lang: None, pattern, occs, filter };
    check_cmd(&p, &root, &pv, &scan, &pok, o, &mut t, &tag);
    let run_lang = if n % 2 == 0 {
      let cands: Vec<usize> = [10usize, 21, 15, 4, 8].into_iter().filter(|l| pok.contains(l)).collect();
      if cands.is_empty() { None } else { Some(*rng.pick(&cands)) }
    } else {
      None
    };
    let run = Cmd { name: "run", lang: run_lang, pattern, occs: vec![], filter: None };
    check_cmd(&p, &root, &pv, &run, &pok, o, &mut t, &tag);
    ncli += 12;
    cleanup(&p, &root);
  }
  replay_witnesses(&pv, o);
  for (k, n) in &t.cases {
    o.oracle(k, true, json!({"cases": n}));
  }
  o.oracle("insp_env", true, json!({"cases": 0, "privileges": pv.note, "projects": nproj, "cli_runs": ncli}));
}

/// the Lean counter-examples on the real CLI: `counts_exact_doc_counterexample` (one unreadable /
/// invalid file: scanned=1, skipped=1), `entity_lines_once_scan_counterexample`,
/// `rule_skipped_filter_counterexample`
fn replay_witnesses(pv: &Priv, o: &mut Out) {
  let p = IProj {
    files: vec![
      IFile { path: "a.js".into(), kind: Kind::Invalid, lang: Some(10), script: false, style: false },
      IFile { path: "p.html".into(), kind: Kind::Text, lang: Some(8), script: true, style: true },
      IFile { path: "b.ts".into(), kind: Kind::Text, lang: Some(21), script: false, style: false },
      IFile { path: "sgconfig.yml".into(), kind: Kind::Text, lang: Some(22), script: false, style: false },
      IFile { path: "rules/all.yml".into(), kind: Kind::Text, lang: Some(22), script: false, style: false },
    ],
    rules: vec![
      IRule { id: "r0".into(), lang: 10, sev: "error".into(), files: None, ignores: None },
      IRule { id: "r2".into(), lang: 21, sev: "warning".into(), files: Some(vec!["*".into()]), ignores: None },
      IRule { id: "r3".into(), lang: 4, sev: "hint".into(), files: None, ignores: None },
    ],
  };
  let root = materialize(&p, "witness");
  let mut t = Tally::default();
  let pok = pattern_ok("let a = 1");
  let scan = Cmd { name: "scan", lang: None, pattern: "let a = 1", occs: vec![], filter: None };
  check_cmd(&p, &root, pv, &scan, &pok, o, &mut t, "witness");
  let scan_f = Cmd { name: "scan", lang: None, pattern: "let a = 1", occs: vec![], filter: Some("^r0$".into()) };
  check_cmd(&p, &root, pv, &scan_f, &pok, o, &mut t, "witness-filter");
  cleanup(&p, &root);
}

pub fn exec(op: &str, a: &Value) -> Option<Value> {
  if op != "inspect_cli" {
    return None;
  }
  // rebuild the project from the recorded description and run the CLI again
  let pv = detect_priv();
  let files: Vec<IFile> = a["files"]
    .as_array()?
    .iter()
    .map(|f| {
      let path = f["p"].as_str().unwrap_or("").to_string();
      let present: Vec<u64> = f["present"].as_array().map(|v| v.iter().filter_map(|x| x.as_u64()).collect()).unwrap_or_default();
      let kind = match f["c"].as_str().unwrap_or("text") {
        "empty" => Kind::Empty,
        "invalid" => Kind::Invalid,
        "unreadable" => Kind::Unreadable,
        "toolarge" => Kind::TooLarge,
        _ => Kind::Text,
      };
      IFile { lang: ext_lang(&path), path, kind, script: present.contains(&10), style: present.contains(&4) }
    })
    .collect();
  let rules: Vec<IRule> = a["rules"]
    .as_array()?
    .iter()
    .map(|r| {
      let globs = |k: &str| r[k].as_array().map(|v| v.iter().filter_map(|x| x.as_str().map(String::from)).collect::<Vec<_>>());
      IRule {
        id: r["id"].as_str().unwrap_or("").into(),
        lang: r["lang"].as_u64().unwrap_or(10) as usize,
        sev: r["sev"].as_str().unwrap_or("hint").into(),
        files: globs("files"),
        ignores: globs("ignores"),
      }
    })
    .collect();
  let p = IProj { files, rules };
  let occs: Occs = a["occs"]
    .as_array()?
    .iter()
    .map(|e| (e[0].as_str().unwrap_or("").to_string(), e[1].as_str().map(String::from)))
    .collect();
  let filter = a["filter"]["re"].as_str().map(String::from);
  let pattern: &'static str = Box::leak(a["pattern"].as_str().unwrap_or("$A").to_string().into_boxed_str());
  let c = Cmd {
    name: if a["cmd"].as_str() == Some("scan") { "scan" } else { "run" },
    lang: a["lang"].as_u64().map(|l| l as usize),
    pattern,
    occs,
    filter,
  };
  let root = materialize(&p, "replay");
  let args = cmd_args(&c, a["level"].as_str().unwrap_or("entity"), a["j"].as_u64().unwrap_or(1) as usize);
  let out = run_cli(&args, &root, pv.uid, &[], Duration::from_secs(30));
  cleanup(&p, &root);
  Some(if out.hang { json!("hang") } else { json!(parse_trace(&out.stderr)) })
}
