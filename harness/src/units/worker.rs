//! C17 units: the multiple-producer / single-consumer file worker, end to end through the
//! real CLI (`agv-sg`, same `main` as ast-grep).
//!
//! * `read_file`    — skip decision of `read_file`/`file_too_large` on single files with
//!                    sizes / line counts around the thresholds (model: `Worker.readFile`).
//! * `worker_trees` — generated directory trees (50–400 files, faults planted) scanned with
//!                    `run` / `scan`, `--json=stream|compact|pretty`, `-j 1,2,4,8,16`, repeated.
//!                    Per-file results come from single-file runs of the same CLI (that is
//!                    the property's oracle); the model predicts the exact stdout, counters and
//!                    exit status of each tree run from them and from the observed arrival order.
use super::Ctx;
use crate::util::*;
use serde_json::{json, Value};
use std::collections::{BTreeMap, BTreeSet, HashMap};
use std::io::Read;
use std::os::unix::fs::PermissionsExt;
use std::os::unix::process::CommandExt;
use std::path::{Path, PathBuf};
use std::process::{Command, Stdio};
use std::time::{Duration, Instant};

const PATTERN: &str = "console.log($A)";
const NOBODY: u32 = 65534;

pub fn sg_bin() -> PathBuf {
  let exe = std::env::current_exe().expect("current_exe");
  exe.parent().expect("exe dir").join("agv-sg")
}

pub struct CliOut {
  pub stdout: Vec<u8>,
  pub stderr: String,
  pub code: Option<i32>,
  pub hang: bool,
}

/// run the real CLI with a wall-clock timeout; a timeout is the outcome `hang`
pub fn run_cli(args: &[String], cwd: &Path, uid: Option<u32>, prefix: &[&str], timeout: Duration) -> CliOut {
  let bin = sg_bin();
  let mut cmd = if prefix.is_empty() {
    Command::new(&bin)
  } else {
    let mut c = Command::new(prefix[0]);
    c.args(&prefix[1..]).arg(&bin);
    c
  };
  cmd
    .args(args)
    .current_dir(cwd)
    .stdin(Stdio::null())
    .stdout(Stdio::piped())
    .stderr(Stdio::piped())
    .env_remove("RUST_BACKTRACE")
    .env("NO_COLOR", "1");
  if let Some(u) = uid {
    cmd.uid(u).gid(u);
  }
  let mut child = match cmd.spawn() {
    Ok(c) => c,
    Err(e) => {
      return CliOut { stdout: vec![], stderr: format!("spawn failed: {e}"), code: None, hang: false };
    }
  };
  let mut so = child.stdout.take().unwrap();
  let mut se = child.stderr.take().unwrap();
  let t_out = std::thread::spawn(move || {
    let mut v = vec![];
    let _ = so.read_to_end(&mut v);
    v
  });
  let t_err = std::thread::spawn(move || {
    let mut v = vec![];
    let _ = se.read_to_end(&mut v);
    v
  });
  let start = Instant::now();
  let mut hang = false;
  let code = loop {
    match child.try_wait() {
      Ok(Some(st)) => break st.code(),
      Ok(None) => {
        if start.elapsed() > timeout {
          // slow is not hung: a child that still consumes CPU (a loaded machine, `nice`,
          // `taskset`) gets up to four times the limit; one whose threads all sleep does not
          if start.elapsed() < timeout * 4 && super::procpool::still_working(child.id()) {
            continue;
          }
          let _ = child.kill();
          let _ = child.wait();
          hang = true;
          break None;
        }
        std::thread::sleep(Duration::from_millis(2));
      }
      Err(_) => break None,
    }
  };
  let stdout = t_out.join().unwrap_or_default();
  let stderr = String::from_utf8_lossy(&t_err.join().unwrap_or_default()).to_string();
  CliOut { stdout, stderr, code, hang }
}

fn sargs(xs: &[&str]) -> Vec<String> {
  xs.iter().map(|s| s.to_string()).collect()
}

/// `sg: summary|file: scannedFileCount=N,skippedFileCount=M`
fn parse_summary(stderr: &str) -> Option<(u64, u64)> {
  let i = stderr.find("scannedFileCount=")?;
  let rest = &stderr[i + "scannedFileCount=".len()..];
  let n: String = rest.chars().take_while(|c| c.is_ascii_digit()).collect();
  let j = rest.find("skippedFileCount=")?;
  let rest2 = &rest[j + "skippedFileCount=".len()..];
  let m: String = rest2.chars().take_while(|c| c.is_ascii_digit()).collect();
  Some((n.parse().ok()?, m.parse().ok()?))
}

/// `Error: N error(s) found in code.`
fn parse_errors(stderr: &str) -> u64 {
  if let Some(i) = stderr.find(" error(s) found") {
    let head = &stderr[..i];
    let digits: String = head.chars().rev().take_while(|c| c.is_ascii_digit()).collect();
    let digits: String = digits.chars().rev().collect();
    return digits.parse().unwrap_or(0);
  }
  0
}

/// split the text of a JSON array into the exact source text of its elements
/// (string- and nesting-aware; surrounding whitespace of an element is trimmed)
fn split_json_array(s: &str) -> Option<Vec<String>> {
  let t = s.trim();
  if !t.starts_with('[') || !t.ends_with(']') {
    return None;
  }
  let inner = &t[1..t.len() - 1];
  let mut out = vec![];
  let (mut depth, mut in_str, mut esc) = (0i32, false, false);
  let mut start = 0usize;
  for (i, c) in inner.char_indices() {
    if in_str {
      if esc {
        esc = false;
      } else if c == '\\' {
        esc = true;
      } else if c == '"' {
        in_str = false;
      }
      continue;
    }
    match c {
      '"' => in_str = true,
      '{' | '[' => depth += 1,
      '}' | ']' => depth -= 1,
      ',' if depth == 0 => {
        out.push(inner[start..i].trim().to_string());
        start = i + 1;
      }
      _ => {}
    }
    if depth < 0 {
      return None;
    }
  }
  if depth != 0 || in_str {
    return None;
  }
  let last = inner[start..].trim();
  if !last.is_empty() {
    out.push(last.to_string());
  } else if !out.is_empty() {
    return None; // trailing comma
  }
  Some(out)
}

/// canonical form of a record: keys sorted at every level (record objects come partly out of
/// hash maps: `metaVariables.single` has a per-process key order, which is C13's business)
fn canon_value(v: &Value) -> Value {
  match v {
    Value::Object(m) => {
      let mut keys: Vec<&String> = m.keys().collect();
      keys.sort();
      let mut out = serde_json::Map::new();
      for k in keys {
        out.insert(k.clone(), canon_value(&m[k]));
      }
      Value::Object(out)
    }
    Value::Array(a) => Value::Array(a.iter().map(canon_value).collect()),
    x => x.clone(),
  }
}
fn canon(rec: &str) -> String {
  let v: Value = serde_json::from_str(rec).unwrap_or(Value::Null);
  let c = canon_value(&v);
  // a BTreeMap-backed or insertion-ordered map both print the keys as inserted above only
  // when insertion order is kept; sort again textually to be independent of that
  fn emit(v: &Value, out: &mut String) {
    match v {
      Value::Object(m) => {
        let mut keys: Vec<&String> = m.keys().collect();
        keys.sort();
        out.push('{');
        for (i, k) in keys.iter().enumerate() {
          if i > 0 {
            out.push(',');
          }
          out.push_str(&Value::String((*k).clone()).to_string());
          out.push(':');
          emit(&m[*k], out);
        }
        out.push('}');
      }
      Value::Array(a) => {
        out.push('[');
        for (i, x) in a.iter().enumerate() {
          if i > 0 {
            out.push(',');
          }
          emit(x, out);
        }
        out.push(']');
      }
      x => out.push_str(&x.to_string()),
    }
  }
  let mut s = String::new();
  emit(&c, &mut s);
  s
}

/// records of one output, as exact source text; `None` when stdout does not parse
fn split_records(style: &str, stdout: &[u8]) -> Option<Vec<String>> {
  let s = std::str::from_utf8(stdout).ok()?;
  let recs: Vec<String> = if style == "stream" {
    if s.is_empty() {
      vec![]
    } else {
      s.split('\n').map(|x| x.to_string()).collect()
    }
  } else {
    // the whole output must be one JSON value (an array) …
    let v: Value = serde_json::from_str(s).ok()?;
    let n = v.as_array()?.len();
    let parts = split_json_array(s)?;
    if parts.len() != n {
      return None;
    }
    parts
  };
  // … and every record one JSON object
  for r in &recs {
    let v: Value = serde_json::from_str(r).ok()?;
    if !v.is_object() {
      return None;
    }
  }
  Some(recs)
}

// ---------------------------------------------------------------------------------------------
// privilege handling: `chmod 000` means nothing to root

pub struct Priv {
  /// run the CLI under this uid (root harness that can drop to `nobody`)
  pub uid: Option<u32>,
  /// unreadable files can be produced
  pub chmod_effective: bool,
  pub note: String,
}

fn make_dir_world(p: &Path) {
  std::fs::create_dir_all(p).expect("mkdir");
  let _ = std::fs::set_permissions(p, std::fs::Permissions::from_mode(0o755));
}

fn scratch_root(tag: &str, seed: u64) -> PathBuf {
  let p = std::env::temp_dir().join(format!("agv-c17-{}-{}-{}", tag, std::process::id(), seed));
  let _ = std::fs::remove_dir_all(&p);
  make_dir_world(&p);
  p
}

pub fn detect_priv() -> Priv {
  let probe = scratch_root("probe", 0);
  let f = probe.join("p.js");
  std::fs::write(&f, "console.log(1)\n").unwrap();
  let locked = probe.join("locked.js");
  std::fs::write(&locked, "console.log(2)\n").unwrap();
  std::fs::set_permissions(&locked, std::fs::Permissions::from_mode(0o000)).unwrap();
  let native = std::fs::read(&locked).is_err();
  let r = if native {
    Priv { uid: None, chmod_effective: true, note: "harness is not root: chmod 000 is effective".into() }
  } else {
    // root: try to run the CLI as `nobody`
    let a = sargs(&["run", "-p", PATTERN, "--json=stream", "--inspect", "summary", "."]);
    let out = run_cli(&a, &probe, Some(NOBODY), &[], Duration::from_secs(20));
    let ok = out.code == Some(0)
      && parse_summary(&out.stderr) == Some((2, 1))
      && String::from_utf8_lossy(&out.stdout).contains("console.log(1)");
    if ok {
      Priv {
        uid: Some(NOBODY),
        chmod_effective: true,
        note: "harness runs as root: the CLI is executed under uid 65534 (nobody) so that chmod 000 is effective".into(),
      }
    } else {
      Priv {
        uid: None,
        chmod_effective: false,
        note: "harness runs as root and cannot drop privileges: the fault kind `unreadable (chmod 000)` is skipped".into(),
      }
    }
  };
  let _ = std::fs::set_permissions(&locked, std::fs::Permissions::from_mode(0o644));
  let _ = std::fs::remove_dir_all(&probe);
  r
}

// ---------------------------------------------------------------------------------------------
// unit read_file

/// content with exactly `len` bytes and `lines` lines (as counted by `str::lines`), containing
/// one `console.log(1)` when there is room
fn content_with(len: usize, lines: usize) -> Option<Vec<u8>> {
  if len == 0 {
    return if lines == 0 { Some(vec![]) } else { None };
  }
  if lines == 0 {
    return None;
  }
  const HEAD: &str = "console.log(1)//";
  if lines >= 2 && len >= lines + HEAD.len() {
    // `console.log(1)` on its own line, the padding in a comment on the second line
    let mut v = Vec::with_capacity(len);
    v.extend_from_slice(b"console.log(1)\n//");
    v.resize(len - (lines - 1), b'a');
    v.resize(len, b'\n');
    Some(v)
  } else if len >= lines + HEAD.len() {
    let mut v = Vec::with_capacity(len);
    v.extend_from_slice(HEAD.as_bytes());
    v.resize(len - lines, b'a');
    v.resize(len, b'\n');
    Some(v)
  } else if len >= lines {
    // too small for the call: `a…a` + newlines (no match expected)
    let mut v = vec![b'a'; len - lines];
    v.resize(len, b'\n');
    Some(v)
  } else {
    None
  }
}

fn single_file_skip(dir: &Path, name: &str, pv: &Priv) -> Value {
  let a = sargs(&["run", "-p", PATTERN, "--json=stream", "--inspect", "summary", name]);
  let out = run_cli(&a, dir, pv.uid, &[], Duration::from_secs(60));
  if out.hang {
    return json!("hang");
  }
  match (out.code, parse_summary(&out.stderr)) {
    (Some(0), Some((1, sk))) => json!({"skip": sk == 1}),
    (c, s) => json!({"unexpected": format!("code={c:?} summary={s:?}")}),
  }
}

pub fn read_file(ctx: &Ctx, rng: &mut Rng, o: &mut Out) {
  let pv = detect_priv();
  let dir = scratch_root("rf", ctx.seed);
  let mut cases: Vec<(String, usize, usize)> = vec![]; // (kind, len, lines)
  let lens: Vec<usize> = vec![0, 1, 17, 200_017, 2_999_999, 3_000_000, 3_000_001, 3_300_000];
  let lns: Vec<usize> = vec![0, 1, 2, 199_999, 200_000, 200_001, 260_000];
  for &l in &lens {
    for &n in &lns {
      if content_with(l, n).is_some() {
        cases.push(("text".into(), l, n));
      }
    }
  }
  let extra = if ctx.thorough { 60 } else { 8 };
  for _ in 0..extra {
    let l = if rng.chance(1, 2) { 2_999_990 + rng.below(40) } else { rng.below(3_400_000) };
    let n = if rng.chance(1, 2) { 199_990 + rng.below(20) } else { 1 + rng.below(260_000) };
    if content_with(l, n).is_some() {
      cases.push(("text".into(), l, n));
    }
  }
  let mut ncase = 0usize;
  for (i, (_, l, n)) in cases.iter().enumerate() {
    let name = format!("f{i}.js");
    let content = content_with(*l, *n).unwrap();
    let s = std::str::from_utf8(&content).unwrap();
    // the two numbers the code looks at, computed with the same std functions
    let (len, lines) = (s.len(), s.lines().count());
    std::fs::write(dir.join(&name), &content).unwrap();
    let r = single_file_skip(&dir, &name, &pv);
    let _ = std::fs::remove_file(dir.join(&name));
    o.op("read_file", json!({"kind": "text", "len": len, "lines": lines}), r);
    ncase += 1;
  }
  // invalid UTF-8 at different places
  let bads: Vec<Vec<u8>> = vec![
    b"\xff\xfe".to_vec(),
    b"console.log(1)\n\xc3".to_vec(),
    b"console.log(1)\n\xe2\x82\nfoo()\n".to_vec(),
    b"\x80console.log(1)\n".to_vec(),
    b"console.log(1) // \xf0\x9f\x98\n".to_vec(),
  ];
  for (i, b) in bads.iter().enumerate() {
    let name = format!("bad{i}.js");
    std::fs::write(dir.join(&name), b).unwrap();
    let r = single_file_skip(&dir, &name, &pv);
    o.op("read_file", json!({"kind": "invalid_utf8", "len": b.len(), "lines": 0}), r);
    ncase += 1;
  }
  if pv.chmod_effective {
    let name = "locked.js";
    std::fs::write(dir.join(name), "console.log(1)\n").unwrap();
    std::fs::set_permissions(dir.join(name), std::fs::Permissions::from_mode(0o000)).unwrap();
    let r = single_file_skip(&dir, name, &pv);
    o.op("read_file", json!({"kind": "unreadable", "len": 15, "lines": 1}), r);
    ncase += 1;
  }
  o.oracle("c17_env", true, json!({"cases": 0, "privileges": pv.note, "read_file_cases": ncase}));
  let _ = std::fs::remove_dir_all(&dir);
}

// ---------------------------------------------------------------------------------------------
// unit worker_trees

#[derive(Clone, Copy, PartialEq, Eq, PartialOrd, Ord, Debug)]
enum Kind {
  Normal,
  NoMatch,
  Empty,
  BadUtf8,
  Unreadable,
  TooLarge,
  LargeFewLines,
  ManyLinesSmall,
}
impl Kind {
  fn name(self) -> &'static str {
    match self {
      Kind::Normal => "normal",
      Kind::NoMatch => "nomatch",
      Kind::Empty => "empty",
      Kind::BadUtf8 => "invalid-utf8",
      Kind::Unreadable => "unreadable",
      Kind::TooLarge => "oversized",
      Kind::LargeFewLines => "large-few-lines",
      Kind::ManyLinesSmall => "many-lines-small",
    }
  }
  fn is_fault(self) -> bool {
    matches!(self, Kind::Empty | Kind::BadUtf8 | Kind::Unreadable | Kind::TooLarge)
  }
}

struct FileSpec {
  rel: String,
  kind: Kind,
  ext: &'static str,
}

struct Tree {
  root: PathBuf,
  files: Vec<FileSpec>,
  dangling: usize,
  seed: u64,
}

fn gen_source(rng: &mut Rng, serial: &mut u64, want_match: bool) -> String {
  let n = 1 + rng.below(7);
  let mut s = String::new();
  let mut has = false;
  for _ in 0..n {
    *serial += 1;
    match rng.below(6) {
      0 | 1 if want_match => {
        s.push_str(&format!("console.log({})\n", serial));
        has = true;
      }
      2 => s.push_str(&format!("foo({})\n", serial)),
      3 => s.push_str(&format!("bar('x{}', \"q\\\"{}\")\n", serial, serial)),
      4 => s.push_str("// console.log(0) in a comment\n"),
      _ => s.push_str(&format!("let v{} = [{}, {}]\n", serial, serial, n)),
    }
  }
  if want_match && !has {
    *serial += 1;
    s.push_str(&format!("if (x) {{ console.log({}, 'é') }}\n", serial));
  }
  s
}

fn gen_tree(rng: &mut Rng, tag: &str, nfiles: usize, pv: &Priv, seed: u64) -> Tree {
  let root = scratch_root(tag, seed);
  let tree_root = root.join("tree");
  make_dir_world(&tree_root);
  let mut files = vec![];
  let mut serial = 0u64;
  let ndirs = 1 + nfiles / 12;
  let mut dirs = vec![String::new()];
  for d in 0..ndirs {
    let parent = dirs[rng.below(dirs.len())].clone();
    let depth = parent.matches('/').count();
    let name = if depth >= 3 { format!("d{d}") } else { format!("{parent}d{d}") };
    let rel = format!("{name}/");
    make_dir_world(&tree_root.join(&rel));
    dirs.push(rel);
  }
  // planted specials: exactly one oversized, one large-few-lines, one many-lines-small
  let mut specials = vec![Kind::TooLarge, Kind::LargeFewLines, Kind::ManyLinesSmall];
  for i in 0..nfiles {
    let dir = dirs[rng.below(dirs.len())].clone();
    // html: a page with an embedded script (the same statements as a .js file) and a style; the
    // walker hands such files to JavaScript commands too (the script is an injected document)
    let ext: &'static str = match rng.below(12) {
      0 => "ts",
      1 => "txt",
      2 => "py",
      3 | 4 => "html",
      _ => "js",
    };
    let kind = if !specials.is_empty() && i % 17 == 3 {
      specials.pop().unwrap()
    } else {
      match rng.below(20) {
        0 => Kind::Empty,
        1 => Kind::BadUtf8,
        2 if pv.chmod_effective => Kind::Unreadable,
        3 | 4 | 5 => Kind::NoMatch,
        _ => Kind::Normal,
      }
    };
    let ext = if matches!(kind, Kind::TooLarge | Kind::LargeFewLines | Kind::ManyLinesSmall) { "js" } else { ext };
    let rel = format!("{dir}f{i}.{ext}");
    let path = tree_root.join(&rel);
    let page = |body: String| -> String {
      if ext == "html" {
        format!("<html>\n<head>\n<style>\n  a {{ color: red }}\n</style>\n</head>\n<body>\n<script>\n{body}</script>\n<p>console.log(0) in the markup</p>\n</body>\n</html>\n")
      } else {
        body
      }
    };
    let content: Vec<u8> = match kind {
      Kind::Normal => page(gen_source(rng, &mut serial, true)).into_bytes(),
      Kind::NoMatch => page(gen_source(rng, &mut serial, false)).into_bytes(),
      Kind::Empty => vec![],
      Kind::BadUtf8 => {
        let mut v = page(gen_source(rng, &mut serial, true)).into_bytes();
        let at = rng.below(v.len() + 1);
        v.insert(at, 0xff);
        v
      }
      Kind::Unreadable => page(gen_source(rng, &mut serial, true)).into_bytes(),
      Kind::TooLarge => content_with(3_000_400 + rng.below(1000), 200_010 + rng.below(100)).unwrap(),
      Kind::LargeFewLines => content_with(3_000_400 + rng.below(1000), 3 + rng.below(100)).unwrap(),
      Kind::ManyLinesSmall => content_with(400_000 + rng.below(1000), 200_010 + rng.below(100)).unwrap(),
    };
    std::fs::write(&path, &content).unwrap();
    if kind == Kind::Unreadable {
      std::fs::set_permissions(&path, std::fs::Permissions::from_mode(0o000)).unwrap();
    }
    files.push(FileSpec { rel, kind, ext });
  }
  // dangling symlinks and a symlink to a regular file (not followed by default: not files)
  let mut dangling = 0;
  for k in 0..(2 + nfiles / 60) {
    let dir = dirs[rng.below(dirs.len())].clone();
    let link = tree_root.join(format!("{dir}dangling{k}.js"));
    if std::os::unix::fs::symlink("/nonexistent/agv/target.js", &link).is_ok() {
      dangling += 1;
    }
  }
  if let Some(f) = files.iter().find(|f| f.kind == Kind::Normal && f.ext == "js") {
    let _ = std::os::unix::fs::symlink(tree_root.join(&f.rel), tree_root.join("link_to_file.js"));
  }
  files.sort_by(|a, b| a.rel.cmp(&b.rel));
  Tree { root, files, dangling, seed }
}

fn cleanup_tree(t: &Tree) {
  // restore permissions so that the directory can be removed
  for f in &t.files {
    if f.kind == Kind::Unreadable {
      let _ = std::fs::set_permissions(t.root.join("tree").join(&f.rel), std::fs::Permissions::from_mode(0o644));
    }
  }
  let _ = std::fs::remove_dir_all(&t.root);
}

const RULES_ERR: &str = r#"id: no-console
language: JavaScript
severity: error
message: no console ($A)
rule:
  pattern: console.log($A)
---
id: no-foo
language: JavaScript
severity: warning
message: foo
rule:
  pattern: foo($A)
---
id: multi-console
language: JavaScript
severity: error
rule:
  pattern: console.log($A, $B)
---
id: console-in-some
language: JavaScript
severity: error
message: a rule that applies to some of the files of a directory only (by file name)
files: ['**/f*1.js', '**/f*4.js', '**/f*7.js', 'f*2.js']
rule:
  pattern: console.log($A)
---
id: foo-not-in-some
language: JavaScript
severity: warning
ignores: ['**/f*0.js', '**/f*5.js', '**/d1/f*3.js']
rule:
  pattern: foo($A)
"#;

const RULES_WARN: &str = r#"id: warn-console
language: JavaScript
severity: warning
rule:
  pattern: console.log($A)
---
id: hint-let
language: JavaScript
severity: hint
rule:
  pattern: let $V = $E
---
id: hint-let-in-some
language: JavaScript
severity: hint
files: ['**/f*2.js', '**/f*3.js', '**/f*8.js']
ignores: ['**/f*13.js']
rule:
  pattern: let $V = $E
"#;

#[derive(Clone)]
struct CmdSpec {
  name: &'static str,
  model_cmd: &'static str,
  args: Vec<String>,
  /// which extensions the walker hands to the worker
  eligible: fn(&str) -> bool,
}

fn all_ext(_: &str) -> bool {
  true
}
fn js_ext(e: &str) -> bool {
  e == "js" || e == "html"
}

struct Single {
  records: Vec<String>,
  scanned: u64,
  skipped: u64,
  code: Option<i32>,
  errors: u64,
  bad: Option<String>,
}

fn run_single(tree: &Tree, cmd: &CmdSpec, style: &str, rel: &str, pv: &Priv) -> Single {
  let mut a = cmd.args.clone();
  a.push(format!("--json={style}"));
  a.extend(sargs(&["--inspect", "summary", rel]));
  let out = run_cli(&a, &tree.root.join("tree"), pv.uid, &[], Duration::from_secs(60));
  let mut s = Single { records: vec![], scanned: 0, skipped: 0, code: out.code, errors: parse_errors(&out.stderr), bad: None };
  if out.hang {
    s.bad = Some("hang".into());
    return s;
  }
  match parse_summary(&out.stderr) {
    Some((a, b)) => {
      s.scanned = a;
      s.skipped = b;
    }
    None => s.bad = Some(format!("no summary: {}", &out.stderr.chars().take(200).collect::<String>())),
  }
  match split_records(style, &out.stdout) {
    Some(r) => s.records = r,
    None => s.bad = Some("stdout does not parse".into()),
  }
  s
}

fn singles(tree: &Tree, cmd: &CmdSpec, style: &str, pv: &Priv) -> Vec<Option<Single>> {
  let n = tree.files.len();
  let mut res: Vec<Option<Single>> = (0..n).map(|_| None).collect();
  let workers = 8;
  let chunks: Vec<Vec<usize>> = (0..workers).map(|w| (0..n).filter(|i| i % workers == w).collect()).collect();
  let parts: Vec<Vec<(usize, Single)>> = std::thread::scope(|sc| {
    let hs: Vec<_> = chunks
      .iter()
      .map(|idx| {
        sc.spawn(move || {
          idx
            .iter()
            .filter(|&&i| (cmd.eligible)(tree.files[i].ext))
            .map(|&i| (i, run_single(tree, cmd, style, &tree.files[i].rel, pv)))
            .collect::<Vec<_>>()
        })
      })
      .collect();
    hs.into_iter().map(|h| h.join().unwrap()).collect()
  });
  for p in parts {
    for (i, s) in p {
      res[i] = Some(s);
    }
  }
  res
}

struct ItemS {
  rule: Option<String>,
  docs: Vec<String>,  // exact bytes as printed by the single-file run
  canon: Vec<String>, // canonical forms
  errors: u64,
}

/// items of one file from its single-file records: consecutive records of the same rule
fn group_items(records: &[String]) -> Vec<ItemS> {
  let mut items: Vec<ItemS> = vec![];
  for r in records {
    let v: Value = serde_json::from_str(r).unwrap_or(Value::Null);
    let rule = v["ruleId"].as_str().map(|s| s.to_string());
    let err = (v["severity"].as_str() == Some("error")) as u64;
    match items.last_mut() {
      Some(it) if it.rule == rule => {
        it.docs.push(r.clone());
        it.canon.push(canon(r));
        it.errors += err;
      }
      _ => items.push(ItemS { rule, docs: vec![r.clone()], canon: vec![canon(r)], errors: err }),
    }
  }
  items
}

fn fault_kinds(tree: &Tree) -> String {
  let ks: BTreeSet<&str> = tree.files.iter().filter(|f| f.kind.is_fault()).map(|f| f.kind.name()).collect();
  ks.into_iter().collect::<Vec<_>>().join("+")
}

struct Tally {
  cases: usize,
  runs: usize,
  ops: usize,
  hangs: usize,
  distinct_orders: usize,
}

#[allow(clippy::too_many_arguments)]
fn check_tree_cmd(
  tree: &Tree,
  cmd: &CmdSpec,
  style: &str,
  threads: &[usize],
  repeats: usize,
  max_ops: usize,
  perturb: bool,
  pv: &Priv,
  o: &mut Out,
  tally: &mut Tally,
) {
  let sing = singles(tree, cmd, style, pv);
  let faults = fault_kinds(tree);
  let fp_base = format!("c17 {} {} faults={}", cmd.name, style, faults);
  // per-file model input + the oracle's expectation (union of the single-file runs)
  let mut skip_of: Vec<bool> = vec![];
  let mut items_of: Vec<Vec<ItemS>> = vec![];
  let mut file_index: HashMap<String, usize> = HashMap::new();
  let mut union: Vec<String> = vec![];
  let (mut exp_scanned, mut exp_skipped, mut exp_errors) = (0u64, 0u64, 0u64);
  let mut doc_skipped = 0u64; // from the documentation: faults on files of a known language
  let mut midx = 0usize;
  let mut model_of_file: Vec<Option<usize>> = vec![];
  for (i, f) in tree.files.iter().enumerate() {
    let Some(s) = &sing[i] else {
      model_of_file.push(None);
      continue;
    };
    if let Some(b) = &s.bad {
      o.oracle("c17_single_file", false, json!({"fp": format!("{fp_base} single-file-run"), "file": f.rel, "kind": f.kind.name(), "why": b, "tree_seed": tree.seed}));
    }
    let items = group_items(&s.records);
    exp_scanned += s.scanned;
    exp_skipped += s.skipped;
    exp_errors += s.errors;
    if f.kind.is_fault() && f.ext != "txt" {
      doc_skipped += 1;
    }
    union.extend(s.records.iter().map(|r| canon(r)));
    skip_of.push(s.skipped == 1);
    file_index.insert(f.rel.clone(), midx);
    model_of_file.push(Some(midx));
    items_of.push(items);
    midx += 1;
  }
  union.sort();
  // the documented skip rule agrees with what the single-file runs did
  let ok = doc_skipped == exp_skipped;
  if !ok {
    o.oracle("c17_skip_rule", false, json!({"fp": format!("{fp_base} skip-rule"), "documented": doc_skipped, "single_runs": exp_skipped, "tree_seed": tree.seed}));
  }
  tally.cases += 1;
  let exp_exit = if cmd.model_cmd == "scan" && exp_errors > 0 { 1 } else { 0 };
  let mut seen_out: BTreeSet<Vec<u8>> = BTreeSet::new();
  let mut exits: BTreeMap<String, BTreeSet<i64>> = BTreeMap::new();
  let mut emitted = 0usize;
  for &j in threads {
    for rep in 0..repeats {
      let mut a = cmd.args.clone();
      a.push(format!("--json={style}"));
      // `--inspect entity` traces every file on stderr (one shared sink for all walker threads):
      // tracing never decides whether a file is searched
      let level = if rep % 2 == 1 { "entity" } else { "summary" };
      a.extend(sargs(&["--inspect", level, "-j", &j.to_string(), "."]));
      let prefix: Vec<&str> = if perturb && rep % 3 == 1 {
        vec!["nice", "-n", "15"]
      } else if perturb && rep % 3 == 2 && Path::new("/usr/bin/taskset").exists() {
        vec!["taskset", "-c", "0"]
      } else {
        vec![]
      };
      let out = run_cli(&a, &tree.root.join("tree"), pv.uid, &prefix, Duration::from_secs(120));
      tally.runs += 1;
      tally.cases += 1;
      let ctxj = json!({"cmd": cmd.name, "style": style, "threads": j, "rep": rep, "tree_seed": tree.seed, "files": tree.files.len()});
      if out.hang {
        tally.hangs += 1;
        o.oracle("c17_no_hang", false, json!({"fp": format!("{fp_base} hang"), "run": ctxj}));
        continue;
      }
      exits.entry("exit".into()).or_default().insert(out.code.map(|c| c as i64).unwrap_or(-1));
      // stdout parses, every record is an object
      let Some(recs) = split_records(style, &out.stdout) else {
        o.oracle("c17_stdout_parses", false, json!({"fp": format!("{fp_base} stdout-malformed"), "run": ctxj,
          "stdout_head": String::from_utf8_lossy(&out.stdout).chars().take(300).collect::<String>()}));
        continue;
      };
      // multiset of records (as JSON values) = union of the single-file runs
      let canons: Vec<String> = recs.iter().map(|r| canon(r)).collect();
      let mut sorted = canons.clone();
      sorted.sort();
      if sorted != union {
        let missing: Vec<&String> = union.iter().filter(|r| !sorted.contains(r)).collect();
        let extra: Vec<&String> = sorted.iter().filter(|r| !union.contains(r)).collect();
        let head = |v: &Vec<&String>| v.first().map(|s| s.chars().take(700).collect::<String>());
        o.oracle("c17_union_of_files", false, json!({"fp": format!("{fp_base} records-differ"), "run": ctxj,
          "tree_records": sorted.len(), "union_records": union.len(), "missing": missing.len(), "extra": extra.len(),
          "first_missing": head(&missing), "first_extra": head(&extra)}));
      }
      // counters and exit status = those of the union
      let summ = parse_summary(&out.stderr);
      let errs = parse_errors(&out.stderr);
      if summ != Some((exp_scanned, exp_skipped)) || errs != exp_errors || out.code != Some(exp_exit) {
        o.oracle("c17_counters_exit", false, json!({"fp": format!("{fp_base} counters-exit"), "run": ctxj,
          "summary": format!("{summ:?}"), "expected": [exp_scanned, exp_skipped], "errors": errs, "expected_errors": exp_errors,
          "exit": out.code, "expected_exit": exp_exit}));
      }
      // correspondence op: the model's prediction for the observed arrival order
      if !seen_out.insert(out.stdout.clone()) {
        continue;
      }
      tally.distinct_orders += 1;
      if emitted >= max_ops {
        continue;
      }
      let mut arrival: Vec<[usize; 2]> = vec![];
      // exact bytes of the records of each item as printed in *this* run
      let mut seen_docs: HashMap<(usize, usize), Vec<String>> = HashMap::new();
      let mut derivable = true;
      for (r, c) in recs.iter().zip(canons.iter()) {
        let v: Value = serde_json::from_str(r).unwrap_or(Value::Null);
        let file = v["file"].as_str().unwrap_or("");
        let rule = v["ruleId"].as_str().map(|s| s.to_string());
        let Some(&fi) = file_index.get(file) else {
          derivable = false;
          break;
        };
        let Some(ii) = items_of[fi].iter().position(|it| it.rule == rule) else {
          derivable = false;
          break;
        };
        // consecutive records of one item are one buffer
        let docs = seen_docs.entry((fi, ii)).or_default();
        let same = arrival.last() == Some(&[fi, ii]) && docs.len() < items_of[fi][ii].canon.len();
        if !same {
          arrival.push([fi, ii]);
        }
        // the k-th record of the buffer is the k-th record of the item (document order)
        if items_of[fi][ii].canon.get(docs.len() % items_of[fi][ii].canon.len().max(1)) != Some(c) {
          derivable = false;
          break;
        }
        docs.push(r.clone());
      }
      if !derivable {
        // a record of no known file / rule / position: reported by c17_union_of_files, or the
        // records of one item are not in document order
        if sorted == union {
          o.oracle("c17_item_order", false, json!({"fp": format!("{fp_base} item-records-out-of-order"), "run": ctxj}));
        }
        continue;
      }
      let files_json: Vec<Value> = items_of
        .iter()
        .enumerate()
        .map(|(fi, items)| {
          json!({
            "skip": skip_of[fi],
            "items": items.iter().enumerate().map(|(ii, it)| {
              let docs = match seen_docs.get(&(fi, ii)) {
                Some(d) if d.len() == it.docs.len() => d.clone(),
                _ => it.docs.clone(),
              };
              json!({"docs": docs, "errors": it.errors})
            }).collect::<Vec<_>>(),
          })
        })
        .collect();
      let (sc, sk) = summ.unwrap_or((u64::MAX, u64::MAX));
      o.op(
        "worker_run",
        json!({"cmd": cmd.model_cmd, "style": style, "threads": j, "files": files_json, "arrival": arrival,
               "info": {"cli": cmd.name, "tree_seed": tree.seed}}),
        json!({"stdout": String::from_utf8_lossy(&out.stdout), "exit": out.code, "scanned": sc, "skipped": sk,
               "errors": errs, "valid": true}),
      );
      emitted += 1;
      tally.ops += 1;
    }
  }
  if exits.get("exit").map(|s| s.len()).unwrap_or(0) > 1 {
    o.oracle("c17_exit_equal", false, json!({"fp": format!("{fp_base} exit-differs-across-threads"), "exits": format!("{:?}", exits["exit"]), "tree_seed": tree.seed}));
  }
  let _ = model_of_file;
}

/// A consumer that stalls: the printer cannot write, items pile up between the walker threads and
/// the printing thread. However far the printer falls behind, every file must still be reported
/// exactly once (the channel is part of the schedule the property quantifies over).
fn slow_consumer(ctx: &Ctx, o: &mut Out) {
  let n = if ctx.thorough { 4000 } else { 1800 };
  let dir = scratch_root("slow", n as u64);
  for i in 0..n {
    std::fs::write(dir.join(format!("f{i:05}.js")), format!("console.log({i});\n")).unwrap();
  }
  let mut cases = 0usize;
  for (threads, stall_ms) in [(1usize, 2500u64), (4, 2500), (16, 1200)] {
    let mut child = Command::new(sg_bin())
      .args(["run", "-p", PATTERN, "--json=stream", "-j", &threads.to_string()])
      .arg(&dir)
      .stdin(Stdio::null())
      .stdout(Stdio::piped())
      .stderr(Stdio::null())
      .env("NO_COLOR", "1")
      .spawn()
      .expect("spawn agv-sg");
    let mut so = child.stdout.take().unwrap();
    // the reader does not touch the pipe for a while, then drains it
    let reader = std::thread::spawn(move || {
      std::thread::sleep(Duration::from_millis(stall_ms));
      let mut v = vec![];
      let _ = so.read_to_end(&mut v);
      v
    });
    let start = Instant::now();
    let code = loop {
      match child.try_wait() {
        Ok(Some(st)) => break st.code(),
        Ok(None) if start.elapsed() > Duration::from_secs(120) => {
          let _ = child.kill();
          let _ = child.wait();
          break None;
        }
        _ => std::thread::sleep(Duration::from_millis(5)),
      }
    };
    let out = reader.join().unwrap_or_default();
    let text = String::from_utf8_lossy(&out);
    let mut files = std::collections::BTreeSet::new();
    let mut records = 0usize;
    let mut malformed = 0usize;
    for line in text.lines().filter(|l| !l.trim().is_empty()) {
      match serde_json::from_str::<Value>(line) {
        Ok(v) => {
          records += 1;
          files.insert(v["file"].as_str().unwrap_or("").to_string());
        }
        Err(_) => malformed += 1,
      }
    }
    cases += 1;
    let ok = code == Some(0) && records == n && files.len() == n && malformed == 0;
    if !ok {
      o.oracle(
        "c17_slow_consumer",
        false,
        json!({"fp": "stalled consumer: findings of a tree differ from the union of its files", "threads": threads, "stall_ms": stall_ms,
               "files_in_tree": n, "records": records, "distinct_files": files.len(), "malformed": malformed, "exit": code}),
      );
    }
  }
  let _ = std::fs::remove_dir_all(&dir);
  o.oracle("c17_slow_consumer", true, json!({"cases": cases, "files": n}));
}

pub fn worker_trees(ctx: &Ctx, rng: &mut Rng, o: &mut Out) {
  let pv = detect_priv();
  slow_consumer(ctx, o);
  let sizes: Vec<usize> = if ctx.thorough { vec![50, 120, 200, 300, 400, 90, 250] } else { vec![50 + rng.below(30), 150 + rng.below(60), 400] };
  let threads = [1usize, 2, 4, 8, 16];
  let repeats = if ctx.thorough { 20 } else { 3 };
  let mut tally = Tally { cases: 0, runs: 0, ops: 0, hangs: 0, distinct_orders: 0 };
  let mut nfiles = 0usize;
  for (ti, &n) in sizes.iter().enumerate() {
    let seed = rng.next();
    let mut trng = Rng(seed);
    let tree = gen_tree(&mut trng, &format!("t{ti}"), n, &pv, seed);
    nfiles += tree.files.len();
    let rules_err = tree.root.join("rules_err.yml");
    let rules_warn = tree.root.join("rules_warn.yml");
    std::fs::write(&rules_err, RULES_ERR).unwrap();
    std::fs::write(&rules_warn, RULES_WARN).unwrap();
    let cmds = vec![
      CmdSpec { name: "run-inferred", model_cmd: "run", args: sargs(&["run", "-p", PATTERN]), eligible: all_ext },
      CmdSpec { name: "run-lang-js", model_cmd: "run", args: sargs(&["run", "-p", PATTERN, "-l", "js"]), eligible: js_ext },
      CmdSpec { name: "scan-error-rules", model_cmd: "scan", args: sargs(&["scan", "-r", rules_err.to_str().unwrap()]), eligible: js_ext },
      CmdSpec { name: "scan-warning-rules", model_cmd: "scan", args: sargs(&["scan", "-r", rules_warn.to_str().unwrap()]), eligible: js_ext },
    ];
    let max_ops = if ctx.thorough { 12 } else { 6 };
    for c in &cmds {
      check_tree_cmd(&tree, c, "stream", &threads, repeats, max_ops, ctx.thorough, &pv, o, &mut tally);
    }
    // the other two frames on the smallest trees
    if ti == 0 || (ctx.thorough && ti == 1) {
      for style in ["compact", "pretty"] {
        check_tree_cmd(&tree, &cmds[0], style, &[1, 4, 16], repeats, max_ops, false, &pv, o, &mut tally);
        check_tree_cmd(&tree, &cmds[2], style, &[1, 4, 16], repeats, max_ops, false, &pv, o, &mut tally);
      }
    }
    let _ = tree.dangling;
    cleanup_tree(&tree);
  }
  o.oracle(
    "c17_trees",
    true,
    json!({"cases": tally.cases, "tree_runs": tally.runs, "trees": sizes.len(), "files": nfiles, "hangs": tally.hangs,
           "distinct_outputs": tally.distinct_orders, "worker_run_ops": tally.ops, "privileges": pv.note,
           "thread_counts": threads, "repeats": repeats}),
  );
}

pub fn exec(op: &str, a: &Value) -> Option<Value> {
  match op {
    "read_file" => {
      let pv = detect_priv();
      let dir = scratch_root("replay", 1);
      let kind = a["kind"].as_str()?;
      let name = "r.js";
      let r = match kind {
        "text" => {
          let c = content_with(a["len"].as_u64()? as usize, a["lines"].as_u64()? as usize)?;
          std::fs::write(dir.join(name), c).ok()?;
          single_file_skip(&dir, name, &pv)
        }
        "invalid_utf8" => {
          std::fs::write(dir.join(name), b"console.log(1)\n\xff").ok()?;
          single_file_skip(&dir, name, &pv)
        }
        "unreadable" if pv.chmod_effective => {
          std::fs::write(dir.join(name), "console.log(1)\n").ok()?;
          std::fs::set_permissions(dir.join(name), std::fs::Permissions::from_mode(0o000)).ok()?;
          single_file_skip(&dir, name, &pv)
        }
        _ => return None,
      };
      let _ = std::fs::remove_dir_all(&dir);
      Some(r)
    }
    // a tree run depends on the schedule: it cannot be re-executed stand-alone; the recorded
    // arrival order is replayed on the model only
    _ => None,
  }
}
